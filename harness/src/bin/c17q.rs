//! C17 (queries): the sentence-cost QUERIES of cfgrammar asked one by one.
//!
//! mode Q (default; one case per stdin line, one result line per case):
//!   case:   `<kind> <hexsrc> [sh=1] ; <tokname>=<cost> …`          (unlisted tokens cost 1)
//!   every query of every rule separately under catch_unwind: `sh=1` on ONE generator for the whole grammar
//!   (rule by rule: min, max, min_sentence, min_sentences), otherwise on a fresh generator per rule.
//!   result: `<grammar dump> # COST t c … # QMIN r <v> # QMAX r <v|inf> # QMS r tok… # QMSS r ; tok… ; tok…`
//!           a panic is `P` in place of the value when its message is the documented overflow message
//!           ("Overflow occurred when calculating rule costs"), `X <msg>` otherwise; a long min_sentence is
//!           `BIG <len> <cost>`, a large min_sentences `BIG <n> <min cost> <max cost> <total tokens>`.
//!
//! mode D (`c17q depth <stack KiB>`; ONE case on stdin, its own process: a native stack overflow aborts it):
//!   case:   `<kind> <hexsrc> <hex rule name> ; <tokname>=<cost> …`
//!   grammar construction and the queries min_sentence_cost, [max_sentence_cost,] [min_sentence,] min_sentences of
//!   the named rule run on a thread with exactly that stack (std::thread::Builder::stack_size); progress is
//!   flushed to stdout BEFORE each step: `BUILT <rules>`, `MIN v`, `MAX v|inf` (only with GVH_DEPTH_MAX=1),
//!   `MS <len> <cost>` (only with GVH_DEPTH_MS=1), `MSS-CALL`, `MSS <n> <len of first> <cost of first>`, `END`.
//!
//! mode F (`c17q full`; one case per stdin line, one result line per case): `<kind> <hexsrc> ; <tokname>=<cost> …`
//!   min_sentences of every rule on a fresh generator, the WHOLE list in the order returned, never abbreviated:
//!   `<grammar dump> # COST t c … # MSS r ; tok… ; tok…` (a panic: `# MSS r P` / `# MSS r X <msg>`)
use cfgrammar::yacc::YaccGrammar;
use cfgrammar::{RIdx, TIdx};
use gvh::common::*;
use gvh::util::*;
use std::fmt::Write as FW;
use std::io::Write as IW;
use std::panic::AssertUnwindSafe;

const OVERFLOW_MSG: &str = "Overflow occurred when calculating rule costs";

fn grammar(kind: &str, src: &str) -> Result<YaccGrammar<u32>, String> {
    YaccGrammar::<u32>::new_with_storaget(yacckind(kind), src).map_err(|e| {
        format!(
            "GRMERR {}",
            e.iter().map(|x| format!("{}", x)).collect::<Vec<_>>().join("; ").replace('\n', " ")
        )
    })
}

fn clean(m: &str) -> String {
    m.replace('\n', " ").replace('#', "")
}

fn token_costs(grm: &YaccGrammar<u32>, tail: &str) -> Vec<u8> {
    let mut costs: Vec<u8> = vec![1; usize::from(grm.tokens_len())];
    for kv in tail.split_whitespace() {
        if let Some((n, c)) = kv.rsplit_once('=') {
            if let (Some(t), Ok(c)) = (grm.token_idx(n), c.parse::<u8>()) {
                costs[usize::from(t)] = c;
            }
        }
    }
    costs
}

fn panic_code(m: &str) -> String {
    if m.contains(OVERFLOW_MSG) {
        "P".to_string()
    } else {
        format!("X {}", clean(m))
    }
}

fn cost_of(costs: &[u8], s: &[TIdx<u32>]) -> u64 {
    s.iter().map(|t| u64::from(costs[usize::from(*t)])).sum()
}

fn queries_of_rule(
    o: &mut String,
    sg: &cfgrammar::yacc::SentenceGenerator<u32>,
    costs: &[u8],
    r: RIdx<u32>,
) {
    let ri = usize::from(r);
    match catch(AssertUnwindSafe(|| sg.min_sentence_cost(r))) {
        Ok(v) => write!(o, " # QMIN {} {}", ri, v).unwrap(),
        Err(m) => write!(o, " # QMIN {} {}", ri, panic_code(&m)).unwrap(),
    }
    match catch(AssertUnwindSafe(|| sg.max_sentence_cost(r))) {
        Ok(Some(v)) => write!(o, " # QMAX {} {}", ri, v).unwrap(),
        Ok(None) => write!(o, " # QMAX {} inf", ri).unwrap(),
        Err(m) => write!(o, " # QMAX {} {}", ri, panic_code(&m)).unwrap(),
    }
    match catch(AssertUnwindSafe(|| sg.min_sentence(r))) {
        Ok(s) => {
            if s.len() > 600 {
                write!(o, " # QMS {} BIG {} {}", ri, s.len(), cost_of(costs, &s)).unwrap();
            } else {
                write!(o, " # QMS {}", ri).unwrap();
                for t in s {
                    write!(o, " {}", usize::from(t)).unwrap();
                }
            }
        }
        Err(m) => write!(o, " # QMS {} {}", ri, panic_code(&m)).unwrap(),
    }
    match catch(AssertUnwindSafe(|| sg.min_sentences(r))) {
        Ok(ss) => {
            let total: usize = ss.iter().map(|s| s.len()).sum();
            if ss.len() > 50 || total > 600 {
                let cs: Vec<u64> = ss.iter().map(|s| cost_of(costs, s)).collect();
                write!(
                    o,
                    " # QMSS {} BIG {} {} {} {}",
                    ri,
                    ss.len(),
                    cs.iter().min().copied().unwrap_or(0),
                    cs.iter().max().copied().unwrap_or(0),
                    total
                )
                .unwrap();
            } else {
                write!(o, " # QMSS {}", ri).unwrap();
                for s in ss {
                    write!(o, " ;").unwrap();
                    for t in s {
                        write!(o, " {}", usize::from(t)).unwrap();
                    }
                }
            }
        }
        Err(m) => write!(o, " # QMSS {} {}", ri, panic_code(&m)).unwrap(),
    }
}

fn q_case(line: &str) -> String {
    let (head, tail) = match line.split_once(';') {
        Some((h, t)) => (h, t),
        None => (line, ""),
    };
    let mut hs = head.split_whitespace();
    let kind = hs.next().unwrap_or("O").to_string();
    let src = unhex(hs.next().unwrap_or(""));
    let shared = hs.next().map(|x| x == "sh=1").unwrap_or(false);
    let grm = match catch(AssertUnwindSafe(|| grammar(&kind, &src))) {
        Err(m) => return format!("BUILDPANIC {}", clean(&m)),
        Ok(Err(e)) => return e,
        Ok(Ok(g)) => g,
    };
    let costs = token_costs(&grm, tail);
    let mut o = dump_grammar(&grm);
    write!(o, " # COST").unwrap();
    for (t, c) in costs.iter().enumerate() {
        write!(o, " {} {}", t, c).unwrap();
    }
    write!(o, " # SH {}", if shared { 1 } else { 0 }).unwrap();
    if shared {
        let c2 = costs.clone();
        let sg = grm.sentence_generator(move |t: TIdx<u32>| c2[usize::from(t)]);
        for r in grm.iter_rules() {
            queries_of_rule(&mut o, &sg, &costs, r);
        }
    } else {
        for r in grm.iter_rules() {
            let c2 = costs.clone();
            let sg = grm.sentence_generator(move |t: TIdx<u32>| c2[usize::from(t)]);
            queries_of_rule(&mut o, &sg, &costs, r);
        }
    }
    o
}

fn full_case(line: &str) -> String {
    let (head, tail) = match line.split_once(';') {
        Some((h, t)) => (h, t),
        None => (line, ""),
    };
    let mut hs = head.split_whitespace();
    let kind = hs.next().unwrap_or("O").to_string();
    let src = unhex(hs.next().unwrap_or(""));
    let grm = match catch(AssertUnwindSafe(|| grammar(&kind, &src))) {
        Err(m) => return format!("BUILDPANIC {}", clean(&m)),
        Ok(Err(e)) => return e,
        Ok(Ok(g)) => g,
    };
    let costs = token_costs(&grm, tail);
    let mut o = dump_grammar(&grm);
    write!(o, " # COST").unwrap();
    for (t, c) in costs.iter().enumerate() {
        write!(o, " {} {}", t, c).unwrap();
    }
    for r in grm.iter_rules() {
        let c2 = costs.clone();
        let sg = grm.sentence_generator(move |t: TIdx<u32>| c2[usize::from(t)]);
        write!(o, " # MSS {}", usize::from(r)).unwrap();
        match catch(AssertUnwindSafe(|| sg.min_sentences(r))) {
            Ok(ss) => {
                for s in ss {
                    write!(o, " ;").unwrap();
                    for t in s {
                        write!(o, " {}", usize::from(t)).unwrap();
                    }
                }
            }
            Err(m) => write!(o, " {}", panic_code(&m)).unwrap(),
        }
    }
    o
}

fn say(s: &str) {
    let out = std::io::stdout();
    let mut out = out.lock();
    writeln!(out, "{}", s).unwrap();
    out.flush().unwrap();
}

fn depth_main(stack_kib: usize) {
    let mut line = String::new();
    std::io::stdin().read_line(&mut line).expect("stdin");
    let with_ms = std::env::var("GVH_DEPTH_MS").map(|v| v == "1").unwrap_or(false);
    // rule_max_costs is cubic in the number of rules on a chain (one reachability round per link): off by default
    let with_max = std::env::var("GVH_DEPTH_MAX").map(|v| v == "1").unwrap_or(false);
    let h = std::thread::Builder::new()
        .stack_size(stack_kib * 1024)
        .spawn(move || {
            let line = line.trim_end();
            let (head, tail) = match line.split_once(';') {
                Some((h, t)) => (h, t),
                None => (line, ""),
            };
            let mut hs = head.split_whitespace();
            let kind = hs.next().unwrap_or("O").to_string();
            let src = unhex(hs.next().unwrap_or(""));
            let rname = unhex(hs.next().unwrap_or(""));
            let grm = match grammar(&kind, &src) {
                Ok(g) => g,
                Err(e) => {
                    say(&e);
                    return;
                }
            };
            say(&format!("BUILT {}", usize::from(grm.rules_len())));
            let r = match grm.rule_idx(&rname) {
                Some(r) => r,
                None => {
                    say("NORULE");
                    return;
                }
            };
            let costs = token_costs(&grm, tail);
            let c2 = costs.clone();
            let sg = grm.sentence_generator(move |t: TIdx<u32>| c2[usize::from(t)]);
            match catch(AssertUnwindSafe(|| sg.min_sentence_cost(r))) {
                Ok(v) => say(&format!("MIN {}", v)),
                Err(m) => {
                    say(&format!("MINPANIC {}", clean(&m)));
                    return;
                }
            }
            if with_max {
                match catch(AssertUnwindSafe(|| sg.max_sentence_cost(r))) {
                    Ok(Some(v)) => say(&format!("MAX {}", v)),
                    Ok(None) => say("MAX inf"),
                    Err(m) => say(&format!("MAXPANIC {}", clean(&m))),
                }
            }
            if with_ms {
                match catch(AssertUnwindSafe(|| sg.min_sentence(r))) {
                    Ok(s) => say(&format!("MS {} {}", s.len(), cost_of(&costs, &s))),
                    Err(m) => say(&format!("MSPANIC {}", clean(&m))),
                }
            }
            say("MSS-CALL");
            match catch(AssertUnwindSafe(|| sg.min_sentences(r))) {
                Ok(ss) => say(&format!(
                    "MSS {} {} {}",
                    ss.len(),
                    ss.first().map(|s| s.len()).unwrap_or(0),
                    ss.first().map(|s| cost_of(&costs, s)).unwrap_or(0)
                )),
                Err(m) => say(&format!("MSSPANIC {}", clean(&m))),
            }
            say("END");
        })
        .unwrap();
    let _ = h.join();
}

fn main() {
    gvh::quiet_panics();
    let args: Vec<String> = std::env::args().skip(1).collect();
    if args.first().map(|a| a == "depth").unwrap_or(false) {
        let kib: usize = args.get(1).and_then(|v| v.parse().ok()).unwrap_or(2048);
        depth_main(kib);
        return;
    }
    if args.first().map(|a| a == "full").unwrap_or(false) {
        for_each_case(|line| full_case(line));
        return;
    }
    for_each_case(|line| q_case(line));
}
