//! gvh — the Rust side of the correspondence checks.  One sub-command per
//! observation kind; cases are read from stdin (one per line), one canonical
//! result line per case is written to stdout.  Every case runs under
//! catch_unwind so that a panic of the implementation is an outcome.
mod c19;
mod util;

fn main() {
    let args: Vec<String> = std::env::args().collect();
    if args.len() < 2 {
        eprintln!("usage: gvh <subcommand>");
        std::process::exit(2);
    }
    // Panics are outcomes; keep stderr quiet unless asked.
    if std::env::var("GVH_VERBOSE_PANIC").is_err() {
        std::panic::set_hook(Box::new(|_| {}));
    }
    match args[1].as_str() {
        "c19" => c19::main(&args[2..]),
        other => {
            eprintln!("unknown subcommand {other}");
            std::process::exit(2);
        }
    }
}
