use std::io::{self, BufRead, Write};

/// Run `f` on every non-empty line of stdin, print its result line.  Each case
/// runs in its own thread under a watchdog (GVH_CASE_TIMEOUT_MS, default 20 s):
/// a hang is an outcome — "HANG" is printed for that case and the process exits
/// with status 3 (the orchestrator restarts it on the remaining cases).
pub fn for_each_case<F: FnMut(&str) -> String + Send + 'static>(f: F) {
    let timeout_ms: u64 = std::env::var("GVH_CASE_TIMEOUT_MS")
        .ok()
        .and_then(|v| v.parse().ok())
        .unwrap_or(20_000);
    let stdin = io::stdin();
    let stdout = io::stdout();
    let mut out = io::BufWriter::new(stdout.lock());
    let (tx_case, rx_case) = std::sync::mpsc::channel::<String>();
    let (tx_res, rx_res) = std::sync::mpsc::channel::<String>();
    std::thread::Builder::new()
        .stack_size(256 * 1024 * 1024)
        .spawn(move || {
            let mut f = f;
            while let Ok(line) = rx_case.recv() {
                let r = f(&line);
                if tx_res.send(r).is_err() {
                    break;
                }
            }
        })
        .unwrap();
    for line in stdin.lock().lines() {
        let line = line.expect("stdin");
        let line = line.trim_end().to_string();
        if line.is_empty() {
            continue;
        }
        tx_case.send(line).unwrap();
        match rx_res.recv_timeout(std::time::Duration::from_millis(timeout_ms)) {
            Ok(r) => {
                writeln!(out, "{}", r).unwrap();
                out.flush().unwrap();
            }
            Err(std::sync::mpsc::RecvTimeoutError::Timeout) => {
                writeln!(out, "HANG").unwrap();
                out.flush().unwrap();
                std::process::exit(3);
            }
            Err(_) => {
                writeln!(out, "CRASH worker thread died").unwrap();
                out.flush().unwrap();
                std::process::exit(4);
            }
        }
    }
    out.flush().unwrap();
}

/// Parse a whitespace-separated list of code points (decimal) into a String.
pub fn cps_to_string(s: &str) -> String {
    s.split_whitespace()
        .map(|t| char::from_u32(t.parse::<u32>().expect("cp")).expect("valid cp"))
        .collect()
}

pub fn catch<T, F: FnOnce() -> T + std::panic::UnwindSafe>(f: F) -> Result<T, String> {
    match std::panic::catch_unwind(f) {
        Ok(v) => Ok(v),
        Err(e) => {
            let msg = if let Some(s) = e.downcast_ref::<&str>() {
                s.to_string()
            } else if let Some(s) = e.downcast_ref::<String>() {
                s.clone()
            } else {
                "?".to_string()
            };
            Err(msg)
        }
    }
}
