use std::io::{self, BufRead, Write};

/// Run `f` on every non-empty line of stdin, print its result line.
pub fn for_each_case<F: FnMut(&str) -> String>(mut f: F) {
    let stdin = io::stdin();
    let stdout = io::stdout();
    let mut out = io::BufWriter::new(stdout.lock());
    for line in stdin.lock().lines() {
        let line = line.expect("stdin");
        let line = line.trim_end();
        if line.is_empty() {
            continue;
        }
        let r = f(line);
        writeln!(out, "{}", r).unwrap();
    }
    out.flush().unwrap();
}

/// Parse a whitespace-separated list of code points (decimal) into a String.
pub fn cps_to_string(s: &str) -> String {
    s.split_whitespace()
        .map(|t| char::from_u32(t.parse::<u32>().expect("cp")).expect("valid cp"))
        .collect()
}

pub fn catch<T, F: FnOnce() -> T + std::panic::UnwindSafe>(f: F) -> Result<T, String> {
    match std::panic::catch_unwind(f) {
        Ok(v) => Ok(v),
        Err(e) => {
            let msg = if let Some(s) = e.downcast_ref::<&str>() {
                s.to_string()
            } else if let Some(s) = e.downcast_ref::<String>() {
                s.clone()
            } else {
                "?".to_string()
            };
            Err(msg)
        }
    }
}
