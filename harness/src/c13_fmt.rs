//! C13: canonical rendering of lexemes, values, trees, errors and repair lists.
//! This one file is compiled into BOTH sides of the comparison: the harness
//! binary `c13` (run-time pipeline) and the throw-away crate that `include!`s the
//! generated modules (compile-time pipeline), so that the two print in the same
//! format by construction.  It also holds the helper functions the generated,
//! self-describing actions call (`crate::gv::t`, `s`, `x`, `node`) — the run-time
//! side evaluates the same functions from hand-written `parse_actions` closures.
#![allow(dead_code)]
use cfgrammar::Span;
use lrlex::{DefaultLexeme, DefaultLexerTypes};
use lrpar::parser::_deprecated_moved_::Node;
use lrpar::{LexError, LexParseError, Lexeme, NonStreamingLexer, ParseRepair};
use std::fmt::Write;

pub type LT = DefaultLexerTypes<u32>;
pub type Lx = DefaultLexeme<u32>;

pub fn hex(s: &str) -> String {
    s.bytes().map(|b| format!("{:02x}", b)).collect()
}

pub fn unhex(s: &str) -> String {
    let b: Vec<u8> = (0..s.len() / 2)
        .map(|i| u8::from_str_radix(&s[2 * i..2 * i + 2], 16).expect("hex"))
        .collect();
    String::from_utf8(b).expect("utf8")
}

/// `$k` of a token symbol: Ok for a real lexeme (with its text through `$lexer`),
/// Err for an inserted one.
pub fn t(lexer: &dyn NonStreamingLexer<'_, LT>, r: &Result<Lx, Lx>) -> String {
    match r {
        Ok(l) => format!(
            "Ok({}@{}+{}'{}')",
            l.tok_id(),
            l.span().start(),
            l.span().len(),
            lexer.span_str(l.span())
        ),
        Err(l) => format!("Err({}@{}+{})", l.tok_id(), l.span().start(), l.span().len()),
    }
}

/// `$span`
pub fn s(span: Span) -> String {
    format!("{}..{}", span.start(), span.end())
}

/// `$lexer.span_str($span)`
pub fn x(lexer: &dyn NonStreamingLexer<'_, LT>, span: Span) -> String {
    format!("[{}]", lexer.span_str(span))
}

/// value of a production: label + rendered items
pub fn node(label: &str, items: &[String]) -> String {
    format!("{}({})", label, items.join(","))
}

pub fn lexemes(lexer: &dyn NonStreamingLexer<'_, LT>) -> String {
    let mut o = String::from("LEX");
    for r in lexer.iter() {
        match r {
            Ok(l) => write!(o, " {}:{}:{}{}", l.tok_id(), l.span().start(), l.span().len(), if l.faulty() { "f" } else { "" }).unwrap(),
            Err(e) => write!(o, " !{}:{}", e.span().start(), e.span().end()).unwrap(),
        }
    }
    o
}

fn lx(l: &Lx) -> String {
    format!("{}@{}+{}", l.tok_id(), l.span().start(), l.span().len())
}

/// errors in order; the repair sequences of one error in the ORDER of `ParseError::repairs()` (the first is the
/// one recovery applied; since /repo ca69cd1 the order is a function of the input).  checks/C13.py sorts them where
/// it compares them as a set.
pub fn errs(es: &[LexParseError<u32, LT>]) -> String {
    let mut o = format!("ERRS {}", es.len());
    for e in es {
        match e {
            LexParseError::LexError(e) => write!(o, " L{}:{}", e.span().start(), e.span().end()).unwrap(),
            LexParseError::ParseError(e) => {
                let reps: Vec<String> = e
                    .repairs()
                    .iter()
                    .map(|seq| {
                        seq.iter()
                            .map(|r| match r {
                                ParseRepair::Insert(t) => format!("I{}", usize::from(*t)),
                                ParseRepair::Delete(l) => format!("D{}", lx(l)),
                                ParseRepair::Shift(l) => format!("S{}", lx(l)),
                            })
                            .collect::<Vec<_>>()
                            .join(".")
                    })
                    .collect();
                write!(o, " P{}{{{}}}", lx(e.lexeme()), reps.join(";")).unwrap();
            }
        }
    }
    o
}

pub fn tree(n: &Node<Lx, u32>, o: &mut String) {
    match n {
        Node::Term { lexeme } => {
            write!(o, "[{}{}]", lx(lexeme), if lexeme.faulty() { "f" } else { "" }).unwrap();
        }
        Node::Nonterm { ridx, nodes } => {
            write!(o, "({}", usize::from(*ridx)).unwrap();
            for k in nodes {
                o.push(' ');
                tree(k, o);
            }
            o.push(')');
        }
    }
}

pub fn val_string(v: &Option<String>) -> String {
    match v {
        Some(s) => format!("VAL {}", hex(s)),
        None => "VAL -".to_string(),
    }
}

pub fn val_tree(v: &Option<Node<Lx, u32>>) -> String {
    match v {
        Some(n) => {
            let mut o = String::new();
            tree(n, &mut o);
            format!("VAL {}", hex(&o))
        }
        None => "VAL -".to_string(),
    }
}
