"""C08 — actions run once per reduction, bottom-up left-to-right, with the child
values and the matched span; the actions-built tree equals the generic tree.

Proof (theories/C08): mirror of Parser::lr / lr_upto / apply_repairs with the value
stack, the span stack and an action log.  For TODAY's code: the log is the post-order
traversal of the returned tree with one well-formed call per node
(action_log_is_postorder, replay_calls_wellformed), the tree equals the generic
tree (actions_tree_equals_generic), the duplicated reduce code of lr_upto computes what
lr's computes (replay_mirror_same_step) — and span_is_yield_hull is REFUTED
(span_is_yield_hull_refuted: `S: 'a' E 'b'; E: ;` on "a   b" hands E the span (0,1)).
For the REPAIRED span computation (run_actions_fixed): the same theorems plus
span_is_yield_hull / replay_span_is_yield_hull (with recovery, any table).

Tie: parse_actions with one recording closure per production against the mirrors on
the implementation's own tables, lexemes with byte gaps; with recovery the mirror
replays the repair sequence the implementation reports as applied (so the mirror needs
no term costs); a share of the recovery cases sets non-uniform RTParserBuilder::term_costs
on both the parse_actions and the parse_map builder.  The implementation
has to match the mirror of today's code or the mirror of the repaired code.

Failing-input search (independent of the mirrors): from the implementation's own log
and returned tree recompute post-order, arguments, production symbols, parameter,
leaves, and the hull span of every call.
"""
import random
import zlib
from vlib import core
from gen import grammars as G

MAGIC = "77"

KEY_EMPTY = ("span of a production deriving no lexeme is copied from the previous stack entry "
             "instead of being zero-length")
KEY_LEAD = ("span of a production that begins with a subtree deriving no lexeme starts where that subtree's "
            "span starts (previous stack entry, or 0) instead of at its first lexeme")

CORPUS = [
    # the witnesses of DESIGN §9 (text positions given explicitly)
    ("%start S\n%%\nS: 'a' E 'b';\nE: ;\n", [[("a", 0, 1), ("b", 4, 5)]]),
    ("%start S\n%%\nS: T;\nT: E 'b';\nE: ;\n", [[("b", 4, 5)]]),
    ("%start S\n%%\nS: E 'a';\nE: ;\n", [[("a", 3, 4)]]),
    # empty in first / middle / last position, nested nullable, epsilon-only input
    ("%start S\n%%\nS: E 'a' E 'b' E;\nE: ;\n", [[("a", 2, 3), ("b", 6, 8)]]),
    ("%start S\n%%\nS: N 'a' N;\nN: E F;\nE: ;\nF: 'f' | ;\n",
     [[("a", 1, 2)], [("f", 1, 2), ("a", 4, 5), ("f", 9, 10)], [("a", 0, 1), ("f", 1, 2)]]),
    ("%start S\n%%\nS: L;\nL: L 'x' | ;\n", [[], [("x", 2, 3)], [("x", 2, 3), ("x", 5, 7), ("x", 7, 8)]]),
    ("%start S\n%%\nS: A B;\nA: ;\nB: ;\n", [[]]),
    ("%start S\n%%\nS: 'a' T 'c';\nT: E E 'b' E | E;\nE: ;\n",
     [[("a", 0, 1), ("b", 3, 4), ("c", 6, 7)], [("a", 2, 3), ("c", 6, 7)]]),
]

# inputs with errors around empty productions (recovery on)
CORPUS_REC = [
    ("%start S\n%%\nS: A 'b' 'c';\nA: 'a' E;\nE: ;\n",
     [[("b", 2, 3), ("c", 5, 6)], [("a", 0, 1), ("a", 2, 3), ("b", 4, 5), ("c", 6, 7)], [("a", 0, 1), ("c", 6, 7)],
      [("a", 1, 2), ("b", 4, 5)]]),
    ("%start S\n%%\nS: E 'a' E 'b' E;\nE: ;\n", [[("b", 3, 4)], [("a", 2, 3)], [("a", 1, 2), ("a", 3, 4), ("b", 6, 7)]]),
    ("%start S\n%%\nS: '(' L ')' ;\nL: L I | ;\nI: 'x' O;\nO: 'o' | ;\n",
     [[("(", 0, 1), ("x", 2, 3)], [("x", 2, 3), (")", 5, 6)], [("(", 1, 2), ("o", 3, 4), (")", 5, 6)],
      [("(", 0, 1), ("x", 1, 2), ("o", 2, 3), ("o", 4, 5), (")", 7, 8)]]),
]


# LEXER-SUPPLIED faulty lexemes (Lexeme::new_faulty is public API: a lexer with its own error handling may produce them):
# a 4th field True marks the lexeme faulty.  A faulty input lexeme of non-zero length is still a lexeme the production derived.
CORPUS_FAULTY = [
    ("%start S\n%%\nS: Item Item Item;\nItem: 'ID' | 'NUM';\n",
     [[("ID", 0, 2), ("NUM", 3, 5, True), ("ID", 6, 8)], [("NUM", 0, 2, True), ("ID", 3, 5), ("ID", 6, 8)],
      [("ID", 1, 2), ("ID", 3, 5), ("NUM", 6, 8, True)], [("NUM", 1, 2, True), ("NUM", 3, 5, True), ("NUM", 6, 8, True)]]),
    ("%start S\n%%\nS: 'a' E T E 'c';\nT: 'b' | T 'b';\nE: ;\n",
     [[("a", 0, 1), ("b", 2, 3, True), ("c", 5, 6)], [("a", 0, 1, True), ("b", 2, 3), ("b", 4, 6, True), ("c", 7, 8, True)],
      [("a", 0, 1), ("b", 2, 3, True), ("b", 4, 6), ("b", 8, 9, True), ("c", 10, 11)]]),
    ("%start S\n%%\nS: L;\nL: L I | ;\nI: 'x' O;\nO: 'o' | ;\n",
     [[("x", 1, 2, True)], [("x", 1, 2), ("o", 2, 3, True), ("x", 5, 6, True), ("x", 7, 8)], [("x", 0, 1, True), ("o", 3, 4, True)]]),
]

# the same with errors (recovery on): faulty lexemes next to the error, deleted / shifted by a repair
CORPUS_FAULTY_REC = [
    ("%start S\n%%\nS: Item Item Item;\nItem: 'ID' | 'NUM';\n",
     [[("ID", 0, 2), ("NUM", 3, 5, True)], [("NUM", 0, 2, True), ("ID", 3, 5), ("ID", 6, 8), ("NUM", 9, 11, True)],
      [("NUM", 1, 3, True)]]),
    ("%start S\n%%\nS: '(' L ')' ;\nL: L I | ;\nI: 'x' O;\nO: 'o' | ;\n",
     [[("(", 0, 1, True), ("x", 2, 3, True)], [("x", 2, 3, True), (")", 5, 6)], [("(", 1, 2), ("o", 3, 4, True), (")", 5, 6, True)],
      [("(", 0, 1), ("x", 1, 2, True), ("o", 2, 3), ("o", 4, 5, True), (")", 7, 8)]]),
]

# NON-UNIFORM TERM COSTS (RTParserBuilder::term_costs): (grammar, costs by token index [cycled], inputs).  The same cost function
# is given to the parse_actions builder and to the parse_map builder; the cheapest repair differs from the unit-cost one.
CORPUS_COSTS = [
    # tokens a b c d (indices in order of appearance): inserting/deleting 'c' is expensive -> "a d" is repaired by
    # [Insert b, Delete d] (cost 2), with unit costs by [Insert c] (cost 1)
    ("%start S\n%%\nS: 'a' 'b' | 'a' 'c' 'd';\n", [1, 1, 5, 1, 1],
     [[("a", 0, 1), ("d", 2, 3)], [("a", 0, 1)], [("a", 0, 1), ("c", 2, 3)], [("d", 0, 1)], [("a", 0, 1), ("b", 2, 3)]]),
    ("%start S\n%%\nS: 'a' 'b' | 'a' 'c' 'd';\n", [1, 255, 1, 3],
     [[("a", 0, 1), ("d", 2, 3)], [("a", 0, 1)], [("b", 1, 2)], [("d", 0, 1)], [("a", 0, 1), ("d", 2, 3), ("d", 4, 5)]]),
    ("%start S\n%%\nS: '(' L ')' ;\nL: L I | ;\nI: 'x' O;\nO: 'o' | ;\n", [4, 1, 2, 5],
     [[("(", 0, 1), ("x", 2, 3)], [("x", 2, 3), (")", 5, 6)], [("(", 1, 2), ("o", 3, 4), (")", 5, 6)],
      [("(", 0, 1), ("x", 1, 2), ("o", 2, 3), ("o", 4, 5), (")", 7, 8)]]),
    ("%start E\n%%\nE: E '+' T | T;\nT: 'n' | '(' E ')';\n", [5, 1, 2, 255, 1],
     [[("n", 0, 1), ("n", 2, 3)], [("(", 0, 1), ("n", 2, 3)], [("n", 0, 1), ("+", 2, 3), ("+", 4, 5), ("n", 6, 7)],
      [("n", 0, 1), (")", 2, 3)], [("+", 0, 1)]]),
]


def random_costs(rng, ntoks):
    """a non-uniform cost list (cycled over the token indices by the harness): mostly 1..5, some 255 / larger values"""
    ln = rng.choice([2, 3, 4, 5, 7, max(2, ntoks + 1)])
    while True:
        c = [rng.choice([1, 1, 2, 2, 3, 4, 5, 5, rng.randint(6, 40), 255]) for _ in range(ln)]
        if len(set(c)) > 1:
            return c


def mark_faulty(rng, inp):
    """mark some lexemes of a placed input as lexer-supplied faulty lexemes (only lexemes of non-zero length:
    a zero-length faulty lexeme is what the recoverer inserts).  -> (mode, input)"""
    n = len(inp)
    if n == 0:
        return "none", inp
    mode = rng.choice(["first", "last", "kth", "subset", "all", "ends"])
    if mode == "first":
        pick = {0}
    elif mode == "last":
        pick = {n - 1}
    elif mode == "ends":
        pick = {0, n - 1}
    elif mode == "kth":
        k, off = rng.randint(2, 3), rng.randint(0, 2)
        pick = set(i for i in range(n) if i % k == off % k)
    elif mode == "subset":
        pick = set(i for i in range(n) if rng.random() < 0.4) or {rng.randrange(n)}
    else:
        pick = set(range(n))
    return mode, [(l[0], l[1], l[2], True) if (i in pick and l[2] > l[1]) else l for i, l in enumerate(inp)]


# ---------------------------------------------------------------- generation
def eps_family(rng):
    """S with tokens and nullable rules in first / middle / last position; nested nullables"""
    toks = list("abcd"[:rng.randint(2, 4)])
    pool = []
    rules = []
    # epsilon-only rule, optional token, nested nullable, left-recursive list, unit to nullable
    rules.append(("E", [[]]))
    pool.append("E")
    if rng.random() < 0.8:
        t = rng.choice(toks + ["o"])
        rules.append(("O", [[('t', t)], []] if rng.random() < 0.5 else [[], [('t', t)]]))
        pool.append("O")
    if rng.random() < 0.6:
        rules.append(("N", [[('r', rng.choice(pool)) for _ in range(rng.randint(1, 3))]]))
        pool.append("N")
    if rng.random() < 0.5:
        t = rng.choice(toks + ["l"])
        rules.append(("L", [[('r', 'L'), ('t', t)], []] if rng.random() < 0.6 else [[], [('t', t), ('r', 'L')]]))
        pool.append("L")
    if rng.random() < 0.3:
        rules.append(("W", [[('r', rng.choice(pool))]]))
        pool.append("W")

    def body(lo, hi, allow_t=True):
        ln = rng.randint(lo, hi)
        b = []
        for _ in range(ln):
            c = rng.random()
            if c < 0.45:
                b.append(('t', rng.choice(toks)))
            elif c < 0.9 or not allow_t:
                b.append(('r', rng.choice(pool)))
            else:
                b.append(('r', 'T'))
        return b
    has_t = rng.random() < 0.7
    salts = [body(1, 5, has_t) for _ in range(rng.randint(1, 2))]
    if has_t and not any(('r', 'T') in a for a in salts):
        salts[0].insert(rng.randint(0, len(salts[0])), ('r', 'T'))
    rs = [("S", salts)]
    if has_t:
        talts = [body(1, 4, False) for _ in range(rng.randint(1, 2))]
        rs.append(("T", talts))
    used = set(x for _, ps in rs + rules for p in ps for k, x in p if k == 't')
    alltoks = [t for t in toks + ["o", "l"] if t in used] or toks[:1]
    g = G.Gram(alltoks, rs + rules)
    for n, ps in g.rules:
        uniq = []
        for p in ps:
            if p not in uniq:
                uniq.append(p)
        ps[:] = uniq
    return g


def place(rng, names):
    """byte spans with gaps (whitespace) for a token-name list"""
    pos = rng.choice([0, 0, 1, 3])
    out = []
    for n in names:
        ln = rng.randint(1, 3)
        out.append((n, pos, pos + ln))
        pos += ln + rng.choice([0, 0, 1, 1, 2, 4])
    return out


def usable(g):
    return all(not any(c in t for c in ";@ \t\n#") for t in g.tokens)


def gen_cases(ctx, n_grammars, n_inputs):
    rng = ctx.rng
    cases = []                                    # (src, rec, [inputs], term costs or None)
    for src, costs, inputs in CORPUS_COSTS:
        cases.append((src, 1, inputs, costs))
        cases.append((src, 1, inputs))
    for src, inputs in CORPUS_REC + CORPUS_FAULTY_REC:
        cases.append((src, 1, inputs, [1, 5, 2, 255, 3]))
        cases.append((src, 1, inputs, [3, 1]))
    for src, inputs in CORPUS:
        cases.append((src, 0, inputs))
        cases.append((src, 1, inputs))
    for src, inputs in CORPUS_REC:
        cases.append((src, 1, inputs))
        cases.append((src, 0, inputs))
    for src, inputs in CORPUS_FAULTY:
        cases.append((src, 0, inputs))
        cases.append((src, 1, inputs))
    for src, inputs in CORPUS_FAULTY_REC:
        cases.append((src, 1, inputs))
        cases.append((src, 0, inputs))
    # the corpus inputs again with every lexeme / the first / the last one faulty
    for src, inputs in CORPUS + CORPUS_REC:
        for pick in ("all", "first", "last"):
            marked = []
            for inp in inputs:
                n = len(inp)
                sel = set(range(n)) if pick == "all" else ({0} if pick == "first" else {n - 1})
                marked.append([(l[0], l[1], l[2], True) if (i in sel and l[2] > l[1]) else l for i, l in enumerate(inp)])
            cases.append((src, 0, marked))
            cases.append((src, 1, marked))
    fams = [("eps", lambda: eps_family(rng)),
            ("nullable", lambda: G.nullable_heavy(rng)),
            ("random", lambda: G.random_grammar(rng, empty_p=0.35)),
            ("reduced", lambda: G.reduced_random_grammar(rng, empty_p=0.3)),
            ("expr", lambda: G.expr_grammar(rng)),
            ("corpus", lambda: rng.choice(G.classic_corpus()))]
    weights = [9, 4, 2, 2, 1, 1]
    ng = 0
    while ng < n_grammars:
        name, f = rng.choices(fams, weights)[0]
        g = f()
        if g is None or not usable(g):
            continue
        if g.derives_cycle():
            ctx.count("skipped_cyclic")
            continue
        ng += 1
        ctx.count("family_" + name)
        alphabet = g.used_tokens() or g.tokens
        good, bad = [[]], []
        for _ in range(n_inputs):
            s = g.sentence(rng, budget=rng.randint(1, 6))
            if s is None:
                s = [rng.choice(alphabet) for _ in range(rng.randint(0, 5))]
            s = s[:24]
            good.append(s)
            bad.append(G.mutate(rng, s, alphabet, rng.randint(1, 2)))
        src = g.render()
        plain = [place(rng, s) for s in good + bad[:max(2, n_inputs // 3)]]
        recov = [place(rng, s) for s in bad + good[:max(2, n_inputs // 3)]]
        # lexer-supplied faulty lexemes: every third input of a case is run a second time with some of its lexemes marked
        # faulty (first / last / both ends / every k-th / a random subset / all).  The marks come from a generator of their
        # own (seeded from the case) so that the rest of the generated stream does not depend on them.
        frng = random.Random(zlib.crc32(src.encode()) ^ (ng * 2654435761 & 0xffffffff))
        # non-uniform term costs (the same function for parse_actions and parse_map) for half of the recovery cases, from a
        # generator of their own as well
        crng = random.Random(zlib.crc32(src.encode()) ^ (ng * 40503 & 0xffffffff) ^ 0x5bd1e995)
        costs = random_costs(crng, len(g.tokens)) if crng.random() < 0.5 else None
        for rec, inps in ((0, plain), (1, recov)):
            extra = []
            for k in range(frng.randrange(3), len(inps), 3):
                mode, m = mark_faulty(frng, inps[k])
                if mode != "none":
                    extra.append(m)
                    ctx.count("inputs_with_faulty_lexemes_" + mode)
            if rec and costs:
                ctx.count("recovery_cases_with_nonuniform_term_costs")
                cases.append((src, rec, inps + extra, costs))
            else:
                cases.append((src, rec, inps + extra))
    return cases


def lex_word(l):
    return "%s@%d-%d%s" % (l[0], l[1], l[2], "!" if len(l) > 3 and l[3] else "")


def case_line(src, rec, inputs, costs=None):
    return "O %s %d%s ; %s" % (src.encode().hex(), rec, (" costs=" + ",".join(str(c) for c in costs)) if costs else "",
                               " ; ".join(" ".join(lex_word(l) for l in inp) for inp in inputs))


# ---------------------------------------------------------------- parsing of result lines
class Parse:
    def __init__(self):
        self.lexemes = []        # (tok, s, e)
        self.faulty = []         # per lexeme: handed over by the lexer as a faulty lexeme (FM section; absent = none)
        self.oa = None
        self.log = []            # raw strings of L sections after the tag
        self.ea = []             # raw
        self.ra = []             # per EA: sorted list of ALL repair sequences of that error | None (none / too many)
        self.rg = []             # per EG: the same for the generic mode
        self.ta = None
        self.og = None
        self.eg = []
        self.tg = None


def split_impl(line):
    secs = [s.split() for s in line.split(" # ")]
    parses, cur = [], None
    for s in secs:
        if not s:
            continue
        t = s[0]
        if t == "IN":
            cur = Parse()
            v = [int(x) for x in s[1:]]
            cur.lexemes = [tuple(v[i:i + 3]) for i in range(0, len(v), 3)]
            cur.faulty = [0] * len(cur.lexemes)
            parses.append(cur)
        elif cur is None:
            continue
        elif t == "FM":
            cur.faulty = [int(c) for c in s[1]] if len(s) > 1 else cur.faulty
        elif t == "OA":
            cur.oa = " ".join(s[1:])
        elif t == "L":
            cur.log.append(" ".join(s[1:]))
        elif t == "EA":
            cur.ea.append(" ".join(s[1:]))
            cur.ra.append(None)
        elif t == "RA" and cur.ra:
            cur.ra[-1] = None if s[1:2] == ["*"] else sorted(s[1].split("|"))
        elif t == "RG" and cur.rg:
            cur.rg[-1] = None if s[1:2] == ["*"] else sorted(s[1].split("|"))
        elif t == "TA":
            cur.ta = " ".join(s[1:])
        elif t == "OG":
            cur.og = " ".join(s[1:])
        elif t == "EG":
            cur.eg.append(" ".join(s[1:]))
            cur.rg.append(None)
        elif t == "TG":
            cur.tg = " ".join(s[1:])
    return secs, parses


def split_model(line):
    out, cur = [], None
    verdict = {}
    for s in [x.split() for x in line.split(" # ")]:
        if not s:
            continue
        t = s[0]
        if t == "V":
            for kv in s[1:]:
                k, v = kv.split("=")
                verdict[k] = v == "1"
        elif t == "IN":
            cur = {"OA": None, "L": [], "EA": [], "FOA": None, "FL": [], "FEA": []}
            out.append(cur)
        elif cur is not None and t in ("OA", "FOA"):
            cur[t] = " ".join(s[1:])
        elif cur is not None and t in ("L", "EA", "FL", "FEA"):
            cur[t].append(" ".join(s[1:]))
    return verdict, out


# ---------------------------------------------------------------- the direct oracle
def oracle(prods, p, rec):
    """recompute from the implementation's own log and tree what C08 demands.
    returns (list of (class, detail)), facts.  class in {'empty','lead'} = known span classes,
    anything else = alarm."""
    probs = []
    calls = []
    for raw in p.log:
        w = raw.split()
        k, pidx, ridx, s, e = (int(x) for x in w[:5])
        args = []
        for a in w[6:]:
            f = a.split(":")
            args.append(("l", int(f[1]), int(f[2]), int(f[3]), int(f[4])) if f[0] == "l" else ("v", int(f[1])))
        calls.append({"k": k, "pidx": pidx, "ridx": ridx, "span": (s, e), "param": w[5], "args": args})
    n = len(calls)
    used = {}
    size = [0] * n            # calls in the subtree
    leaves = [None] * n       # lexemes under the call
    lead = [False] * n         # begins with a subtree deriving no lexeme (recursively through first children)
    tree_s = [None] * n
    for k, c in enumerate(calls):
        if c["k"] != k:
            probs.append(("log", "call numbers are not 0..n-1"))
            return probs, {}
        if c["param"] != MAGIC:
            probs.append(("param", "call %d received parameter %s" % (k, c["param"])))
        if not (0 <= c["pidx"] < len(prods)):
            probs.append(("pidx", "call %d: production %d out of range" % (k, c["pidx"])))
            return probs, {}
        lhs, rhs = prods[c["pidx"]]
        if c["ridx"] != lhs:
            probs.append(("ridx", "call %d: rule %d passed for production %d of rule %d" % (k, c["ridx"], c["pidx"], lhs)))
        kinds = []
        lv = []
        sz = 1
        nxt = k            # children blocks must tile [k - size + 1, k) from the right
        order_ok = True
        ts = []
        for a in c["args"]:
            if a[0] == "l":
                kinds.append(2 * a[1])
                lv.append(a[1:])
                ts.append("[%d %d %d %d]" % a[1:])
            else:
                j = a[1]
                if not (0 <= j < k):
                    probs.append(("args", "call %d has the value of call %d as argument" % (k, j)))
                    return probs, {}
                if j in used:
                    probs.append(("args", "value of call %d passed twice (calls %d and %d)" % (j, used[j], k)))
                used[j] = k
                kinds.append(2 * calls[j]["ridx"] + 1)
                lv.extend(leaves[j])
                sz += size[j]
                ts.append(tree_s[j])
        if kinds != rhs:
            probs.append(("args", "call %d for production %d %s received argument kinds %s" % (k, c["pidx"], rhs, kinds)))
        # post-order: the children's calls are the contiguous blocks right before k, left to right
        blk = k
        for a in reversed(c["args"]):
            if a[0] == "v":
                j = a[1]
                if j != blk - 1:
                    order_ok = False
                blk = j - size[j] + 1
        if not order_ok:
            probs.append(("order", "call %d: children were not built bottom-up left-to-right right before it" % k))
        size[k], leaves[k] = sz, lv
        tree_s[k] = "(%d%s)" % (c["ridx"], "".join(" " + x for x in ts))
        a0 = c["args"][0] if c["args"] else None
        lead[k] = a0 is not None and a0[0] == "v" and (not leaves[a0[1]] or lead[a0[1]])
        # ---- the span
        s, e = c["span"]
        if not lv:
            if s != e:
                probs.append(("empty", "call %d (production %d) derived no lexeme but got span (%d,%d)" % (k, c["pidx"], s, e)))
        else:
            es, ee = lv[0][1], lv[-1][2]
            if (s, e) != (es, ee):
                if e == ee and lead[k] and s == calls[c["args"][0][1]]["span"][0]:
                    probs.append(("lead", "call %d (production %d) derived lexemes %d..%d but got span (%d,%d)"
                                  % (k, c["pidx"], es, ee, s, e)))
                else:
                    probs.append(("hull", "call %d (production %d) derived lexemes spanning (%d,%d) but got span (%d,%d)"
                                  % (k, c["pidx"], es, ee, s, e)))
    facts = {"calls": n, "empty_calls": sum(1 for k in range(n) if not leaves[k]), "accepted": False}
    acc = p.oa is not None and p.oa.startswith("acc ")
    if acc:
        facts["accepted"] = True
        root = int(p.oa.split()[1])
        if not (0 <= root < n):
            probs.append(("value", "returned value %d is not a call" % root))
            return probs, facts
        if size[root] != n or root != n - 1:
            probs.append(("once", "returned tree has %d nodes, %d calls were made (root call %d)" % (size[root], n, root)))
        if p.ta != tree_s[root]:
            probs.append(("tree", "tree built by the actions %s is not the tree of the log %s" % (p.ta, tree_s[root])))
        lv = leaves[root]
        # the input as the lexer handed it over: (tok, s, e, faulty) — a LEXER-SUPPLIED faulty lexeme (non-zero length in every
        # generated input) is an input lexeme like any other; the lexemes the recoverer inserts are faulty AND zero-length
        given = [l + (f,) for l, f in zip(p.lexemes, p.faulty)]
        inserted = [x for x in lv if x[3] and x[1] == x[2] and x not in given]
        real = [x for x in lv if not (x[3] and x[1] == x[2] and x not in given)]
        if not rec:
            if real != given or inserted:
                probs.append(("leaves", "leaves %s are not the input %s" % (lv, given)))
        else:
            it = iter(given)
            if not all(any(x == y for y in it) for x in real):
                if any(f and s != e and (t, s, e, f) not in given for (t, s, e, f) in lv):
                    probs.append(("leaves", "a faulty lexeme that is not an input lexeme is not zero-length"))
                probs.append(("leaves", "leaves %s (without the inserted ones) are not a subsequence of the input %s" % (real, given)))
            # (a Shift/Insert of the applied sequence that meets an Error cell is silently skipped by lr_upto —
            #  C05's subject — so the repairs only bound the number of inserted leaves)
            ins = sum(1 for r in p.ea for w in r.split()[3:] if w.startswith("I"))
            if len(inserted) > ins:
                probs.append(("leaves", "leaves %s contain more inserted (faulty, zero-length) lexemes than the %d Inserts of the "
                                        "applied repairs" % (lv, ins)))
    elif p.oa is not None and p.oa.startswith("none") and not p.ea:
        probs.append(("errors", "no value and no error"))
    # ---- generic tree mode: same verdict and tree when the same repairs were applied
    if p.og is not None and not p.og.startswith("panic") and p.oa is not None and not p.oa.startswith("panic"):
        if p.ea == p.eg:
            if (p.ta or "-") != (p.tg or "-"):
                probs.append(("generic", "actions-built tree %s differs from generic tree %s" % (p.ta, p.tg)))
            if acc != p.og.startswith("acc"):
                probs.append(("generic", "actions mode %s, generic mode %s" % (p.oa, p.og)))
        else:
            # Different repairs were APPLIED (repairs()[0]: the order of an error's repair sequences is hash order).  Up to the
            # first error whose applied sequence differs both parsers are in the same configuration (same lexemes, same stack),
            # and they were given the same recoverer and the same term costs: they must OFFER the same set of sequences there.
            for i, (a, b) in enumerate(zip(p.ea, p.eg)):
                wa, wb = a.split(), b.split()
                if wa[:2] != wb[:2]:
                    break
                sa, sb = p.ra[i], p.rg[i]
                if sa is not None and sb is not None and sa != sb:
                    facts["repair_sets_differ"] = True
                    if (p.ta or "-") != (p.tg or "-") or acc != p.og.startswith("acc"):
                        probs.append(("generic", "actions-built tree %s differs from generic tree %s, and not because of an arbitrary choice "
                                                 "among equally ranked repairs: at error %d (lexeme %s, state %s; same repairs applied before) "
                                                 "parse_actions offers the repair sequences {%s}, parse_map {%s} (same builder settings)"
                                      % (p.ta, p.tg, i, wa[0], wa[1], " | ".join(sa), " | ".join(sb))))
                    else:
                        probs.append(("generic-repairs-noinput", "at error %d parse_actions offers {%s}, parse_map {%s}; the trees are equal"
                                      % (i, " | ".join(sa), " | ".join(sb))))
                    break
                if sa is None or sb is None:
                    facts["repair_sets_not_compared"] = True
                if wa[3:] != wb[3:]:
                    facts["different_choice_same_offer"] = sa is not None and sb is not None
                    break
    if (p.oa or "").startswith("panic") or (p.og or "").startswith("panic"):
        probs.append(("panic", "parse_actions: %s / parse_map: %s" % (p.oa, p.og)))
    return probs, facts


# ---------------------------------------------------------------- the check
def run(ctx):
    ctx.gate = core.proof_gate("C08")
    for _ in ctx.gate["theorems"]:
        ctx.oblige(True)
    exe = core.build_harness("c08")
    mexe = core.build_model("c08")
    cases = gen_cases(ctx, ctx.n(300, 3000), ctx.n(10, 16))
    lines = [case_line(*c) for c in cases]
    # the hook GRMTOOLS_VERIF_RECOVERY_BUDGET_MS (cfg grmtools_verif) bounds the time CPCT+ may spend per parse:
    # on ambiguous grammars a parse can otherwise repair thousands of errors until the 500 ms run out
    env = {"GVH_CASE_TIMEOUT_MS": "30000", "GRMTOOLS_VERIF_RECOVERY_BUDGET_MS": "60"}
    impl = core.run_lines([exe], lines, env=env)
    # a HANG/CRASH loses the whole case: redo it input by input
    for i, out in enumerate(impl):
        if out.startswith("HANG") or out.startswith("CRASH"):
            src, rec, inputs = cases[i][:3]
            costs = cases[i][3] if len(cases[i]) > 3 else None
            sub = [case_line(src, rec, [], costs)] + [case_line(src, rec, [inp], costs) for inp in inputs]
            outs = core.run_lines([exe], sub, env=dict(env, GVH_CASE_TIMEOUT_MS="3000"))
            if not outs[0].startswith("G "):
                continue
            st = outs[0]
            for o in outs[1:]:
                if o.startswith("G "):
                    k = o.find(" # IN")
                    if k >= 0:
                        st += o[k:]
                else:
                    ctx.count("input_hang_or_crash")
            impl[i] = st
    model = core.run_lines([mexe], impl)
    matched_cur = matched_fix = 0
    only_cur_example = only_fix_example = None
    known_seen = {"empty": 0, "lead": 0}
    for cs, il, ml in zip(cases, impl, model):
        src, rec, inputs = cs[:3]
        costs = cs[3] if len(cs) > 3 else None
        if not il.startswith("G "):
            ctx.count("grammar_rejected_" + il.split()[0])
            if il.startswith("BUILDPANIC"):
                ctx.violation({"what": "table construction panicked", "grammar": src, "impl": il})
            continue
        secs, parses = split_impl(il)
        tc = [int(x) for sct in secs if sct and sct[0] == "TC" for x in sct[1:]]
        if costs and not tc:
            ctx.violation({"what": "harness did not report the term costs it was given", "grammar": src}, no_input=True)
        prods = [(int(s[1]), [int(x) for x in s[2:]]) for s in secs if s and s[0] == "P"]
        verdict, mparses = split_model(ml)
        ok_case = True
        if not (verdict.get("wf") and verdict.get("S")):
            ctx.violation({"what": "the validators reject the implementation's table: the C08 theorems over validated tables do not apply",
                           "grammar": src, "validators": verdict}, no_input=True)
            ok_case = False
        if len(mparses) != len(parses):
            ctx.violation({"what": "model runner produced %d results for %d parses" % (len(mparses), len(parses)),
                           "grammar": src, "model": ml[:300]}, no_input=True)
            ctx.oblige(False)
            continue
        nontriv = False
        n_acc = 0
        for p, m in zip(parses, mparses):
            ctx.coverage["parses"] = ctx.coverage.get("parses", 0) + 1
            probs, facts = oracle(prods, p, rec)
            inp = " ".join("%d@%d-%d" % l + ("!" if f else "") for l, f in zip(p.lexemes, p.faulty))
            if any(p.faulty):
                ctx.count("parses_with_lexer_supplied_faulty_lexemes")
            replay = {"grammar": src, "recovery": bool(rec), "input_tidx@span": inp, "impl_outcome": p.oa, "impl_log": p.log,
                      "impl_errors": p.ea, "impl_tree": p.ta, "generic_tree": p.tg}
            if costs:
                replay["term_costs_by_token_index"] = tc
                replay["generic_errors"] = p.eg
                replay["builder"] = ("RTParserBuilder::new(..).recoverer(CPCTPlus).term_costs(f) with f(tidx) = term_costs_by_token_index[tidx], "
                                     "for parse_actions and for parse_map alike")
            for cls, detail in [x for x in probs if x[0] == "generic-repairs-noinput"]:
                ctx.violation(dict(replay, what=detail, broken_correspondence="parse_actions and parse_map run the same recoverer with the "
                                                                              "same settings"), no_input=True)
                ok_case = False
            probs = [x for x in probs if x[0] != "generic-repairs-noinput"]
            if rec and p.ea and p.eg:
                tag = "_costs" if costs else "_unit"
                if p.ea == p.eg:
                    ctx.count("rec_same_applied_repairs_trees_compared" + tag)
                elif facts.get("different_choice_same_offer"):
                    ctx.count("rec_different_choice_among_same_offered_set" + tag)
                elif facts.get("repair_sets_differ"):
                    ctx.count("rec_offered_sets_differ" + tag)
                else:
                    ctx.count("rec_applied_differ_not_comparable" + tag)
            unknown = [x for x in probs if x[0] not in ("empty", "lead")]
            known = [x for x in probs if x[0] in ("empty", "lead")]
            # ---- correspondence with the mirrors
            iea = [" ".join(r.split()[:2]) for r in p.ea]
            same_cur = (p.oa == m["OA"] and p.log == m["L"] and iea == m["EA"])
            same_fix = (p.oa == m["FOA"] and p.log == m["FL"] and iea == m["FEA"])
            if m["OA"] == "fuel" or m["FOA"] == "fuel":
                ctx.count("model_out_of_fuel")
                same_cur = same_fix = True if not unknown else False
            if same_fix and not same_cur:
                matched_fix += 1
                only_fix_example = only_fix_example or replay
            elif same_cur:
                matched_cur += 1
                if not same_fix and known and only_cur_example is None:
                    only_cur_example = dict(replay, what=known[0][1])
            if same_fix and not same_cur and known:
                # the repaired mirror is proved to satisfy the hull spec: the oracle must agree
                unknown = unknown + known
                known = []
            for cls, detail in unknown[:2]:
                ctx.violation(dict(replay, what=detail, violated=cls))
            for cls, detail in known:
                known_seen[cls] += 1
                ctx.violation(dict(replay, what=detail, violated="span"), known_key=KEY_EMPTY if cls == "empty" else KEY_LEAD)
            if not (same_cur or same_fix):
                ctx.count("mirror_mismatch")
                if not unknown:
                    ctx.violation(dict(replay, what="the implementation's action log matches neither the mirror of today's code nor "
                                                    "the mirror of the repaired code; the direct oracle found no new property violation",
                                       mirror_today={"outcome": m["OA"], "log": m["L"], "errors": m["EA"]},
                                       mirror_repaired={"outcome": m["FOA"], "log": m["FL"]},
                                       broken_correspondence="C08.Model.run_actions_rec / run_actions_fixed_rec vs RTParserBuilder::parse_actions"),
                                  no_input=True)
            if unknown or not (same_cur or same_fix):
                ok_case = False
            if facts.get("accepted"):
                n_acc += 1
                if facts.get("empty_calls", 0) > 0:
                    nontriv = True
            ctx.count("rec_%d_%s" % (rec, "accepted" if facts.get("accepted") else "no_value"))
            if rec and p.ea:
                ctx.count("parses_with_applied_repairs")
        ctx.oblige(ok_case)
        ctx.case("%d %s%s" % (rec, src, (" costs " + ",".join(map(str, costs))) if costs else ""), nontriv,
                 {"grammar": src, "recovery": bool(rec), "term_costs": costs, "parses": len(parses), "accepted": n_acc,
                  "first_input": " ".join("%d@%d-%d" % l + ("!" if f else "")
                                          for l, f in zip(parses[0].lexemes, parses[0].faulty)) if parses else "",
                  "first_log": parses[0].log if parses else []})
    if only_cur_example and only_fix_example:
        # e.g. the repair applied to Parser::lr but not to its copy in lr_upto (or vice versa)
        ctx.violation(dict(only_cur_example, violated="span",
                           note="some parses follow the repaired span computation, this one still today's: the two copies of the "
                                "reduce code (Parser::lr, Parser::lr_upto) have drifted apart",
                           a_parse_following_the_repaired_code=only_fix_example))
        ctx.oblige(False)
    ctx.coverage["impl_matches_mirror_of_todays_code"] = matched_cur
    ctx.coverage["impl_matches_only_mirror_of_repaired_code"] = matched_fix
    ctx.coverage["known_span_defect_instances"] = known_seen
    ctx.coverage["rule"] = ("grammars: template family with epsilon-only / optional / nested-nullable / list rules in first, middle and last "
                            "position of S and of an inner rule T, nullable-heavy, random (35% empty alternatives), reduced random, "
                            "expression grammars, classic corpus, plus a fixed corpus with the DESIGN witnesses; inputs: the empty input, "
                            "sentences by random derivation, 1-2 token edits of them; every lexeme gets a byte span with random gaps; every third "
                            "input of a case is run a second time with some lexemes handed over by the lexer as FAULTY lexemes "
                            "(Lexeme::new_faulty, non-zero length; written tok@s-e! in replays): the first / the last / both ends / every "
                            "k-th / a random subset / all of them, and the fixed corpus is repeated with all / the first / the last lexeme "
                            "faulty, for plain and for recovery parses (a faulty input lexeme is a lexeme: expected log unchanged but for "
                            "the flag in the lexeme arguments); the harness lexer is single-shot (a second Lexer::iter call panics); each "
                            "grammar is run with recovery off and with CPCT+ (the mirror replays the repair sequence the implementation "
                            "reports as applied, hence needs no costs); half of the generated recovery cases (and a fixed corpus) give "
                            "BOTH builders (parse_actions, parse_map) a NON-UNIFORM term_costs function (a list of 2..ntokens+1 costs cycled "
                            "over the token indices, values 1..5 mostly, some 6..40 and 255); actions tree = generic tree is demanded when "
                            "the same repairs were applied, and when they were not (repairs()[0] is an arbitrary member of the offered set) "
                            "the SETS of repair sequences offered at the first error with a different choice must be equal. "
                            "case = (grammar, recovery flag, costs); non-trivial = at least one accepted parse in which some "
                            "action call derives no lexeme; distinct by grammar text + flag")
    ctx.assumptions += [
        "actions are modelled freely (call k returns the value k and is logged); any concrete action family is a fold over the log",
        "the recoverer's search is not modelled here (C05-C07): with recovery the mirror replays the repair sequence the implementation "
        "reports as applied (repairs()[0] of each error)",
        "theorems about the whole tree (every call is in the returned tree, leaves = input, argument kinds = production symbols, generic "
        "tree equality) are for recovery off on a table passing validS; with recovery the proved part is: the returned tree's calls are "
        "contiguous from 0 in post-order, each well-formed, and (repaired code) each span is the hull",
        "a zero-length span's position is not constrained by the property; the repaired code (and its theorem) puts it at the end of the "
        "last lexeme parsed before the production (0 at the beginning of the input), as bison's default location does",
        "inserted (faulty, zero-length) lexemes count as lexemes of the production that derives them",
        "a lexeme the LEXER hands over as faulty (Lexeme::new_faulty, public API) is an input lexeme like any other: it counts as derived by "
        "its production and bounds the span; generated faulty input lexemes have non-zero length so that the leaves oracle can tell them "
        "from the zero-length lexemes the recoverer inserts",
        "the set of repair sequences offered for an error is a function of the parser configuration, the recoverer and the term costs (only "
        "their ORDER is arbitrary: HashSet drain in simplify_repairs); a search cut short by the time budget offers nothing and is not compared; "
        "sets of more than 64 sequences are not compared",
        "lexemes come from a replaying lexer with explicit byte spans (start <= end, increasing); lrlex is not involved",
    ]
