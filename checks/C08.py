"""C08 — actions run once per reduction, bottom-up left-to-right, with the child
values and the matched span; the actions-built tree equals the generic tree.

Proof (theories/C08): mirror of Parser::lr / lr_upto / apply_repairs with the value
stack, the span stack and an action log.  For TODAY's code: the log is the post-order
traversal of the returned tree with one well-formed call per node
(action_log_is_postorder, replay_calls_wellformed), the tree equals the generic
tree (actions_tree_equals_generic), the duplicated reduce code of lr_upto computes what
lr's computes (replay_mirror_same_step) — and span_is_yield_hull is REFUTED
(span_is_yield_hull_refuted: `S: 'a' E 'b'; E: ;` on "a   b" hands E the span (0,1)).
For the REPAIRED span computation (run_actions_fixed): the same theorems plus
span_is_yield_hull / replay_span_is_yield_hull (with recovery, any table).

Tie: parse_actions with one recording closure per production against the mirrors on
the implementation's own tables, lexemes with byte gaps; with recovery the mirror
replays the repair sequence the implementation reports as applied (so the mirror needs
no term costs); a share of the recovery cases sets non-uniform RTParserBuilder::term_costs
on both the parse_actions and the parse_map builder.  The implementation
has to match the mirror of today's code or the mirror of the repaired code.

Determinism of the applied repair (/repo ca69cd1, REPAIR_ORDER_FIXED): the two modes run the same Parser::lr with the
same recoverer; theories/C08/Det*.v: given ONE recoverer function (lexemes, laidx, parse stack) -> applied sequence the
generic-mode mirror returns exactly the erased tree, errors and applied sequences of the action-mode mirror, on every
grammar, table and input (actions_equal_generic_same_recoverer), and two recoverers that differ at one tied
configuration give different trees (actions_differ_generic_if_recoverer_differs_refuted: the pinned defect, where
repairs()[0] was drawn in hash order per parse).  The check demands the function: for EVERY erroneous input
parse_actions and parse_map must report the same errors with the same ORDERED repairs() lists and return the same
tree, and DET_ROUNDS further runs of each mode in the same process must reproduce the first run.  The generic-mode
mirror (run_generic_fixed_f) is tied to parse_map like the action-mode mirrors are to parse_actions.

Failing-input search (independent of the mirrors): from the implementation's own log
and returned tree recompute post-order, arguments, production symbols, parameter,
leaves, and the hull span of every call.
"""
import os
import random
import zlib
from vlib import core
from gen import grammars as G

MAGIC = "77"

# /repo ca69cd1: simplify_repairs deduplicates in insertion order and sorts stably, so repairs()[0] — the sequence that is
# replayed onto the value stack — is a function of grammar, table, costs and input.  True: any difference between
# parse_actions and parse_map (or between two runs of one mode) in the reported errors, the ORDER of a repairs() list or the
# tree is a violation.  False (the code before the fix): equally ranked sequences may come in any order, only the SETS offered
# are compared and the trees only when the same sequences were applied.
REPAIR_ORDER_FIXED = True
if core.SCRATCH and os.environ.get("GV_C08_REPAIR_ORDER_FIXED") in ("0", "1"):      # mutation-testing aid only
    REPAIR_ORDER_FIXED = os.environ["GV_C08_REPAIR_ORDER_FIXED"] == "1"
DET_ROUNDS = 4            # further runs of EACH mode per erroneous input, alternating, in one process

KEY_EMPTY = ("span of a production deriving no lexeme is copied from the previous stack entry "
             "instead of being zero-length")
KEY_LEAD = ("span of a production that begins with a subtree deriving no lexeme starts where that subtree's "
            "span starts (previous stack entry, or 0) instead of at its first lexeme")

KEY_ORDER = ("the repair sequence applied after an error (repairs()[0]) is picked in hash order among the equally ranked ones: "
             "parse_actions and parse_map, or two runs of one mode, return different trees for the same input")

CORPUS = [
    # the witnesses of DESIGN §9 (text positions given explicitly)
    ("%start S\n%%\nS: 'a' E 'b';\nE: ;\n", [[("a", 0, 1), ("b", 4, 5)]]),
    ("%start S\n%%\nS: T;\nT: E 'b';\nE: ;\n", [[("b", 4, 5)]]),
    ("%start S\n%%\nS: E 'a';\nE: ;\n", [[("a", 3, 4)]]),
    # empty in first / middle / last position, nested nullable, epsilon-only input
    ("%start S\n%%\nS: E 'a' E 'b' E;\nE: ;\n", [[("a", 2, 3), ("b", 6, 8)]]),
    ("%start S\n%%\nS: N 'a' N;\nN: E F;\nE: ;\nF: 'f' | ;\n",
     [[("a", 1, 2)], [("f", 1, 2), ("a", 4, 5), ("f", 9, 10)], [("a", 0, 1), ("f", 1, 2)]]),
    ("%start S\n%%\nS: L;\nL: L 'x' | ;\n", [[], [("x", 2, 3)], [("x", 2, 3), ("x", 5, 7), ("x", 7, 8)]]),
    ("%start S\n%%\nS: A B;\nA: ;\nB: ;\n", [[]]),
    ("%start S\n%%\nS: 'a' T 'c';\nT: E E 'b' E | E;\nE: ;\n",
     [[("a", 0, 1), ("b", 3, 4), ("c", 6, 7)], [("a", 2, 3), ("c", 6, 7)]]),
]

# inputs with errors around empty productions (recovery on)
CORPUS_REC = [
    ("%start S\n%%\nS: A 'b' 'c';\nA: 'a' E;\nE: ;\n",
     [[("b", 2, 3), ("c", 5, 6)], [("a", 0, 1), ("a", 2, 3), ("b", 4, 5), ("c", 6, 7)], [("a", 0, 1), ("c", 6, 7)],
      [("a", 1, 2), ("b", 4, 5)]]),
    ("%start S\n%%\nS: E 'a' E 'b' E;\nE: ;\n", [[("b", 3, 4)], [("a", 2, 3)], [("a", 1, 2), ("a", 3, 4), ("b", 6, 7)]]),
    ("%start S\n%%\nS: '(' L ')' ;\nL: L I | ;\nI: 'x' O;\nO: 'o' | ;\n",
     [[("(", 0, 1), ("x", 2, 3)], [("x", 2, 3), (")", 5, 6)], [("(", 1, 2), ("o", 3, 4), (")", 5, 6)],
      [("(", 0, 1), ("x", 1, 2), ("o", 2, 3), ("o", 4, 5), (")", 7, 8)]]),
]


# LEXER-SUPPLIED faulty lexemes (Lexeme::new_faulty is public API: a lexer with its own error handling may produce them):
# a 4th field True marks the lexeme faulty.  A faulty input lexeme of non-zero length is still a lexeme the production derived.
CORPUS_FAULTY = [
    ("%start S\n%%\nS: Item Item Item;\nItem: 'ID' | 'NUM';\n",
     [[("ID", 0, 2), ("NUM", 3, 5, True), ("ID", 6, 8)], [("NUM", 0, 2, True), ("ID", 3, 5), ("ID", 6, 8)],
      [("ID", 1, 2), ("ID", 3, 5), ("NUM", 6, 8, True)], [("NUM", 1, 2, True), ("NUM", 3, 5, True), ("NUM", 6, 8, True)]]),
    ("%start S\n%%\nS: 'a' E T E 'c';\nT: 'b' | T 'b';\nE: ;\n",
     [[("a", 0, 1), ("b", 2, 3, True), ("c", 5, 6)], [("a", 0, 1, True), ("b", 2, 3), ("b", 4, 6, True), ("c", 7, 8, True)],
      [("a", 0, 1), ("b", 2, 3, True), ("b", 4, 6), ("b", 8, 9, True), ("c", 10, 11)]]),
    ("%start S\n%%\nS: L;\nL: L I | ;\nI: 'x' O;\nO: 'o' | ;\n",
     [[("x", 1, 2, True)], [("x", 1, 2), ("o", 2, 3, True), ("x", 5, 6, True), ("x", 7, 8)], [("x", 0, 1, True), ("o", 3, 4, True)]]),
]

# the same with errors (recovery on): faulty lexemes next to the error, deleted / shifted by a repair
CORPUS_FAULTY_REC = [
    ("%start S\n%%\nS: Item Item Item;\nItem: 'ID' | 'NUM';\n",
     [[("ID", 0, 2), ("NUM", 3, 5, True)], [("NUM", 0, 2, True), ("ID", 3, 5), ("ID", 6, 8), ("NUM", 9, 11, True)],
      [("NUM", 1, 3, True)]]),
    ("%start S\n%%\nS: '(' L ')' ;\nL: L I | ;\nI: 'x' O;\nO: 'o' | ;\n",
     [[("(", 0, 1, True), ("x", 2, 3, True)], [("x", 2, 3, True), (")", 5, 6)], [("(", 1, 2), ("o", 3, 4, True), (")", 5, 6, True)],
      [("(", 0, 1), ("x", 1, 2, True), ("o", 2, 3), ("o", 4, 5, True), (")", 7, 8)]]),
]

# NON-UNIFORM TERM COSTS (RTParserBuilder::term_costs): (grammar, costs by token index [cycled], inputs).  The same cost function
# is given to the parse_actions builder and to the parse_map builder; the cheapest repair differs from the unit-cost one.
CORPUS_COSTS = [
    # tokens a b c d (indices in order of appearance): inserting/deleting 'c' is expensive -> "a d" is repaired by
    # [Insert b, Delete d] (cost 2), with unit costs by [Insert c] (cost 1)
    ("%start S\n%%\nS: 'a' 'b' | 'a' 'c' 'd';\n", [1, 1, 5, 1, 1],
     [[("a", 0, 1), ("d", 2, 3)], [("a", 0, 1)], [("a", 0, 1), ("c", 2, 3)], [("d", 0, 1)], [("a", 0, 1), ("b", 2, 3)]]),
    ("%start S\n%%\nS: 'a' 'b' | 'a' 'c' 'd';\n", [1, 255, 1, 3],
     [[("a", 0, 1), ("d", 2, 3)], [("a", 0, 1)], [("b", 1, 2)], [("d", 0, 1)], [("a", 0, 1), ("d", 2, 3), ("d", 4, 5)]]),
    ("%start S\n%%\nS: '(' L ')' ;\nL: L I | ;\nI: 'x' O;\nO: 'o' | ;\n", [4, 1, 2, 5],
     [[("(", 0, 1), ("x", 2, 3)], [("x", 2, 3), (")", 5, 6)], [("(", 1, 2), ("o", 3, 4), (")", 5, 6)],
      [("(", 0, 1), ("x", 1, 2), ("o", 2, 3), ("o", 4, 5), (")", 7, 8)]]),
    ("%start E\n%%\nE: E '+' T | T;\nT: 'n' | '(' E ')';\n", [5, 1, 2, 255, 1],
     [[("n", 0, 1), ("n", 2, 3)], [("(", 0, 1), ("n", 2, 3)], [("n", 0, 1), ("+", 2, 3), ("+", 4, 5), ("n", 6, 7)],
      [("n", 0, 1), (")", 2, 3)], [("+", 0, 1)]]),
]


# EQUALLY RANKED REPAIRS (recovery on): the error has two or more repair sequences of the first rank (same %avoid_insert class,
# same length), so that repairs()[0] — the one replayed onto the value stack, hence the tree — is picked among equals.  The first
# entry is the grammar of the audit that found the defect fixed by /repo ca69cd1 (`a c`: B(b) in one mode, B(d) in the other).
CORPUS_TIES = [
    ("%start S\n%%\nS: 'a' B 'c';\nB: 'b' | 'd';\n",
     [[("a", 0, 1), ("c", 2, 3)], [("a", 0, 1)], [("c", 0, 1)], [], [("a", 0, 1), ("c", 2, 3), ("c", 4, 5)]]),
    ("%start S\n%%\nS: 'a' B 'c';\nB: 'b0' | 'b1' | 'b2' | 'b3' | 'b4' | 'b5';\n",
     [[("a", 0, 1), ("c", 2, 3)], [("a", 1, 2)], [("c", 3, 4)], [("a", 0, 1), ("a", 2, 3), ("c", 4, 5)]]),
    ("%start S\n%avoid_insert 'b0' 'b1'\n%%\nS: 'a' B 'c';\nB: 'b0' | 'b1' | 'b2' | 'b3';\n",
     [[("a", 0, 1), ("c", 2, 3)], [("a", 0, 1)], [("c", 2, 3)]]),
    ("%start S\n%avoid_insert 'b0' 'b1'\n%%\nS: 'a' B 'c';\nB: 'b0' | 'b1';\n",
     [[("a", 0, 1), ("c", 2, 3)], [("a", 0, 1)], [("c", 2, 3)]]),
    ("%start S\n%%\nS: L;\nL: L I | ;\nI: '(' X ')' | '[' X ')' | '{' X ')';\nX: 'x' | 'y' | I;\n",
     [[("x", 0, 1), (")", 2, 3)], [("(", 0, 1), (")", 2, 3)], [("[", 0, 1), ("x", 1, 2), (")", 2, 3), ("y", 4, 5), (")", 6, 7)],
      [("(", 0, 1), ("{", 2, 3), (")", 4, 5), (")", 6, 7)], [(")", 0, 1)]]),
]


def tie_family(rng):
    """-> (kind, yacc source, token-name sentences with an error whose repair is a choice among equals)"""
    kind = rng.choice(["alt", "alt", "alt2", "list", "open", "open", "avoid", "avoid"])
    if kind in ("alt", "alt2", "list", "avoid"):
        k = rng.randint(2, 6)
        bs = ["b%d" % i for i in range(k)]
        head = "%start S\n"
        if kind == "avoid":
            # a pair (or more) of avoided alternatives: the tie is among the others, or among the avoided ones when all are
            na = rng.choice([2, 2, k, max(2, k - 2)])
            av = rng.sample(bs, min(na, k))
            head += "%%avoid_insert %s\n" % " ".join("'%s'" % b for b in av)
        alts = " | ".join("'%s'" % b for b in bs)
        if kind == "alt2":
            body = "S: 'a' B 'c' B 'e';\nB: %s;\n" % alts
            good = ["a", bs[0], "c", bs[-1], "e"]
        elif kind == "list":
            body = "S: 'a' L 'c';\nL: B | L ',' B;\nB: %s;\n" % alts
            good = ["a", bs[0], ",", bs[-1], ",", rng.choice(bs), "c"]
        else:
            body = "S: 'a' B 'c';\nB: %s;\n" % alts
            good = ["a", rng.choice(bs), "c"]
        src = head + "%%\n" + body
        sents = []
        idx = [i for i, t in enumerate(good) if t in bs]
        for i in idx:                                  # one alternative missing
            sents.append(good[:i] + good[i + 1:])
        sents.append([t for t in good if t not in bs])  # all of them missing
        for _ in range(rng.randint(2, 4)):             # … and something else wrong as well
            s2 = [t for j, t in enumerate(good) if not (j in idx and rng.random() < 0.7)]
            if s2 and rng.random() < 0.6:
                del s2[rng.randrange(len(s2))]
            if rng.random() < 0.4:
                s2.insert(rng.randint(0, len(s2)), rng.choice(["a", "c"] + bs))
            sents.append(s2)
        sents.append(good[:1])
        sents.append(good[-1:])
        return kind, src, sents
    # lists with several openers sharing the closer: a missing opener is a choice among them; a missing element among x / y
    k = rng.randint(2, 4)
    ops = ["(", "[", "{", "<"][:k]
    xs = ["x", "y", "z"][:rng.randint(2, 3)]
    src = ("%%start S\n%%%%\nS: L;\nL: L I | ;\nI: %s;\nX: %s | I;\n"
           % (" | ".join("'%s' X ')'" % o for o in ops), " | ".join("'%s'" % x for x in xs)))
    sents = [["x", ")"], [rng.choice(ops), ")"], [rng.choice(ops), "x", ")", rng.choice(xs), ")"],
             [rng.choice(ops), rng.choice(ops), ")", ")"], [")"], [rng.choice(ops), rng.choice(ops), "x", ")", ")", "y", ")"]]
    for _ in range(rng.randint(1, 3)):
        n = rng.randint(1, 3)
        s2 = []
        for _ in range(n):
            s2 += [rng.choice(ops), rng.choice(xs), ")"]
        del s2[rng.randrange(len(s2))]
        sents.append(s2)
    return "open", src, sents


def random_costs(rng, ntoks):
    """a non-uniform cost list (cycled over the token indices by the harness): mostly 1..5, some 255 / larger values"""
    ln = rng.choice([2, 3, 4, 5, 7, max(2, ntoks + 1)])
    while True:
        c = [rng.choice([1, 1, 2, 2, 3, 4, 5, 5, rng.randint(6, 40), 255]) for _ in range(ln)]
        if len(set(c)) > 1:
            return c


def mark_faulty(rng, inp):
    """mark some lexemes of a placed input as lexer-supplied faulty lexemes (only lexemes of non-zero length:
    a zero-length faulty lexeme is what the recoverer inserts).  -> (mode, input)"""
    n = len(inp)
    if n == 0:
        return "none", inp
    mode = rng.choice(["first", "last", "kth", "subset", "all", "ends"])
    if mode == "first":
        pick = {0}
    elif mode == "last":
        pick = {n - 1}
    elif mode == "ends":
        pick = {0, n - 1}
    elif mode == "kth":
        k, off = rng.randint(2, 3), rng.randint(0, 2)
        pick = set(i for i in range(n) if i % k == off % k)
    elif mode == "subset":
        pick = set(i for i in range(n) if rng.random() < 0.4) or {rng.randrange(n)}
    else:
        pick = set(range(n))
    return mode, [(l[0], l[1], l[2], True) if (i in pick and l[2] > l[1]) else l for i, l in enumerate(inp)]


# ---------------------------------------------------------------- generation
def eps_family(rng):
    """S with tokens and nullable rules in first / middle / last position; nested nullables"""
    toks = list("abcd"[:rng.randint(2, 4)])
    pool = []
    rules = []
    # epsilon-only rule, optional token, nested nullable, left-recursive list, unit to nullable
    rules.append(("E", [[]]))
    pool.append("E")
    if rng.random() < 0.8:
        t = rng.choice(toks + ["o"])
        rules.append(("O", [[('t', t)], []] if rng.random() < 0.5 else [[], [('t', t)]]))
        pool.append("O")
    if rng.random() < 0.6:
        rules.append(("N", [[('r', rng.choice(pool)) for _ in range(rng.randint(1, 3))]]))
        pool.append("N")
    if rng.random() < 0.5:
        t = rng.choice(toks + ["l"])
        rules.append(("L", [[('r', 'L'), ('t', t)], []] if rng.random() < 0.6 else [[], [('t', t), ('r', 'L')]]))
        pool.append("L")
    if rng.random() < 0.3:
        rules.append(("W", [[('r', rng.choice(pool))]]))
        pool.append("W")

    def body(lo, hi, allow_t=True):
        ln = rng.randint(lo, hi)
        b = []
        for _ in range(ln):
            c = rng.random()
            if c < 0.45:
                b.append(('t', rng.choice(toks)))
            elif c < 0.9 or not allow_t:
                b.append(('r', rng.choice(pool)))
            else:
                b.append(('r', 'T'))
        return b
    has_t = rng.random() < 0.7
    salts = [body(1, 5, has_t) for _ in range(rng.randint(1, 2))]
    if has_t and not any(('r', 'T') in a for a in salts):
        salts[0].insert(rng.randint(0, len(salts[0])), ('r', 'T'))
    rs = [("S", salts)]
    if has_t:
        talts = [body(1, 4, False) for _ in range(rng.randint(1, 2))]
        rs.append(("T", talts))
    used = set(x for _, ps in rs + rules for p in ps for k, x in p if k == 't')
    alltoks = [t for t in toks + ["o", "l"] if t in used] or toks[:1]
    g = G.Gram(alltoks, rs + rules)
    for n, ps in g.rules:
        uniq = []
        for p in ps:
            if p not in uniq:
                uniq.append(p)
        ps[:] = uniq
    return g


def place(rng, names):
    """byte spans with gaps (whitespace) for a token-name list"""
    pos = rng.choice([0, 0, 1, 3])
    out = []
    for n in names:
        ln = rng.randint(1, 3)
        out.append((n, pos, pos + ln))
        pos += ln + rng.choice([0, 0, 1, 1, 2, 4])
    return out


def usable(g):
    return all(not any(c in t for c in ";@ \t\n#") for t in g.tokens)


def gen_cases(ctx, n_grammars, n_inputs, n_ties=0):
    rng = ctx.rng
    cases = []                                    # (src, rec, [inputs], term costs or None)
    for src, costs, inputs in CORPUS_COSTS:
        cases.append((src, 1, inputs, costs))
        cases.append((src, 1, inputs))
    for src, inputs in CORPUS_REC + CORPUS_FAULTY_REC:
        cases.append((src, 1, inputs, [1, 5, 2, 255, 3]))
        cases.append((src, 1, inputs, [3, 1]))
    for src, inputs in CORPUS:
        cases.append((src, 0, inputs))
        cases.append((src, 1, inputs))
    for src, inputs in CORPUS_REC:
        cases.append((src, 1, inputs))
        cases.append((src, 0, inputs))
    for src, inputs in CORPUS_FAULTY:
        cases.append((src, 0, inputs))
        cases.append((src, 1, inputs))
    for src, inputs in CORPUS_FAULTY_REC:
        cases.append((src, 1, inputs))
        cases.append((src, 0, inputs))
    # the corpus inputs again with every lexeme / the first / the last one faulty
    for src, inputs in CORPUS + CORPUS_REC:
        for pick in ("all", "first", "last"):
            marked = []
            for inp in inputs:
                n = len(inp)
                sel = set(range(n)) if pick == "all" else ({0} if pick == "first" else {n - 1})
                marked.append([(l[0], l[1], l[2], True) if (i in sel and l[2] > l[1]) else l for i, l in enumerate(inp)])
            cases.append((src, 0, marked))
            cases.append((src, 1, marked))
    fams = [("eps", lambda: eps_family(rng)),
            ("nullable", lambda: G.nullable_heavy(rng)),
            ("random", lambda: G.random_grammar(rng, empty_p=0.35)),
            ("reduced", lambda: G.reduced_random_grammar(rng, empty_p=0.3)),
            ("expr", lambda: G.expr_grammar(rng)),
            ("corpus", lambda: rng.choice(G.classic_corpus()))]
    weights = [9, 4, 2, 2, 1, 1]
    ng = 0
    while ng < n_grammars:
        name, f = rng.choices(fams, weights)[0]
        g = f()
        if g is None or not usable(g):
            continue
        if g.derives_cycle():
            ctx.count("skipped_cyclic")
            continue
        ng += 1
        ctx.count("family_" + name)
        alphabet = g.used_tokens() or g.tokens
        good, bad = [[]], []
        for _ in range(n_inputs):
            s = g.sentence(rng, budget=rng.randint(1, 6))
            if s is None:
                s = [rng.choice(alphabet) for _ in range(rng.randint(0, 5))]
            s = s[:24]
            good.append(s)
            bad.append(G.mutate(rng, s, alphabet, rng.randint(1, 2)))
        src = g.render()
        plain = [place(rng, s) for s in good + bad[:max(2, n_inputs // 3)]]
        recov = [place(rng, s) for s in bad + good[:max(2, n_inputs // 3)]]
        # lexer-supplied faulty lexemes: every third input of a case is run a second time with some of its lexemes marked
        # faulty (first / last / both ends / every k-th / a random subset / all).  The marks come from a generator of their
        # own (seeded from the case) so that the rest of the generated stream does not depend on them.
        frng = random.Random(zlib.crc32(src.encode()) ^ (ng * 2654435761 & 0xffffffff))
        # non-uniform term costs (the same function for parse_actions and parse_map) for half of the recovery cases, from a
        # generator of their own as well
        crng = random.Random(zlib.crc32(src.encode()) ^ (ng * 40503 & 0xffffffff) ^ 0x5bd1e995)
        costs = random_costs(crng, len(g.tokens)) if crng.random() < 0.5 else None
        for rec, inps in ((0, plain), (1, recov)):
            extra = []
            for k in range(frng.randrange(3), len(inps), 3):
                mode, m = mark_faulty(frng, inps[k])
                if mode != "none":
                    extra.append(m)
                    ctx.count("inputs_with_faulty_lexemes_" + mode)
            if rec and costs:
                ctx.count("recovery_cases_with_nonuniform_term_costs")
                cases.append((src, rec, inps + extra, costs))
            else:
                cases.append((src, rec, inps + extra))
    # equally ranked repairs: fixed corpus + family, from a generator of their own (the stream above does not depend on them)
    for src, inputs in CORPUS_TIES:
        cases.append((src, 1, inputs))
        cases.append((src, 1, inputs, [2, 2, 2]))            # uniform but not the default cost: the ties stay
    trng = random.Random(ctx.rng.getrandbits(32) ^ 0x7e1d)
    for _ in range(n_ties):
        kind, src, sents = tie_family(trng)
        ctx.count("family_ties_" + kind)
        inps = [place(trng, s) for s in sents]
        if trng.random() < 0.25:
            cases.append((src, 1, inps, [trng.choice([2, 3])] * 2))
        else:
            cases.append((src, 1, inps))
    return cases


def lex_word(l):
    return "%s@%d-%d%s" % (l[0], l[1], l[2], "!" if len(l) > 3 and l[3] else "")


def case_line(src, rec, inputs, costs=None):
    return "O %s %d%s%s ; %s" % (src.encode().hex(), rec, (" costs=" + ",".join(str(c) for c in costs)) if costs else "",
                                 (" det=%d" % DET_ROUNDS) if rec else "",
                                 " ; ".join(" ".join(lex_word(l) for l in inp) for inp in inputs))


# ---------------------------------------------------------------- parsing of result lines
class Parse:
    def __init__(self):
        self.lexemes = []        # (tok, s, e)
        self.faulty = []         # per lexeme: handed over by the lexer as a faulty lexeme (FM section; absent = none)
        self.oa = None
        self.log = []            # raw strings of L sections after the tag
        self.ea = []             # raw
        self.ra = []             # per EA: sorted list of ALL repair sequences of that error | None (none / too many)
        self.rg = []             # per EG: the same for the generic mode
        self.qa = []             # per EA: (first-rank ties, ORDERED list of all repair sequences | None if more than 64) | None
        self.qg = []             # per EG: the same for the generic mode
        self.det = None          # ["<rounds>", "same" | "slow" | "cut" | "diff", which, round, hex first, hex other]
        self.ta = None
        self.og = None
        self.eg = []
        self.tg = None


def split_impl(line):
    secs = [s.split() for s in line.split(" # ")]
    parses, cur = [], None
    for s in secs:
        if not s:
            continue
        t = s[0]
        if t == "IN":
            cur = Parse()
            v = [int(x) for x in s[1:]]
            cur.lexemes = [tuple(v[i:i + 3]) for i in range(0, len(v), 3)]
            cur.faulty = [0] * len(cur.lexemes)
            parses.append(cur)
        elif cur is None:
            continue
        elif t == "FM":
            cur.faulty = [int(c) for c in s[1]] if len(s) > 1 else cur.faulty
        elif t == "OA":
            cur.oa = " ".join(s[1:])
        elif t == "L":
            cur.log.append(" ".join(s[1:]))
        elif t == "EA":
            cur.ea.append(" ".join(s[1:]))
            cur.ra.append(None)
            cur.qa.append(None)
        elif t == "RA" and cur.ra:
            cur.ra[-1] = None if s[1:2] == ["*"] else sorted(s[1].split("|"))
        elif t == "RG" and cur.rg:
            cur.rg[-1] = None if s[1:2] == ["*"] else sorted(s[1].split("|"))
        elif t == "TA":
            cur.ta = " ".join(s[1:])
        elif t == "OG":
            cur.og = " ".join(s[1:])
        elif t == "EG":
            cur.eg.append(" ".join(s[1:]))
            cur.rg.append(None)
            cur.qg.append(None)
        elif t == "QA" and cur.qa:
            cur.qa[-1] = (int(s[1]), None if s[2:3] == ["*"] else s[2].split("|"))
        elif t == "QG" and cur.qg:
            cur.qg[-1] = (int(s[1]), None if s[2:3] == ["*"] else s[2].split("|"))
        elif t == "DET":
            cur.det = s[1:]
        elif t == "TG":
            cur.tg = " ".join(s[1:])
    return secs, parses


def split_model(line):
    out, cur = [], None
    verdict = {}
    for s in [x.split() for x in line.split(" # ")]:
        if not s:
            continue
        t = s[0]
        if t == "V":
            for kv in s[1:]:
                k, v = kv.split("=")
                verdict[k] = v == "1"
        elif t == "IN":
            cur = {"OA": None, "L": [], "EA": [], "FOA": None, "FL": [], "FEA": [], "MF": None, "MN": False, "MG": None, "ME": [],
                   "MT": None}
            out.append(cur)
        elif cur is not None and t in ("OA", "FOA", "MF", "MG", "MT"):
            cur[t] = " ".join(s[1:])
        elif cur is not None and t == "MN":
            cur["MN"] = True
        elif cur is not None and t in ("L", "EA", "FL", "FEA", "ME"):
            cur[t].append(" ".join(s[1:]))
    return verdict, out


# ---------------------------------------------------------------- the direct oracle
def oracle(prods, p, rec):
    """recompute from the implementation's own log and tree what C08 demands.
    returns (list of (class, detail)), facts.  class in {'empty','lead'} = known span classes,
    anything else = alarm."""
    probs = []
    calls = []
    for raw in p.log:
        w = raw.split()
        k, pidx, ridx, s, e = (int(x) for x in w[:5])
        args = []
        for a in w[6:]:
            f = a.split(":")
            args.append(("l", int(f[1]), int(f[2]), int(f[3]), int(f[4])) if f[0] == "l" else ("v", int(f[1])))
        calls.append({"k": k, "pidx": pidx, "ridx": ridx, "span": (s, e), "param": w[5], "args": args})
    n = len(calls)
    used = {}
    size = [0] * n            # calls in the subtree
    leaves = [None] * n       # lexemes under the call
    lead = [False] * n         # begins with a subtree deriving no lexeme (recursively through first children)
    tree_s = [None] * n
    for k, c in enumerate(calls):
        if c["k"] != k:
            probs.append(("log", "call numbers are not 0..n-1"))
            return probs, {}
        if c["param"] != MAGIC:
            probs.append(("param", "call %d received parameter %s" % (k, c["param"])))
        if not (0 <= c["pidx"] < len(prods)):
            probs.append(("pidx", "call %d: production %d out of range" % (k, c["pidx"])))
            return probs, {}
        lhs, rhs = prods[c["pidx"]]
        if c["ridx"] != lhs:
            probs.append(("ridx", "call %d: rule %d passed for production %d of rule %d" % (k, c["ridx"], c["pidx"], lhs)))
        kinds = []
        lv = []
        sz = 1
        nxt = k            # children blocks must tile [k - size + 1, k) from the right
        order_ok = True
        ts = []
        for a in c["args"]:
            if a[0] == "l":
                kinds.append(2 * a[1])
                lv.append(a[1:])
                ts.append("[%d %d %d %d]" % a[1:])
            else:
                j = a[1]
                if not (0 <= j < k):
                    probs.append(("args", "call %d has the value of call %d as argument" % (k, j)))
                    return probs, {}
                if j in used:
                    probs.append(("args", "value of call %d passed twice (calls %d and %d)" % (j, used[j], k)))
                used[j] = k
                kinds.append(2 * calls[j]["ridx"] + 1)
                lv.extend(leaves[j])
                sz += size[j]
                ts.append(tree_s[j])
        if kinds != rhs:
            probs.append(("args", "call %d for production %d %s received argument kinds %s" % (k, c["pidx"], rhs, kinds)))
        # post-order: the children's calls are the contiguous blocks right before k, left to right
        blk = k
        for a in reversed(c["args"]):
            if a[0] == "v":
                j = a[1]
                if j != blk - 1:
                    order_ok = False
                blk = j - size[j] + 1
        if not order_ok:
            probs.append(("order", "call %d: children were not built bottom-up left-to-right right before it" % k))
        size[k], leaves[k] = sz, lv
        tree_s[k] = "(%d%s)" % (c["ridx"], "".join(" " + x for x in ts))
        a0 = c["args"][0] if c["args"] else None
        lead[k] = a0 is not None and a0[0] == "v" and (not leaves[a0[1]] or lead[a0[1]])
        # ---- the span
        s, e = c["span"]
        if not lv:
            if s != e:
                probs.append(("empty", "call %d (production %d) derived no lexeme but got span (%d,%d)" % (k, c["pidx"], s, e)))
        else:
            es, ee = lv[0][1], lv[-1][2]
            if (s, e) != (es, ee):
                if e == ee and lead[k] and s == calls[c["args"][0][1]]["span"][0]:
                    probs.append(("lead", "call %d (production %d) derived lexemes %d..%d but got span (%d,%d)"
                                  % (k, c["pidx"], es, ee, s, e)))
                else:
                    probs.append(("hull", "call %d (production %d) derived lexemes spanning (%d,%d) but got span (%d,%d)"
                                  % (k, c["pidx"], es, ee, s, e)))
    facts = {"calls": n, "empty_calls": sum(1 for k in range(n) if not leaves[k]), "accepted": False}
    acc = p.oa is not None and p.oa.startswith("acc ")
    if acc:
        facts["accepted"] = True
        root = int(p.oa.split()[1])
        if not (0 <= root < n):
            probs.append(("value", "returned value %d is not a call" % root))
            return probs, facts
        if size[root] != n or root != n - 1:
            probs.append(("once", "returned tree has %d nodes, %d calls were made (root call %d)" % (size[root], n, root)))
        if p.ta != tree_s[root]:
            probs.append(("tree", "tree built by the actions %s is not the tree of the log %s" % (p.ta, tree_s[root])))
        lv = leaves[root]
        # the input as the lexer handed it over: (tok, s, e, faulty) — a LEXER-SUPPLIED faulty lexeme (non-zero length in every
        # generated input) is an input lexeme like any other; the lexemes the recoverer inserts are faulty AND zero-length
        given = [l + (f,) for l, f in zip(p.lexemes, p.faulty)]
        inserted = [x for x in lv if x[3] and x[1] == x[2] and x not in given]
        real = [x for x in lv if not (x[3] and x[1] == x[2] and x not in given)]
        if not rec:
            if real != given or inserted:
                probs.append(("leaves", "leaves %s are not the input %s" % (lv, given)))
        else:
            it = iter(given)
            if not all(any(x == y for y in it) for x in real):
                if any(f and s != e and (t, s, e, f) not in given for (t, s, e, f) in lv):
                    probs.append(("leaves", "a faulty lexeme that is not an input lexeme is not zero-length"))
                probs.append(("leaves", "leaves %s (without the inserted ones) are not a subsequence of the input %s" % (real, given)))
            # (a Shift/Insert of the applied sequence that meets an Error cell is silently skipped by lr_upto —
            #  C05's subject — so the repairs only bound the number of inserted leaves)
            ins = sum(1 for r in p.ea for w in r.split()[3:] if w.startswith("I"))
            if len(inserted) > ins:
                probs.append(("leaves", "leaves %s contain more inserted (faulty, zero-length) lexemes than the %d Inserts of the "
                                        "applied repairs" % (lv, ins)))
    elif p.oa is not None and p.oa.startswith("none") and not p.ea:
        probs.append(("errors", "no value and no error"))
    # ---- generic tree mode
    if p.og is not None and not p.og.startswith("panic") and p.oa is not None and not p.oa.startswith("panic"):
        # a search the time budget cut short reports an error without repairs and ends the parse: such a run is no witness
        cut = any(r.split()[2:3] == ["0"] for r in p.ea + p.eg)
        same_reports = p.ea == p.eg and p.qa == p.qg
        if p.ea == p.eg:
            if (p.ta or "-") != (p.tg or "-"):
                probs.append(("generic", "actions-built tree %s differs from generic tree %s" % (p.ta, p.tg)))
            if acc != p.og.startswith("acc"):
                probs.append(("generic", "actions mode %s, generic mode %s" % (p.oa, p.og)))
        if same_reports:
            pass
        elif REPAIR_ORDER_FIXED and not cut:
            # THE DIRECT CLAUSE: both modes run the same recoverer on the same input — same errors, same ORDERED repairs()
            # lists (repairs()[0] is what is replayed onto the value stack), hence the same tree
            i = next((j for j, (a, b) in enumerate(zip(p.ea, p.eg)) if a != b or p.qa[j] != p.qg[j]), min(len(p.ea), len(p.eg)))
            ea_i = p.ea[i] if i < len(p.ea) else "(no further error)"
            eg_i = p.eg[i] if i < len(p.eg) else "(no further error)"
            qa_i = "|".join((p.qa[i] or (0, None))[1] or ["?"]) if i < len(p.qa) else "-"
            qg_i = "|".join((p.qg[i] or (0, None))[1] or ["?"]) if i < len(p.qg) else "-"
            probs.append(("repair-order", "the same input gets different repairs in the two modes (same grammar, table, recoverer, costs): "
                                          "error %d is `%s` with repairs() = [%s] under parse_actions and `%s` with repairs() = [%s] under "
                                          "parse_map; trees %s / %s — the applied repair sequence (repairs()[0]) must be a function of the input"
                           % (i, ea_i, qa_i, eg_i, qg_i, p.ta, p.tg)))
        elif cut:
            facts["budget_cut"] = True
        if p.ea != p.eg and not (REPAIR_ORDER_FIXED and not cut):
            # Different repairs were APPLIED (before ca69cd1 the order of an error's repair sequences was hash order).  Up to the
            # first error whose applied sequence differs both parsers are in the same configuration (same lexemes, same stack),
            # and they were given the same recoverer and the same term costs: they must OFFER the same set of sequences there.
            for i, (a, b) in enumerate(zip(p.ea, p.eg)):
                wa, wb = a.split(), b.split()
                if wa[:2] != wb[:2]:
                    break
                sa, sb = p.ra[i], p.rg[i]
                if sa is not None and sb is not None and sa != sb:
                    facts["repair_sets_differ"] = True
                    if (p.ta or "-") != (p.tg or "-") or acc != p.og.startswith("acc"):
                        probs.append(("generic", "actions-built tree %s differs from generic tree %s, and not because of an arbitrary choice "
                                                 "among equally ranked repairs: at error %d (lexeme %s, state %s; same repairs applied before) "
                                                 "parse_actions offers the repair sequences {%s}, parse_map {%s} (same builder settings)"
                                      % (p.ta, p.tg, i, wa[0], wa[1], " | ".join(sa), " | ".join(sb))))
                    else:
                        probs.append(("generic-repairs-noinput", "at error %d parse_actions offers {%s}, parse_map {%s}; the trees are equal"
                                      % (i, " | ".join(sa), " | ".join(sb))))
                    break
                if sa is None or sb is None:
                    facts["repair_sets_not_compared"] = True
                if wa[3:] != wb[3:]:
                    facts["different_choice_same_offer"] = sa is not None and sb is not None
                    break
        # ---- the same mode again, DET_ROUNDS times in the same process
        if p.det and p.det[1:2] == ["diff"] and REPAIR_ORDER_FIXED:
            which, rnd = p.det[2], p.det[3]
            first, other = (bytes.fromhex(x).decode(errors="replace") for x in p.det[4:6])
            if which != "AG":           # (AG = the two first runs: reported above with its details)
                probs.append(("repair-order", "run %s of %s on the same input in the same process differs from the first run: first `%s`, "
                                              "then `%s` (verdict, tree, errors with their ordered repairs() lists)"
                              % (rnd, "parse_actions" if which == "A" else "parse_map", first, other)))
            elif not any(x[0] == "repair-order" for x in probs):
                probs.append(("repair-order", "parse_actions and parse_map differ on the same input: `%s` / `%s`" % (first, other)))
        facts["det"] = p.det[1] if p.det else None
        facts["ties"] = max([q[0] for q in p.qa if q] or [0])
    if (p.oa or "").startswith("panic") or (p.og or "").startswith("panic"):
        probs.append(("panic", "parse_actions: %s / parse_map: %s" % (p.oa, p.og)))
    return probs, facts


# ---------------------------------------------------------------- the check
def run(ctx):
    ctx.gate = core.proof_gate("C08")
    for _ in ctx.gate["theorems"]:
        ctx.oblige(True)
    exe = core.build_harness("c08")
    mexe = core.build_model("c08")
    cases = gen_cases(ctx, ctx.n(300, 3000), ctx.n(10, 16), ctx.n(40, 400))
    lines = [case_line(*c) for c in cases]
    # the hook GRMTOOLS_VERIF_RECOVERY_BUDGET_MS (cfg grmtools_verif) bounds the time CPCT+ may spend per parse:
    # on ambiguous grammars a parse can otherwise repair thousands of errors until the 500 ms run out
    env = {"GVH_CASE_TIMEOUT_MS": "30000", "GRMTOOLS_VERIF_RECOVERY_BUDGET_MS": "60"}
    impl = core.run_lines([exe], lines, env=env)
    # a HANG/CRASH loses the whole case: redo it input by input
    for i, out in enumerate(impl):
        if out.startswith("HANG") or out.startswith("CRASH"):
            src, rec, inputs = cases[i][:3]
            costs = cases[i][3] if len(cases[i]) > 3 else None
            sub = [case_line(src, rec, [], costs)] + [case_line(src, rec, [inp], costs) for inp in inputs]
            outs = core.run_lines([exe], sub, env=dict(env, GVH_CASE_TIMEOUT_MS="3000"))
            if not outs[0].startswith("G "):
                continue
            st = outs[0]
            for o in outs[1:]:
                if o.startswith("G "):
                    k = o.find(" # IN")
                    if k >= 0:
                        st += o[k:]
                else:
                    ctx.count("input_hang_or_crash")
            impl[i] = st
    model = core.run_lines([mexe], impl)
    matched_cur = matched_fix = 0
    only_cur_example = only_fix_example = None
    known_seen = {"empty": 0, "lead": 0}
    for cs, il, ml in zip(cases, impl, model):
        src, rec, inputs = cs[:3]
        costs = cs[3] if len(cs) > 3 else None
        if not il.startswith("G "):
            ctx.count("grammar_rejected_" + il.split()[0])
            if il.startswith("BUILDPANIC"):
                ctx.violation({"what": "table construction panicked", "grammar": src, "impl": il})
            continue
        secs, parses = split_impl(il)
        tc = [int(x) for sct in secs if sct and sct[0] == "TC" for x in sct[1:]]
        if costs and not tc:
            ctx.violation({"what": "harness did not report the term costs it was given", "grammar": src}, no_input=True)
        prods = [(int(s[1]), [int(x) for x in s[2:]]) for s in secs if s and s[0] == "P"]
        verdict, mparses = split_model(ml)
        ok_case = True
        if not (verdict.get("wf") and verdict.get("S")):
            ctx.violation({"what": "the validators reject the implementation's table: the C08 theorems over validated tables do not apply",
                           "grammar": src, "validators": verdict}, no_input=True)
            ok_case = False
        if len(mparses) != len(parses):
            ctx.violation({"what": "model runner produced %d results for %d parses" % (len(mparses), len(parses)),
                           "grammar": src, "model": ml[:300]}, no_input=True)
            ctx.oblige(False)
            continue
        nontriv = False
        n_acc = 0
        for p, m in zip(parses, mparses):
            ctx.coverage["parses"] = ctx.coverage.get("parses", 0) + 1
            probs, facts = oracle(prods, p, rec)
            inp = " ".join("%d@%d-%d" % l + ("!" if f else "") for l, f in zip(p.lexemes, p.faulty))
            if any(p.faulty):
                ctx.count("parses_with_lexer_supplied_faulty_lexemes")
            replay = {"grammar": src, "recovery": bool(rec), "input_tidx@span": inp, "impl_outcome": p.oa, "impl_log": p.log,
                      "impl_errors": p.ea, "impl_tree": p.ta, "generic_tree": p.tg}
            if rec and p.ea != p.eg:
                replay["generic_errors"] = p.eg
            if costs:
                replay["term_costs_by_token_index"] = tc
                replay["generic_errors"] = p.eg
                replay["builder"] = ("RTParserBuilder::new(..).recoverer(CPCTPlus).term_costs(f) with f(tidx) = term_costs_by_token_index[tidx], "
                                     "for parse_actions and for parse_map alike")
            for cls, detail in [x for x in probs if x[0] == "generic-repairs-noinput"]:
                ctx.violation(dict(replay, what=detail, broken_correspondence="parse_actions and parse_map run the same recoverer with the "
                                                                              "same settings"), no_input=True)
                ok_case = False
            probs = [x for x in probs if x[0] != "generic-repairs-noinput"]
            if rec and p.ea:
                ctx.count("erroneous_inputs_with_recovery")
                if facts.get("ties", 0) >= 2:
                    ctx.count("erroneous_inputs_with_2_or_more_first_rank_repair_sequences")
                if facts.get("ties", 0) >= 3:
                    ctx.count("erroneous_inputs_with_3_or_more_first_rank_repair_sequences")
                ctx.count("repeat_%s" % (facts.get("det") or "not_run"))
                if facts.get("det") == "same":
                    ctx.count("repeated_parses_equal_to_the_first_run", 2 * DET_ROUNDS)
                if facts.get("budget_cut"):
                    ctx.count("modes_not_compared_search_cut_by_time_budget")
            if rec and p.ea and p.eg:
                tag = "_costs" if costs else "_unit"
                if p.ea == p.eg:
                    ctx.count("rec_same_applied_repairs_trees_compared" + tag)
                elif facts.get("different_choice_same_offer"):
                    ctx.count("rec_different_choice_among_same_offered_set" + tag)
                elif facts.get("repair_sets_differ"):
                    ctx.count("rec_offered_sets_differ" + tag)
                else:
                    ctx.count("rec_applied_differ_not_comparable" + tag)
            unknown = [x for x in probs if x[0] not in ("empty", "lead")]
            known = [x for x in probs if x[0] in ("empty", "lead")]
            # ---- correspondence with the mirrors
            iea = [" ".join(r.split()[:2]) for r in p.ea]
            same_cur = (p.oa == m["OA"] and p.log == m["L"] and iea == m["EA"])
            same_fix = (p.oa == m["FOA"] and p.log == m["FL"] and iea == m["FEA"])
            if m["OA"] == "fuel" or m["FOA"] == "fuel":
                ctx.count("model_out_of_fuel")
                same_cur = same_fix = True if not unknown else False
            if same_fix and not same_cur:
                matched_fix += 1
                only_fix_example = only_fix_example or replay
            elif same_cur:
                matched_cur += 1
                if not same_fix and known and only_cur_example is None:
                    only_cur_example = dict(replay, what=known[0][1])
            if same_fix and not same_cur and known:
                # the repaired mirror is proved to satisfy the hull spec: the oracle must agree
                unknown = unknown + known
                known = []
            # ---- correspondence of the function-driven mirrors (C08.DetModel): generic mode vs parse_map
            gen_ok = True
            if m["MG"] is not None and p.og is not None and not p.og.startswith("panic"):
                if m["MG"] == "fuel" or m["FOA"] == "fuel":
                    ctx.count("generic_mirror_out_of_fuel")
                elif m["MN"]:
                    ctx.count("generic_mirror_not_compared_reported_repairs_depend_on_time")
                else:
                    ieg = [" ".join(r.split()[:2]) for r in p.eg]
                    if not (m["MG"] == p.og.split()[0] and (m["MT"] or "-") == (p.tg or "-") and m["ME"] == ieg):
                        gen_ok = False
                        ctx.count("generic_mirror_mismatch")
                        ctx.violation(dict(replay, what="parse_map does not return what the generic-mode mirror returns when it is "
                                                        "given the repair sequences parse_map reports as applied",
                                           generic_errors=p.eg, generic_outcome=p.og,
                                           mirror_generic={"outcome": m["MG"], "tree": m["MT"], "errors": m["ME"]},
                                           broken_correspondence="C08.DetModel.run_generic_fixed_f vs RTParserBuilder::parse_map"),
                                      no_input=True)
                    else:
                        ctx.count("generic_mirror_matches_parse_map")
                    if m["MF"] == "0":
                        gen_ok = False
                        ctx.violation(dict(replay, what="the action-mode mirror driven by a recoverer function differs from the one "
                                                        "driven by the oracle list of the same answers (theorem recoverer_run_is_oracle_run)",
                                           broken_correspondence="C08.DetModel.run_actions_fixed_f vs C08.Model.run_actions_fixed_rec"),
                                      no_input=True)
            if not gen_ok:
                ok_case = False
            for cls, detail in unknown[:2]:
                # (KEY_ORDER is listed as FIXED in known_findings.json: it matches nothing, the line printed is VIOLATION)
                ctx.violation(dict(replay, what=detail, violated=cls), known_key=KEY_ORDER if cls == "repair-order" else None)
            for cls, detail in known:
                known_seen[cls] += 1
                ctx.violation(dict(replay, what=detail, violated="span"), known_key=KEY_EMPTY if cls == "empty" else KEY_LEAD)
            if not (same_cur or same_fix):
                ctx.count("mirror_mismatch")
                if not unknown:
                    ctx.violation(dict(replay, what="the implementation's action log matches neither the mirror of today's code nor "
                                                    "the mirror of the repaired code; the direct oracle found no new property violation",
                                       mirror_today={"outcome": m["OA"], "log": m["L"], "errors": m["EA"]},
                                       mirror_repaired={"outcome": m["FOA"], "log": m["FL"]},
                                       broken_correspondence="C08.Model.run_actions_rec / run_actions_fixed_rec vs RTParserBuilder::parse_actions"),
                                  no_input=True)
            if unknown or not (same_cur or same_fix):
                ok_case = False
            if facts.get("accepted"):
                n_acc += 1
                if facts.get("empty_calls", 0) > 0:
                    nontriv = True
            ctx.count("rec_%d_%s" % (rec, "accepted" if facts.get("accepted") else "no_value"))
            if rec and p.ea:
                ctx.count("parses_with_applied_repairs")
        ctx.oblige(ok_case)
        ctx.case("%d %s%s" % (rec, src, (" costs " + ",".join(map(str, costs))) if costs else ""), nontriv,
                 {"grammar": src, "recovery": bool(rec), "term_costs": costs, "parses": len(parses), "accepted": n_acc,
                  "first_input": " ".join("%d@%d-%d" % l + ("!" if f else "")
                                          for l, f in zip(parses[0].lexemes, parses[0].faulty)) if parses else "",
                  "first_log": parses[0].log if parses else []})
    if only_cur_example and only_fix_example:
        # e.g. the repair applied to Parser::lr but not to its copy in lr_upto (or vice versa)
        ctx.violation(dict(only_cur_example, violated="span",
                           note="some parses follow the repaired span computation, this one still today's: the two copies of the "
                                "reduce code (Parser::lr, Parser::lr_upto) have drifted apart",
                           a_parse_following_the_repaired_code=only_fix_example))
        ctx.oblige(False)
    ctx.coverage["impl_matches_mirror_of_todays_code"] = matched_cur
    ctx.coverage["impl_matches_only_mirror_of_repaired_code"] = matched_fix
    ctx.coverage["known_span_defect_instances"] = known_seen
    ctx.coverage["repair_order_fixed"] = REPAIR_ORDER_FIXED
    ctx.coverage["repeat_rounds_per_mode"] = DET_ROUNDS
    ctx.coverage["erroneous_inputs_with_tied_first_rank_repairs"] = ctx.hist.get("erroneous_inputs_with_2_or_more_first_rank_repair_sequences", 0)
    ctx.coverage["erroneous_inputs_repeated_and_equal"] = ctx.hist.get("repeat_same", 0)
    ctx.coverage["rule"] = ("grammars: template family with epsilon-only / optional / nested-nullable / list rules in first, middle and last "
                            "position of S and of an inner rule T, nullable-heavy, random (35% empty alternatives), reduced random, "
                            "expression grammars, classic corpus, plus a fixed corpus with the DESIGN witnesses; inputs: the empty input, "
                            "sentences by random derivation, 1-2 token edits of them; every lexeme gets a byte span with random gaps; every third "
                            "input of a case is run a second time with some lexemes handed over by the lexer as FAULTY lexemes "
                            "(Lexeme::new_faulty, non-zero length; written tok@s-e! in replays): the first / the last / both ends / every "
                            "k-th / a random subset / all of them, and the fixed corpus is repeated with all / the first / the last lexeme "
                            "faulty, for plain and for recovery parses (a faulty input lexeme is a lexeme: expected log unchanged but for "
                            "the flag in the lexeme arguments); the harness lexer is single-shot (a second Lexer::iter call panics); each "
                            "grammar is run with recovery off and with CPCT+ (the mirror replays the repair sequence the implementation "
                            "reports as applied, hence needs no costs); half of the generated recovery cases (and a fixed corpus) give "
                            "BOTH builders (parse_actions, parse_map) a NON-UNIFORM term_costs function (a list of 2..ntokens+1 costs cycled "
                            "over the token indices, values 1..5 mostly, some 6..40 and 255); for EVERY erroneous input parse_actions and "
                            "parse_map must report the same errors with the same ORDERED repairs() lists and return the same tree, and "
                            "{DET} further runs of each mode (alternating, same process, fresh single-shot lexers) must reproduce the first run "
                            "in verdict, tree, errors and ordered repairs() lists with the Delete/Shift lexemes (REPAIR_ORDER_FIXED; before "
                            "/repo ca69cd1 only the SETS offered were compared and the trees only when the same sequences had been applied); "
                            "a family of grammars with EQUALLY RANKED repairs (`S: 'a' B 'c'; B: b0 | … | bk` with 2..6 alternatives, twice in "
                            "S, in a list; lists whose items have 2..4 openers sharing the closer; %avoid_insert on a pair / a part / all of "
                            "the alternatives) with the alternative(s) missing gives the inputs counted as "
                            "erroneous_inputs_with_2_or_more_first_rank_repair_sequences (first rank = the rank key of repairs()[0]: "
                            "contains an %avoid_insert token, length); the generic-mode mirror run_generic_fixed_f, given the sequences "
                            "parse_map reports as applied (as a function of the configuration), must return parse_map's verdict, tree and "
                            "errors. "
                            "case = (grammar, recovery flag, costs); non-trivial = at least one accepted parse in which some "
                            "action call derives no lexeme; distinct by grammar text + flag").replace("{DET}", str(DET_ROUNDS))
    ctx.assumptions += [
        "actions are modelled freely (call k returns the value k and is logged); any concrete action family is a fold over the log",
        "the recoverer's search is not modelled here (C05-C07): with recovery the mirror replays the repair sequence the implementation "
        "reports as applied (repairs()[0] of each error)",
        "theorems about the whole tree (every call is in the returned tree, leaves = input, argument kinds = production symbols, generic "
        "tree equality) are for recovery off on a table passing validS; with recovery the proved part is: the returned tree's calls are "
        "contiguous from 0 in post-order, each well-formed, and (repaired code) each span is the hull",
        "a zero-length span's position is not constrained by the property; the repaired code (and its theorem) puts it at the end of the "
        "last lexeme parsed before the production (0 at the beginning of the input), as bison's default location does",
        "inserted (faulty, zero-length) lexemes count as lexemes of the production that derives them",
        "a lexeme the LEXER hands over as faulty (Lexeme::new_faulty, public API) is an input lexeme like any other: it counts as derived by "
        "its production and bounds the span; generated faulty input lexemes have non-zero length so that the leaves oracle can tell them "
        "from the zero-length lexemes the recoverer inserts",
        "the ordered list of repair sequences reported for an error is a function of the parser configuration, the recoverer and the term "
        "costs — and of nothing else but the time budget: a search cut short by the budget reports an error WITHOUT repairs and ends the "
        "parse; two runs that differ are no witness when one of them contains such an error (counted as repeat_cut / "
        "modes_not_compared_search_cut_by_time_budget), and an input whose first two parses took more than 24 ms is not repeated "
        "(repeat_slow); lists of more than 64 sequences are compared inside the harness (full signatures), not printed",
        "the recoverer of the Coq statements is a function (lexemes, laidx, parse stack) -> applied sequence: grammar, table and token costs "
        "are fixed per parser, and CPCTPlus::recover reads nothing else (astack and spans are only written by the replay)",
        "lexemes come from a replaying lexer with explicit byte spans (start <= end, increasing); lrlex is not involved",
    ]
