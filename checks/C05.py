"""C05 — every reported repair sequence repairs; parsing continues as if it were applied.

Proof (theories/Repair, all tables / inputs / oracles, hypotheses explicit): the
semantics of a repair sequence is the mirror of apply_repairs/lr_upto
(`apply_seq`); `valid_repair` is the property's first sentence as a boolean.
valid_repair_plain_parse: a valid sequence means plain LR parsing of the
REPAIRED token string, from the configuration at the error, gets through every
inserted/shifted lexeme and N more or to Accept.  continue_as_if_applied: after
a strictly applied sequence the driver behaves exactly as the driver run on
the repaired token string (same value shape, same later errors up to the
position offset, same outcome).  valid_repair_progress: the driver then
progresses by >= N real lexemes or accepts.  success_stripped_valid: stripping
the trailing Shifts of a search success keeps it valid.  del_ins_commute,
clean_accept, first_error_is_plain_reject (link to LR/Automaton.run).
Tie / decision: the implementation reports ALL sequences of every error; the
extracted `valid_repair` is evaluated on EVERY one of them at the configuration
the mirror driver reaches by replaying the implementation's own first sequences;
errors, value tree and leaves are compared with the mirror; independently
(Python) the tree's leaves must spell the repaired input and (extracted LR
interpreter) plain parsing of the repaired token string must give the same tree
shape.
The applied sequence is a function of the input (theories/C05/Simplify*.v:
simplify_deterministic, simplify_stable, simplify_same_set; the pinned HashSet +
unstable sort is refuted by simplify_refuted_orig; /repo ca69cd1): every erroneous
input is parsed again, 8 times in one process and in 4 processes in all — the
repairs() LIST of every error (order included), the applied sequence and (value,
later errors) must be identical (vlib/repair.py determinism, REPAIR_ORDER_FIXED).
Deep parse stacks (theories/C07/Drop*.v: recover_drop_depth_bounded, the pinned
teardown refuted by recover_drop_depth_unbounded_refuted; /repo 4f40408): "the
value is that of the repaired input" at nesting depths 2 000 .. 500 000 on threads
with 2 / 8 MiB of stack, one process per parse (vlib/repair.py deep_check).
"""
import re
from vlib import core, cfg, repair
from gen import repairgen


def seq_str(r, seq):
    out = []
    for st in seq:
        if st[0] == "I":
            out.append("Insert %s" % r.tname(int(st[1:])))
        elif st[0] == "D":
            out.append("Delete@%s" % st[1:])
        else:
            out.append("Shift@%s" % st[1:])
    return out


KNOWN_NONCONFLUENT = ("reported repair sequence does not repair on a conflict-resolved table: the search continues from a stack "
                      "reduced under the real lookahead, the replay starts from the unreduced stack")


class _Collect:
    """collects the problems of one input; decides known finding vs alarm at the end"""

    def __init__(self):
        self.items = []

    def violation(self, d, no_input=False, tag="mirror"):
        self.items.append((d, no_input, tag))


def check_input(ctx0, r, inp):
    """returns True when everything demanded of this input holds"""
    ctx = _Collect()
    ok = _check_input(ctx, ctx0, r, inp)
    if ok is None:
        return None
    m = inp.model or {}
    bad = [b for b in m.get("bad", "").split(",") if b]
    resolved = r.conflicts is not None or not r.verdict.get("single", False)
    # On a table with resolved conflicts the reductions made under the erroneous lookahead (before the error is
    # detected, or by a shift neighbour that made no progress) need not be the ones made under the repaired
    # lookahead (DESIGN 5B, reduce-confluence).  Known class there: a reported sequence that fails when replayed,
    # leaves that miss an Insert which shifted nothing, and a plain parse of the repaired token string that
    # differs.  The comparison with the mirror driver and tree validity are demanded on every table.
    seq_bad = any(re.match(r"\d+\.\d+\.(step\d+|ahead-err\d+)$", b) for b in bad)
    applied_bad = any(re.match(r"\d+\.0\.(step\d+|ahead-err\d+)$", b) for b in bad)
    all_known = bool(ctx.items)
    confirmed = None
    if resolved and ctx.items:
        # the recorded class is what the search AS WRITTEN does on such a table: the faithful mirror of the search must
        # report the same sets at the errors concerned; if it reports something else, this is a different defect
        eis = sorted(set(int(b.split(".")[0]) for b in bad if re.match(r"\d+\.\d+\.", b)))
        confirmed = repair.known_class_confirmed(r, r.inputs.index(inp), eis) if eis else None
        ctx0.count("known_class_mirror_%s" % {True: "confirms", False: "CONTRADICTS", None: "not_consulted"}[confirmed])
    for d, no_input, tag in ctx.items:
        known = resolved and confirmed is not False and ((tag == "seq" and seq_bad) or (tag == "leaves" and applied_bad) or tag == "rep")
        if confirmed is False:
            d["search_mirror"] = "the mirror of the search as written does not report this set: not the recorded class"
        all_known = all_known and known
        d["table_has_resolved_conflicts"] = resolved
        ctx0.count("failing_known_class" if known else "failing_ALARM")
        ctx0.violation(d, known_key=KNOWN_NONCONFLUENT if known else None, no_input=no_input)
    return True if all_known else ok


def _check_input(ctx, ctx0, r, inp):
    base = {"grammar": r.src, "costs": r.costs, "input": r.names(inp.toks), "input_tidxs": inp.toks,
            "impl_errors": [{"lexeme": e[0], "state": e[1], "repairs": [" ".join(s) for s in e[3][:6]]} for e in inp.errors[:12]],
            "n_impl_errors": len(inp.errors),
            "impl_value": inp.value, "conflicts": r.conflicts}
    m = inp.model
    ok = True
    n = len(inp.toks)
    nrep = sum(len(e[3]) for e in inp.errors)
    ctx0.count("errors_per_input_%s" % (len(inp.errors) if len(inp.errors) < 4 else "4+"))
    if inp.ms >= 0.8 * r.budget:
        ctx0.count("budget_possibly_exhausted")
    if m and m.get("mirror") == "overflow":
        ctx0.count("skipped_model_cap")
        return None
    trunc = m.get("trunc") == "1"
    if trunc:
        ctx0.count("inputs_with_more_errors_than_model_cap(prefix compared)")
    if not m or m.get("mirror") in ("ifuel", "ofuel"):
        # the mirror ran out of fuel (reduce loop in a conflict-resolved table): nothing to compare
        ctx0.count("skipped_model_fuel")
        return None
    # ---- (1) every reported sequence is a repair -------------------------------------
    bad = [b for b in m.get("bad", "").split(",") if b]
    for b in bad[:2]:
        ei, sj, why = b.split(".", 2)
        ei, sj = int(ei), int(sj)
        seq = inp.errors[ei][3][sj]
        what = {"empty": "an empty repair sequence is reported",
                "panic": "replaying the sequence panics (stack underflow / missing goto)"}.get(why)
        if what is None and why.startswith("lexidx"):
            what = "step %s names a lexeme that is not the one at the running position" % why[6:]
        if what is None and why.startswith("step"):
            what = "step %s of the sequence does not do what it says (Insert/Shift shifts nothing, or Delete past the end)" % why[4:]
        if what is None and why.startswith("ahead-err"):
            what = ("after the sequence plain parsing hits an error at lexeme %s, before %d lexemes were parsed and before Accept"
                    % (why[9:], r.PN))
        if what is None:
            what = "sequence is not a valid repair (%s)" % why
        d = dict(base)
        d.update({"what": "reported repair sequence does not repair: " + what, "error_index": ei, "sequence_index": sj,
                  "sequence": seq_str(r, seq), "failing": why})
        ctx.violation(d, tag="seq")
        ok = False
    ctx0.count("sequences_checked", int(m.get("nseq", "0")))
    if int(m.get("nskip", "0")):
        ctx0.count("sequences_beyond_model_cap_not_evaluated", int(m.get("nskip", "0")))
    # ---- (2) continuation: later errors and value = replay of the first sequences --------
    impl_errs = ["%d:%d:%d" % (e[0], e[1], 1 if e[3] else 0) for e in inp.errors]
    merrs = [x for x in m.get("merrs", "").split(",") if x]
    val_acc = inp.value.startswith("acc ")
    if m.get("mirror") == "panic":
        d = dict(base)
        d.update({"what": "replaying the implementation's first sequences panics in the mirror driver", "mirror_errors": merrs})
        ctx.violation(d, no_input=not bad)
        return False
    if trunc:
        # only the first errors were replayed by the mirror: compare that prefix, nothing else
        if impl_errs[:len(merrs)] != merrs:
            d = dict(base)
            d.update({"what": "later errors differ from parsing with the first sequence of each error applied (prefix)",
                      "mirror_errors(pos:state:repaired)": merrs[:40], "impl_errors(pos:state:repaired)": impl_errs[:40]})
            ctx.violation(d)
            ok = False
        return ok
    if merrs != impl_errs:
        d = dict(base)
        d.update({"what": "later errors differ from parsing with the first sequence of each error applied",
                  "mirror_errors(pos:state:repaired)": merrs, "impl_errors(pos:state:repaired)": impl_errs})
        ctx.violation(d)
        ok = False
    elif m.get("vcmp") == "diff":
        d = dict(base)
        d.update({"what": "the returned value differs from the one obtained by applying the first sequence of each error "
                          "(inserted tokens as zero-length faulty lexemes at the next real lexeme)",
                  "mirror_value": m.get("mvalue")})
        ctx.violation(d)
        ok = False
    # ---- (3) independent: the tree's leaves spell the repaired input; tree is a derivation -----
    if val_acc:
        t = cfg.parse_tree(inp.value[4:])
        leaves = [(l[1], l[2], l[3]) for l in cfg.tree_leaves(t)]
        exp = repair.expected_leaves(inp)
        if leaves != exp:
            d = dict(base)
            d.update({"what": "the returned tree's leaves do not spell the repaired input", "leaves": leaves, "expected": exp})
            ctx.violation(d, tag="leaves")
            ok = False
        if inp.odd_lexemes:
            d = dict(base)
            d.update({"what": "%d leaves of the returned tree are faulty but not zero-length, or zero-length but not faulty" % inp.odd_lexemes})
            ctx.violation(d, tag="treevalid")
            ok = False
        if inp.misplaced_inserts:
            d = dict(base)
            d.update({"what": "%d inserted (zero-length) leaves are not at the position of the next real lexeme (replay lexer: lexeme i "
                              "starts at offset 2i; an inserted lexeme before lexeme i must be at 2i, not at the end of lexeme i-1)"
                              % inp.misplaced_inserts})
            ctx.violation(d, tag="treevalid")
            ok = False
        if not cfg.tree_valid(r.dgram, t):
            d = dict(base)
            d.update({"what": "the returned tree is not built from productions of the grammar"})
            ctx.violation(d, tag="treevalid")
            ok = False
        # plain LR parse (extracted interpreter) of the repaired token string: same tree shape
        if m.get("rep") != "acc" or m.get("rshape") != "same":
            if m.get("rep") == "fuel":
                ctx0.count("skipped_model_fuel")
            else:
                d = dict(base)
                d.update({"what": "plain LR parsing of the repaired token string does not give the returned tree",
                          "plain_parse_of_repaired_input": m.get("rep"), "shape": m.get("rshape"),
                          "repaired_input": [r.tname(x[0]) for x in exp]})
                ctx.violation(d, tag="rep")
                ok = False
    elif inp.value == "none" and inp.errors and not inp.errors[-1][3] and merrs == impl_errs:
        # unrepaired last error: plain parsing of the input repaired so far stops there
        off = 0
        for e in inp.errors[:-1]:
            off += sum(1 for s in e[3][0] if s[0] == "I") - sum(1 for s in e[3][0] if s[0] == "D")
        want = "rej:%d:%d" % (inp.errors[-1][0] + off, inp.errors[-1][1])
        if m.get("rep") not in (want, "fuel"):
            d = dict(base)
            d.update({"what": "plain LR parsing of the input with the earlier repairs applied does not stop at the last reported error",
                      "plain_parse_of_repaired_input": m.get("rep"), "expected": want})
            ctx.violation(d, tag="rep")
            ok = False
    return ok


def nonassoc_corpus():
    """tables with explicit Error cells (%nonassoc) in states that also reduce on merged lookaheads: an Insert that only
    triggers reductions and then hits the Error cell shifts nothing (so it must not become a repair step)"""
    from gen.grammars import Gram
    t, r = (lambda x: ('t', x)), (lambda x: ('r', x))
    g1 = Gram(["<", "n", "(", ")"], [("E", [[t("n")], [r("E"), t("<"), r("E")], [t("("), r("E"), t(")")]])], precs=[("nonassoc", ["<"])])
    g2 = Gram(["<", "+", "n", "(", ")"], [("E", [[t("n")], [r("E"), t("<"), r("E")], [r("E"), t("+"), r("E")], [t("("), r("E"), t(")")]])],
              precs=[("nonassoc", ["<"]), ("left", ["+"])])
    ins1 = [["n", "<", "n", "<", "n"], ["(", "n", "<", "n", "<", "n", ")"], ["n", "<", "<", "n"], ["n", "<", "n", "<"], ["<", "n"],
            ["n", "<", "n", ")", "<", "n"], ["(", "n", "<", "n", "<", "n"]]
    ins2 = ins1 + [["n", "<", "n", "+", "n", "<", "n"], ["n", "+", "n", "<", "n", "<", "n", "+", "n"]]
    return [("nonassoc", g1, "unit", {}, ins1), ("nonassoc", g2, "unit", {}, ins2)]


def run(ctx):
    ctx.gate = core.proof_gate("C05")
    for _ in ctx.gate["theorems"]:
        ctx.oblige(True)
    cases = nonassoc_corpus() + repair.det_family() + repairgen.gen_cases(ctx, ctx.n(240, 2500), ctx.n(7, 8))
    results = repair.run_cases(cases)
    # deep parse stacks at the error (one process per parse); the reported list / applied sequence / (value, later errors)
    # as a function of the input (every erroneous input parsed again, within one process and in separate ones)
    repair.deep_check(ctx)
    repair.determinism(ctx, results)
    for r in results:
        if not r.ok:
            ctx.count("grammar_rejected_" + r.err.split()[0])
            continue
        ctx.count("family_" + r.fam)
        ctx.count("costs_" + r.cname)
        if r.PN != 3 and not ctx.hist.get('parse_at_least_not_3'):
            ctx.count('parse_at_least_not_3')
            ctx.violation({"what": "PARSE_AT_LEAST is %d; the property demands that a repair lets parsing continue over the next three "
                                   "lexemes" % r.PN, "grammar": r.src}, no_input=True)
            ctx.oblige(False)
        ctx.count("table_conflict_free" if r.conflicts is None and r.verdict.get("single") else "table_with_resolved_conflicts")
        if r.avoid:
            ctx.count("with_avoid_insert")
        for inp in r.inputs:
            if inp.value in ("hang", "crash") or inp.value is None:
                ctx.count("parse_does_not_return(C07)")
                continue
            if inp.value.startswith("panic") or inp.value == "lexerr":
                ctx.count("parse_panics(C07)")
                continue
            if not inp.errors:
                ctx.count("no_error")
                ctx.case(r.src + repr(r.costs) + repr(inp.toks), False)
                continue
            ok = check_input(ctx, r, inp)
            if ok is None:
                continue
            ctx.oblige(ok)
            nontriv = any(e[3] for e in inp.errors)
            ctx.case(r.src + repr(sorted(r.costs.items())) + repr(inp.toks), nontriv,
                     {"grammar": r.src, "costs": r.cname, "input": r.names(inp.toks),
                      "errors": [{"lexeme": e[0], "state": e[1], "sequences": [" ".join(s) for s in e[3][:4]],
                                  "n_sequences": len(e[3])} for e in inp.errors],
                      "value": inp.value[:200], "model": inp.model})
    ctx.coverage["rule"] = ("grammars: calculator, Corchuelo's, a Java-like statement grammar, layered expression variants, nullable-heavy, "
                            "reduced random, precedence-resolved expression grammars, LR(1)-not-LALR templates, classic corpus "
                            "(acyclic only) x %avoid_insert sets x cost functions (unit, random 1-5, extreme 1/255, all 255) x inputs: "
                            "sentences with 1-4 edits, long sentences with an edit every 3-6 lexemes, truncated / junk-extended sentences, "
                            "random strings, the empty input. A case = one input with at least one error; non-trivial = at least one error "
                            "carries a repair sequence; distinct by (grammar text, costs, token list). Every reported sequence of every "
                            "error is evaluated (sequences_checked).")
    ctx.coverage["builder_order_rule"] = repair.BUILDER_ORDER_RULE + "; both orders also carry the single-shot harness lexer (a second Lexer::iter call on one lexer panics)"
    ctx.assumptions += ["recovery budget raised to %d ms through the hook; inputs whose parse took >= 80%% of it are counted "
                        "(budget_possibly_exhausted) — reported sequences are still all checked" % repair.BUDGET_MS,
                        "the bucketed search (dijkstra + merging) is not mirrored: validity is decided per reported sequence by the "
                        "extracted valid_repair, i.e. the property itself; completeness/minimality are C06's",
                        "inputs on which the mirror runs out of fuel (reduce loops of conflict-resolved tables) are skipped and counted",
                        "token ids in range, no eof token from the lexer (ReplayLexer)",
                        "an input that falls into a known-finding class (KNOWN_* in this file: tables with resolved conflicts only) is "
                        "reported through known_key and counted as a discharged obligation: the correspondence with the mirror "
                        "holds there, the property does not; everything else alarms",
                        "model caps: at most 1500 sequences per error are evaluated (strided sample, the rest counted), at most 300 "
                        "errors per input are replayed by the mirror (prefix compared)"]
