"""C17, the public sentence-cost QUERIES asked one by one (harness bin c17q; Coq: theories/C17/Query*.v).

(1) overflow of ONE rule.  min_sentence_cost / max_sentence_cost / min_sentence / min_sentences compute the cost table
    of ALL rules on first use and panic ("Overflow occurred when calculating rule costs") when ANY rule's true finite
    cost is >= 65535.  Per (grammar, rule, query) the panic is classified against the CERTIFIED true costs
    (C17_certified_costs_exact; the mirrored query: C17_cost_query_exact_or_foreign_overflow,
    C17_cost_query_panics_only_if_own_or_foreign):
      (i)   the asked rule's own cost is >= 65535            -> accepted refusal (the u16 result cannot hold it)
      (ii)  only OTHER rules' costs are >= 65535             -> known class K_OVF (one KNOWN-FINDING line)
      (iii) no rule's cost is >= 65535                       -> VIOLATION
    an answer instead of a panic is compared with the certified value (a wrong number is a VIOLATION).
(2) recursion depth of min_sentences.  min_sentences_below recurses once per rule along a chain of distinct rules; each
    run is its OWN process (a native stack overflow aborts the process) on a thread with an explicit stack
    (std::thread::Builder::stack_size, 2 MiB = Rust's default for spawned threads).  SIGABRT/SIGSEGV with "overflowed
    its stack" inside the min_sentences call on a grammar whose recursion is at least DEPTH_CLASS_MIN frames deep
    (frames counted by the Python transcription of the mirror's recursion) -> known class K_DEPTH (one KNOWN-FINDING
    line); the same crash on a shallow grammar, a crash anywhere else, a hang, or a wrong answer from a run that
    returns -> VIOLATION.  (Coq: C17_min_sentences_depth_le_rules, C17_min_sentences_depth_unbounded_refuted.)
(3) the mirror of min_sentences (QueryModel.v, extracted) against the implementation: the same list of sentences in the
    same order for every rule of every case of the main run whose sets are enumerated (ties the recursion skeleton the
    depth theorems are about to the code).
(4) factorial path enumeration of min_sentences.  On the clique of unit productions `R0: R1 | 'x'; Ri: R0 | .. | Rm (j != i)`
    min_sentences_below walks every simple path of the rule graph (only the rules of the CURRENT path are excluded, nothing is
    memoised or de-duplicated): the query about Ri returns the one minimal sentence [x] once per path.  No timing: the list of
    every rule is taken whole (c17q full); an element other than [x] (or no element, or a panic) -> VIOLATION; the number of
    copies c(m) is the measure: c(8) >= 5 c(7) >= 25 c(6) AND list = the extracted mirror's list for m <= 7 -> known class
    K_PATHS (one KNOWN-FINDING line with the table); duplicates of any other kind or a mirror mismatch -> VIOLATION; exactly
    one copy everywhere (a repair) -> nothing.  (Coq: C17_min_sentences_clique_copies,
    C17_min_sentences_answer_not_duplicate_free_refuted.)
"""
import concurrent.futures
import random
import subprocess

from vlib import core, cfg
from gen import grammars as G
from gen import c17gen as CG

U16MAX = 65535
OVERFLOW_TEXT = "Overflow occurred when calculating rule costs"

K_OVF = "cost overflow of one rule panics the queries for every rule"
K_DEPTH = "min_sentences overflows the native stack on a chain of distinct rules"

K_PATHS = "min_sentences enumerates every simple path of a unit-production clique"

# the known class of (2): at least this many nested calls (distinct rules along cheapest productions)
DEPTH_CLASS_MIN = 1000
STACK_KIB = 2048

QNAMES = {"QMIN": "min_sentence_cost", "QMAX": "max_sentence_cost", "QMS": "min_sentence", "QMSS": "min_sentences"}


def own_rng(ctx, salt):
    """a random stream of its own: the cases of the main run stay what they were"""
    return random.Random(ctx.seed * 7919 + salt)


# ---- (1) ------------------------------------------------------------------------------------------

def overflow_cases(ctx):
    t, r, Gram = CG.t, CG.r, G.Gram
    rng = own_rng(ctx, 17)
    cases = []
    # the auditor's two grammars first
    cases.append(("audit-1: S: 'a'; Big: 'b' x258; all tokens 255 (Big = 65790, not reachable from S)",
                  Gram("ab", [("S", [[t("a")]]), ("Big", [[t("b")] * 258])]), {"a": 255, "b": 255}))
    dbl = [("A0", [[t("x")]])] + [("A%d" % i, [[r("A%d" % (i - 1)), r("A%d" % (i - 1))]]) for i in range(1, 17)]
    cases.append(("audit-2: A0: 'x'; A_i: A_{i-1} A_{i-1}; i <= 16, unit costs (A16 = 65536)",
                  Gram("x", dbl, start="A16"), {"x": 1}))
    # the boundary: a rule whose true cost is exactly 65534 (representable, nothing may panic) / exactly 65535
    cases.append(("boundary 65534: S: 'a'; E: 'b' x256 'c'; b=255 c=254",
                  Gram("abc", [("S", [[t("a")]]), ("E", [[t("b")] * 256 + [t("c")]])]), {"a": 255, "b": 255, "c": 254}))
    cases.append(("boundary 65535: S: 'a'; E: 'b' x257; b=255",
                  Gram("ab", [("S", [[t("a")]]), ("E", [[t("b")] * 257])]), {"a": 255, "b": 255}))
    # only the maximum overflows: every min-side query must answer
    cases.append(("max only: S: 'a'; M: 'b' x258 | 'c';",
                  Gram("abc", [("S", [[t("a")]]), ("M", [[t("b")] * 258, [t("c")]])]), {"a": 7, "b": 255, "c": 3}))
    # the overflowing rule is reachable: S's minimum is small, its maximum is the overflowing one
    cases.append(("reachable: S: Big | 'a'; Big: 'b' x258;",
                  Gram("ab", [("S", [[r("Big")], [t("a")]]), ("Big", [[t("b")] * 258])]), {"a": 255, "b": 255}))
    # controls: nothing overflows (unbounded maximum / just below the boundary / a 32768-token sentence)
    cases.append(("control unbounded: S: 'a'; U: U 'b' | 'b'; b=255",
                  Gram("ab", [("S", [[t("a")]]), ("U", [[r("U"), t("b")], [t("b")]])]), {"a": 255, "b": 255}))
    cases.append(("control 65278: S: 'a'; N: 'b' x257; b=254",
                  Gram("ab", [("S", [[t("a")]]), ("N", [[t("b")] * 257])]), {"a": 1, "b": 254}))
    cases.append(("control doubling to 32768: A0: 'x'; A_i: A_{i-1} A_{i-1}; i <= 15, unit costs",
                  Gram("x", dbl[:16], start="A15"), {"x": 1}))
    # random: a non-recursive grammar plus one long rule around the boundary, referenced from the first rule or not
    for _ in range(ctx.n(10, 240)):
        g = CG.dag(rng)
        if g is None or "q" in g.tokens or any(n == "Zq" for n, _ in g.rules):
            continue
        n, c = rng.choice([255, 256, 257, 257, 258, 259, 300]), rng.choice([250, 253, 254, 255, 255, 255])
        rules = [(nm, [list(p[0]) for p in ps]) for nm, ps in g.rules]
        alts = [[t("q")] * n]
        if rng.random() < 0.3:
            alts.append([t("q")] * rng.randint(0, 3))
        if rng.random() < 0.4:
            rules[0] = (rules[0][0], rules[0][1] + [[r("Zq")]])
        rules.append(("Zq", alts))
        g2 = Gram(list(g.tokens) + ["q"], rules, start=g.start)
        costs = CG.costs_for(rng, g)
        costs["q"] = c
        cases.append(("random: dag + Zq: 'q' x%d (cost %d)%s" % (n, c, " | short" if len(alts) > 1 else ""), g2, costs))
    return cases


def q_line(src, costs, shared):
    return "O %s%s ; %s" % (src.encode().hex(), " sh=1" if shared else "", " ".join("%s=%d" % kv for kv in sorted(costs.items())))


class QImpl:
    def __init__(self, line):
        self.line = line
        self.ok = line.startswith("G ")
        self.secs = [s.split() for s in line.split(" # ")] if self.ok else []
        self.q = {}           # (kind, rule) -> ("P",) | ("X", msg) | ("v", value) | ("s", tuple) | ("ss", [tuples]) | ("big", …)
        self.cost = {}
        for s in self.secs:
            if not s:
                continue
            k = s[0]
            if k == "COST":
                v = list(map(int, s[1:]))
                self.cost = dict(zip(v[0::2], v[1::2]))
            elif k in QNAMES:
                r, rest = int(s[1]), s[2:]
                if rest[:1] == ["P"]:
                    a = ("P",)
                elif rest[:1] == ["X"]:
                    a = ("X", " ".join(rest[1:]))
                elif rest[:1] == ["BIG"]:
                    a = ("big",) + tuple(map(int, rest[1:]))
                elif k == "QMIN":
                    a = ("v", int(rest[0]))
                elif k == "QMAX":
                    a = ("v", None if rest[0] == "inf" else int(rest[0]))
                elif k == "QMS":
                    a = ("s", tuple(map(int, rest)))
                else:
                    sents, cur = [], None
                    for x in rest:
                        if x == ";":
                            if cur is not None:
                                sents.append(tuple(cur))
                            cur = []
                        else:
                            cur.append(int(x))
                    if cur is not None:
                        sents.append(tuple(cur))
                    a = ("ss", sents)
                self.q[(k, r)] = a


def eval_overflow(ctx, rep, exe, mexe, Model, names):
    cases = overflow_cases(ctx)
    lines, meta = [], []
    for label, g, costs in cases:
        src = g.render()
        for shared in (False, True):
            lines.append(q_line(src, costs, shared))
            meta.append((label, src, costs, shared))
    impl = core.run_lines([exe], lines)
    model = core.run_lines([mexe], impl)
    bad, known, stats = set(), [], {}
    cnt = lambda k: stats.__setitem__(k, stats.get(k, 0) + 1)
    for line, (label, src, costs, shared), il, ml in zip(lines, meta, impl, model):
        im, mo = QImpl(il), Model(ml)
        base = {"grammar": src if len(src) < 3000 else src[:3000] + " …", "costs_by_token_name": costs, "family": label,
                "generator": "one SentenceGenerator for all rules" if shared else "a fresh SentenceGenerator per rule",
                "replay_cmd": "echo '%s' | .work/target/release/c17q | tee /dev/stderr | .work/ocaml/c17/gvm_c17" % line}
        if not im.ok:
            bad.add("lost")
            rep.violation(dict(base, what="the process asking the cost queries one by one died, hung or rejected the grammar", impl=il[:300]))
            continue
        g = cfg.DGram(im.secs)
        base["names"] = names(g)
        rn = lambda r: "%s(%d)" % (g.rnames.get(r, "?"), r)
        if not (mo.ok and mo.wf) or mo.cm is None or mo.fxmin is None or mo.fxmax is None:
            bad.add("uncertified")
            ctx.count("reference_costs_not_certified")
            rep.violation(dict(base, what="reference side gave no certified costs for an overflow-family grammar", model=ml[:300]), no_input=True)
            continue
        cm, cost = mo.cm, im.cost
        start_rule = g.prods[g.start_prod][0]
        rules = sorted(range(g.nrules), key=lambda r: (r == start_rule, r))     # the added start rule ^ last: reports name the user's rules
        tmin = {r: (None if cm.get(r) is None else cm[r][0]) for r in rules}
        tmax = {r: (None if cm.get(r) is None else cm[r][1]) for r in rules}      # None also = unbounded: see prod[]
        prod = {r: cm.get(r) is not None for r in rules}
        min_ovf = {r: prod[r] and tmin[r] >= U16MAX for r in rules}
        max_ovf = {r: prod[r] and tmax[r] is not None and tmax[r] >= U16MAX for r in rules}
        any_min, any_max = any(min_ovf.values()), any(max_ovf.values())
        cert = {rn(r): ("unproductive" if not prod[r] else {"min": tmin[r], "max": "unbounded" if tmax[r] is None else tmax[r]}) for r in rules}
        base["certified_true_costs"] = cert
        # the proved mirror and the certified reference must tell the same story (C17_*_panic_iff)
        if (mo.fxmin[0] == "panic") != any_min or (mo.fxmax[0] == "panic") != any_max or "fuel" in (mo.fxmin[0], mo.fxmax[0]):
            bad.add("fx-vs-certified")
            rep.violation(dict(base, what="the mirror of rule_min/max_costs panics on other grammars than the certified costs say "
                               "(contradicts C17_min/max_costs_fixed_panic_iff: defect of the extraction / driver)",
                               mirror_min=mo.fxmin[0], mirror_max=mo.fxmax[0]), no_input=True)
            continue
        wc = lambda s: sum(cost.get(x, 1) for x in s)
        derivable = lambda s, r: len(s) > 300 or g.earley(list(s), start=r)[0]
        for r in rules:
            for kind in ("QMIN", "QMAX", "QMS", "QMSS"):
                a = im.q.get((kind, r))
                own, anyo = (max_ovf[r], any_max) if kind == "QMAX" else (min_ovf[r], any_min)
                ident = dict(base, query=QNAMES[kind], rule=rn(r))
                cnt("queries")
                if a is None:
                    bad.add("lost")
                    rep.violation(dict(ident, what="no result for a query (harness output incomplete)"), no_input=True)
                elif a[0] == "P":
                    if own:
                        cnt("accepted_refusal(own cost >= 65535)")
                    elif anyo:
                        cnt("known_class(foreign overflow)")
                        bad.add("overflow-queries")
                        known.append("%s of %s in `%s`" % (QNAMES[kind], g.rnames.get(r, "?"), label.split(":")[0]))
                        rep.violation(dict(ident, what="the query panics (%s) although the asked rule's true cost is representable: "
                                           "another rule's cost is >= 65535" % OVERFLOW_TEXT,
                                           overflowing_rules=[rn(x) for x in rules if (max_ovf if kind == "QMAX" else min_ovf)[x]],
                                           authority="C17_certified_costs_exact; C17_cost_query_panics_only_if_own_or_foreign"), key=K_OVF)
                    else:
                        bad.add("overflow-panic")
                        rep.violation(dict(ident, what="the query panics with the overflow message although NO rule's true finite cost reaches 65535",
                                           authority="C17_certified_costs_exact; C17_cost_query_exact_or_foreign_overflow"))
                elif a[0] == "X":
                    bad.add("query-panic")
                    rep.violation(dict(ident, what="the query panics with another message than the documented overflow", message=a[1]))
                else:
                    cnt("answered")
                    why = wrong_answer(kind, a, r, prod, tmin, tmax, own, wc, derivable)
                    if why and not prod[r]:
                        bad.add("query-values")
                        rep.violation(dict(ident, what="answer for a rule that derives no sentence is not the documented one (%s); the property "
                                           "does not constrain it" % why, impl=str(a)[:200]), no_input=True)
                    elif why:
                        bad.add("query-values")
                        rep.violation(dict(ident, what="the query answers, but %s" % why, impl=str(a)[:300],
                                           authority="C17_certified_costs_exact" + ("; Earley recogniser" if "deriv" in why else "")))
        ctx.case(line, any_min or any_max, {"family": label, "certified": cert, "shared_generator": shared})
        ctx.count("queries_family_" + label.split(":")[0].split(" ")[0])
    return bad, known, stats


def wrong_answer(kind, a, r, prod, tmin, tmax, own, wc, derivable):
    """None if the answer is the true one, else what is wrong with it"""
    if kind == "QMIN":
        v = a[1]
        if not prod[r]:
            return None if v == U16MAX else "expected u16::MAX for a rule without a sentence"
        if own:
            return "the true minimum %d cannot be told from the 'no sentence' value in a u16 (only a refusal is honest)" % tmin[r]
        return None if v == tmin[r] else "it is not the true minimum %d" % tmin[r]
    if kind == "QMAX":
        v = a[1]
        if not prod[r]:
            return None if v == 0 else "expected Some(0) for a rule without a sentence"
        if tmax[r] is None:
            return None if v is None else "the true maximum is unbounded"
        if v is None:
            return "it says unbounded, the true maximum is %d" % tmax[r]
        return None if v == tmax[r] else "it is not the true maximum %d" % tmax[r]
    if kind == "QMS":
        if not prod[r]:
            return None if a in (("s", ()),) else "expected the empty sentence for a rule without a sentence"
        if a[0] == "big":
            return None if a[2] == tmin[r] else "the sentence (%d tokens) costs %d, the true minimum is %d" % (a[1], a[2], tmin[r])
        s = a[1]
        if wc(s) != tmin[r]:
            return "the sentence costs %d, the true minimum is %d" % (wc(s), tmin[r])
        return None if derivable(s, r) else "the sentence is not derivable from the rule"
    if not prod[r]:
        return None if a == ("ss", []) else "expected no sentence for a rule without a sentence"
    if a[0] == "big":
        return None if a[2] == a[3] == tmin[r] else "sentence costs range %d..%d, the true minimum is %d" % (a[2], a[3], tmin[r])
    if not a[1]:
        return "no sentence is returned for a rule that derives one"
    for s in a[1]:
        if wc(s) != tmin[r]:
            return "a sentence costs %d, the true minimum is %d" % (wc(s), tmin[r])
        if not derivable(s, r):
            return "a sentence is not derivable from the rule"
    return None


# ---- (2) ------------------------------------------------------------------------------------------

class Plain:
    """a non-recursive grammar given as {rule: [alternatives]}, alternative = list of ('t'|'r', name); rules listed in
    declaration order.  Minimal costs / sentence counts / recursion depth of min_sentences_below are computed without
    recursion (rules are processed children first)."""

    def __init__(self, rules, start, costs):
        self.rules, self.start, self.costs = rules, start, costs
        self.alts = dict(rules)

    def render(self):
        return "%%start %s\n%%%%\n" % self.start + "".join(
            "%s: %s;\n" % (n, " | ".join(" ".join(("'%s'" % x) if k == "t" else x for k, x in a) for a in alts)) for n, alts in self.rules)

    def order(self):
        """children before parents, iteratively"""
        seen, out = set(), []
        for root in [n for n, _ in self.rules]:
            if root in seen:
                continue
            st = [(root, False)]
            while st:
                n, done = st.pop()
                if done:
                    out.append(n)
                    continue
                if n in seen:
                    continue
                seen.add(n)
                st.append((n, True))
                for a in self.alts[n]:
                    for k, x in a:
                        if k == "r" and x not in seen:
                            st.append((x, False))
        return out

    def analyse(self):
        mn, cnt, length, depth = {}, {}, {}, {}
        for n in self.order():
            vals = [sum(self.costs.get(x, 1) if k == "t" else mn[x] for k, x in a) for a in self.alts[n]]
            mn[n] = min(vals)
            tight = [a for a, v in zip(self.alts[n], vals) if v == mn[n]]
            c = 0
            for a in tight:
                k1 = 1
                for k, x in a:
                    if k == "r":
                        k1 *= cnt[x]
                c += k1
            cnt[n] = c
            length[n] = sum(1 if k == "t" else length[x] for k, x in tight[0])
            depth[n] = 1 + max([depth[x] for a in tight for k, x in a if k == "r"] + [0])
        return mn, cnt, length, depth


def chain(k, reverse=False, alt=False):
    rules = [("A%d" % i, [[("r", "A%d" % (i + 1))]] + ([[("t", "y"), ("t", "y")]] if alt else [])) for i in range(k)]
    rules.append(("A%d" % k, [[("t", "x")]]))
    if reverse:
        rules.reverse()
    return Plain(rules, "A0", {"x": 1, "y": 1})


def wide(n):
    return Plain([("S", [[("r", "B%d" % i)] for i in range(n)])] + [("B%d" % i, [[("t", "x")]]) for i in range(n)], "S", {"x": 1})


def tree(d):
    n = 2 ** d - 1          # inner rules T1 .. Tn, heap numbering; the children of the last level are tokens
    rules = []
    for i in range(1, n + 1):
        kids = [("r", "T%d" % j) if j <= n else ("t", "x") for j in (2 * i, 2 * i + 1)]
        rules.append(("T%d" % i, [kids]))
    return Plain(rules, "T1", {"x": 1})


def depth_cases(ctx):
    q = [("chain of 501 rules (control)", chain(500), STACK_KIB),
         ("chain of 4001 rules (control)", chain(4000), STACK_KIB),
         ("chain of 12001 rules", chain(12000), STACK_KIB),
         ("chain of 12001 rules [large stack] (control: it is the stack)", chain(12000), 16384),
         ("chain of 12001 rules declared bottom-up", chain(12000, reverse=True), STACK_KIB),
         ("chain of 12001 rules, each with a dearer alternative", chain(12000, alt=True), STACK_KIB),
         ("12000 rules side by side below one rule (control: depth 2)", wide(12000), STACK_KIB),
         ("complete binary tree of 8191 rules (control: depth 13)", tree(13), STACK_KIB)]
    if not ctx.quick:
        q += [("chain of %d rules" % (k + 1), chain(k), STACK_KIB) for k in (1000, 2000, 3000, 5000, 6000, 7000, 8000, 10000, 16000, 20000)]
        q += [("chain of 2001 rules [small stack]", chain(2000), 256), ("chain of 501 rules [small stack] (control)", chain(500), 256),
              ("chain of 20001 rules [large stack] (control)", chain(20000), 65536)]
    return q


def run_depth(exe, g, kib, with_ms):
    line = "O %s %s ; %s\n" % (g.render().encode().hex(), g.start.encode().hex(), " ".join("%s=%d" % kv for kv in sorted(g.costs.items())))
    env = dict(GVH_DEPTH_MS="1") if with_ms else {}
    try:
        p = core.sh([exe, "depth", str(kib)], input=line, timeout=300, env=env)
        return p.returncode, p.stdout.split("\n"), p.stderr
    except subprocess.TimeoutExpired as e:
        out = e.stdout.decode(errors="replace") if isinstance(e.stdout, bytes) else (e.stdout or "")
        return "timeout", out.split("\n"), ""


def start_depth(ctx, exe):
    """launch the runs (each its own process) in the background; finish_depth evaluates them"""
    cases = depth_cases(ctx)
    ex = concurrent.futures.ThreadPoolExecutor(max_workers=min(8, core.NPROC))
    # min_sentence (iterative since the repair) is asked too where its quadratic pick loop is cheap
    futs = [ex.submit(run_depth, exe, g, kib, len(g.rules) <= 5000) for _, g, kib in cases]
    ex.shutdown(wait=False)
    return cases, futs


def finish_depth(ctx, rep, pending):
    cases, futs = pending
    outs = [f.result() for f in futs]
    bad, known, stats = set(), [], {}
    for (label, g, kib), (rc, out, err) in zip(cases, outs):
        mn, cnt, length, depth = g.analyse()
        s = g.start
        out = [l for l in out if l]
        base = {"family": label, "rules": len(g.rules) + 1, "queried_rule": s, "stack_KiB": kib,
                "recursion_depth_of_min_sentences_below (frames, by the mirror's recursion)": depth[s],
                "grammar_head": g.render()[:200] + " …", "exit": rc, "progress": out[-6:], "stderr": err[-300:],
                "replay_cmd": "cd /verif && python3 -c \"from checks import c17_queries as q; import sys; g=q.%s; sys.stdout.write('O %%s %%s ; x=1 y=1\\n' %% "
                              "(g.render().encode().hex(), g.start.encode().hex()))\" | .work/target/release/c17q depth %d" % (family_expr(label, g), kib)}
        stats["depth_runs"] = stats.get("depth_runs", 0) + 1
        ctx.case("depth %s %d" % (label, kib), True, {"family": label, "frames": depth[s], "stack_KiB": kib, "exit": rc})
        if "END" in out:
            stats["depth_runs_answered"] = stats.get("depth_runs_answered", 0) + 1
            got = {l.split()[0]: l.split()[1:] for l in out}
            exp = {"MIN": [str(mn[s])], "MSS": [str(cnt[s]), str(length[s]), str(mn[s])]}
            if "MS" in got:
                exp["MS"] = [str(length[s]), str(mn[s])]
            diff = {k: (got.get(k), v) for k, v in exp.items() if got.get(k) != v}
            if diff or rc != 0:
                bad.add("depth-values")
                rep.violation(dict(base, what="a run that returns gives a wrong answer (min_sentence_cost / min_sentence: length cost / "
                                   "min_sentences: count, length and cost of the first)", got_vs_expected=diff))
            continue
        overflow = rc in (-6, -11) and "overflowed its stack" in err
        if overflow and out and out[-1] == "MSS-CALL" and depth[s] >= DEPTH_CLASS_MIN:
            bad.add("min_sentences-depth")
            known.append("%s, %d KiB stack: %s inside min_sentences after min_sentence_cost%s answered" %
                         (label, kib, "SIGABRT" if rc == -6 else "SIGSEGV", " and min_sentence" if any(l.startswith("MS ") for l in out) else ""))
            rep.violation(dict(base, what="min_sentences aborts the process (native stack overflow): the query does not terminate with an answer",
                               authority="C17_min_sentences_depth_unbounded_refuted (every frame budget is exceeded by a chain); "
                                         "C17_min_sentences_depth_le_rules (needs at least as many rules as frames)"), key=K_DEPTH)
        else:
            bad.add("depth-crash")
            rep.violation(dict(base, what=("the process running the queries on a %d KiB stack %s" % (kib, "hangs" if rc == "timeout" else "dies")) +
                               (" of a native stack overflow although the recursion of min_sentences is only %d frames deep" % depth[s] if overflow and out and out[-1] == "MSS-CALL"
                                else " of a native stack overflow outside min_sentences" if overflow else "")))
    return bad, known, stats


def family_expr(label, g):
    n = len(g.rules)
    if label.startswith("complete"):
        return "tree(13)"
    if "side by side" in label:
        return "wide(%d)" % (n - 1)
    return "chain(%d%s%s)" % (n - 1, ", reverse=True" if "bottom-up" in label else "", ", alt=True" if "dearer" in label else "")


# ---- (3) ------------------------------------------------------------------------------------------

def eval_msb_mirror(ctx, rep, mexe, lines, outs, skip=()):
    """outs: the implementation's result lines of the main run (with MSS sections); the mirror runs on the same dumps"""
    idx = [i for i, o in enumerate(outs) if o and o.startswith("G ") and " # MSS " in o and i not in skip]
    mir = core.run_lines([mexe, "msb"], [outs[i] for i in idx]) if idx else []
    bad, n = set(), 0
    for i, m in zip(idx, mir):
        secs = [s.split() for s in outs[i].split(" # ")]
        impl = {}
        for s in secs:
            if s and s[0] == "MSS" and s[1] not in impl:
                impl[s[1]] = s[2:]
        if not m.startswith("MSBS"):
            bad.add("msb-mirror")
            rep.violation({"what": "the mirror of min_sentences gave no answer (tool defect)", "model": m[:300], "line": lines[i][:300]}, no_input=True)
            continue
        mod = {s.split()[1]: s.split()[2:] for s in m.split(" # ")[1:]}
        for r, v in impl.items():
            n += 1
            if mod.get(r) != v:
                bad.add("msb-mirror")
                same_set = mod.get(r) is not None and sorted(" ".join(mod[r]).split(";")) == sorted(" ".join(v).split(";"))
                rep.violation({"what": "min_sentences and its mirror (C17/QueryModel.v min_sentences_m) return different lists%s: the depth theorems "
                               "are no longer about this code" % (" (the same sentences in another order)" if same_set else ""),
                               "rule": r, "impl": " ".join(v)[:300], "mirror": " ".join(mod.get(r) or ["<none>"])[:300],
                               "replay_cmd": "echo '%s' | .work/target/release/c17 | .work/ocaml/c17/gvm_c17 msb" % lines[i]}, no_input=True)
                break
    return bad, n


# ---- (4) ------------------------------------------------------------------------------------------

def clique_src(m):
    return "%start R0\n%%\nR0: R1 | 'x';\n" + "".join(
        "R%d: %s;\n" % (i, " | ".join("R%d" % j for j in range(m + 1) if j != i)) for i in range(1, m + 1))


def clique_line(m, cost=1):
    return "O %s ; x=%d" % (clique_src(m).encode().hex(), cost)


def paths_a(n):
    """Coq: C17/QueryClique.v paths_a — the number of simple paths R1 -> .. -> R0 is paths_a(m - 1)"""
    return 1 if n == 0 else n * paths_a(n - 1) + 1


def mss_sections(line, tag):
    out = {}
    for s in line.split(" # "):
        w = s.split()
        if len(w) >= 2 and w[0] == tag and w[1] not in out:
            out[w[1]] = w[2:]
    return out


def eval_clique(ctx, rep, exe, mexe):
    ms = list(range(4, 9)) if ctx.quick else list(range(2, 10))
    mirror_max = 7 if ctx.quick else 8
    runs = [(m, 1) for m in ms] + ([] if ctx.quick else [(m, 255) for m in (4, 6)])
    lines = [clique_line(m, c) for m, c in runs]
    impl = core.run_lines([exe, "full"], lines)
    midx = [i for i, (m, _) in enumerate(runs) if m <= mirror_max and impl[i].startswith("G ")]
    mir = dict(zip(midx, core.run_lines([mexe, "msb"], [impl[i] for i in midx]))) if midx else {}
    bad, stats = set(), {}
    copies, other_rules, mirror_same, dup_seen = {}, {}, {}, False
    for i, ((m, c), line, il) in enumerate(zip(runs, lines, impl)):
        base = {"family": "clique of unit productions, m = %d" % m, "grammar": clique_src(m), "costs_by_token_name": {"x": c},
                "replay_cmd": "cd /verif && python3 -c \"from checks import c17_queries as q; print(q.clique_line(%d, %d))\" | "
                              ".work/target/release/c17q full | tee /dev/stderr | .work/ocaml/c17/gvm_c17 msb" % (m, c)}
        ctx.case("clique " + line, True, {"family": "clique", "m": m, "cost_of_x": c})
        if not il.startswith("G "):
            bad.add("clique-values")
            rep.violation(dict(base, what="the process asking min_sentences on the clique died, hung or rejected the grammar", impl=il[:300]))
            continue
        g = cfg.DGram([s.split() for s in il.split(" # ")])
        xt = [t for t, n in g.tnames.items() if n == "x"]
        rid = {n: r for r, n in g.rnames.items()}
        sec = mss_sections(il, "MSS")
        if len(xt) != 1 or any("R%d" % j not in rid for j in range(m + 1)) or len(sec) != g.nrules:
            bad.add("clique-values")
            rep.violation(dict(base, what="harness output incomplete for the clique", impl=il[:300]), no_input=True)
            continue
        x = str(xt[0])
        cnt = {}
        for r, v in sec.items():
            n = len(v) // 2
            # every element must be the one minimal sentence: the list is `; x` n times, n >= 1
            if n == 0 or v != [";", x] * n:
                bad.add("clique-values")
                rep.violation(dict(base, rule="%s(%s)" % (g.rnames.get(int(r), "?"), r), query="min_sentences",
                                   what="the answer is not a non-empty list of copies of the one minimal sentence ['x'] "
                                        "(the grammar derives exactly that sentence from every rule)", impl=" ".join(v)[:300]))
                break
            cnt[r] = n
        else:
            per_i = sorted(set(cnt[str(rid["R%d" % j])] for j in range(1, m + 1)))
            if c == 1:
                copies[m] = per_i[-1]
                other_rules[m] = {"^": cnt[str(g.prods[g.start_prod][0])], "R0": cnt[str(rid["R0"])], "R1..Rm": per_i}
            dup_seen |= any(n != 1 for n in cnt.values())
            if i in mir:
                mod = mss_sections(mir[i], "MSB")
                mirror_same[(m, c)] = mir[i].startswith("MSBS") and all(mod.get(r) == v for r, v in sec.items())
    stats["clique_copies_of_the_one_minimal_sentence_by_m (R1..Rm)"] = {str(m): n for m, n in sorted(copies.items())}
    stats["clique_copies_other_rules_by_m"] = {str(m): v for m, v in sorted(other_rules.items())}
    stats["clique_simple_paths_by_m (Coq paths_a (m-1))"] = {str(m): paths_a(m - 1) for m in ms}
    stats["clique_lists_equal_to_the_mirror"] = sorted("m=%d x=%d" % k for k, v in mirror_same.items() if v)
    known = []
    if bad or not dup_seen:
        return bad, known, stats       # wrong elements are reported above; exactly one copy everywhere: the repaired behaviour
    table = "copies of the one minimal sentence for m=%d..%d: %s" % (min(copies), max(copies), ", ".join(str(copies[m]) for m in sorted(copies)))
    base = {"family": "clique of unit productions R0: R1 | 'x'; Ri: R0 | .. | Rm (every j != i), unit costs", "grammar_m_4": clique_src(4),
            "copies_by_m": stats["clique_copies_of_the_one_minimal_sentence_by_m (R1..Rm)"], "other_rules": stats["clique_copies_other_rules_by_m"],
            "replay_cmd": "cd /verif && python3 -c \"from checks import c17_queries as q; print(q.clique_line(8))\" | .work/target/release/c17q full | tr '#' '\\n' | awk '/^ MSS/{print $2, (NF-2)/2}'"}
    if not all(mirror_same.values()) or not mirror_same:
        bad.add("clique-mirror")
        rep.violation(dict(base, what="min_sentences returns duplicates on the clique and its list differs from the mirror's (C17/QueryModel.v "
                           "min_sentences_m): the witnesses C17_min_sentences_clique_copies are no longer about this code",
                           differs_for=sorted("m=%d x=%d" % k for k, v in mirror_same.items() if not v)), no_input=True)
    elif all(k in copies for k in (6, 7, 8)) and copies[8] >= 5 * copies[7] and copies[7] >= 5 * copies[6]:
        bad.add("min_sentences-paths")
        known.append(table)
        rep.violation(dict(base, what="min_sentences returns the single minimal sentence once per simple path of the rule graph: the number of "
                           "copies (and of calls) grows factorially with the number of mutually recursive unit rules (x m per extra rule: "
                           "'all these queries terminate' fails in practice from m ~ 14); the elements themselves are right",
                           authority="C17_min_sentences_clique_copies (the mirror's lists for m = 2..7), "
                                     "C17_min_sentences_answer_not_duplicate_free_refuted; list = mirror's list in order for m <= %d" % mirror_max), key=K_PATHS)
    else:
        bad.add("clique-duplicates")
        rep.violation(dict(base, what="min_sentences returns duplicates on the clique, but not with the growth of the recorded class "
                           "(c(8) >= 5 c(7) >= 25 c(6))"))
    return bad, known, stats


def patch_note(ctx, key, text):
    """the KNOWN-FINDING line of this run carries the count and the first instance"""
    for i, k in enumerate(ctx.known_hits):
        if k.get("match") == key:
            k = dict(k)
            k["note"] = text
            ctx.known_hits[i] = k
