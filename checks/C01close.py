"""C01close — stand-alone runner of the Itemset::close / Itemset::goto part of C01 (see checks/c01_close.py).

Proof gate on theories/Properties/C01close.v, then the same grammar families as C01 (fewer inputs:
the inputs only serve the failing-input search after a mismatch), the `lr` harness dump of each, and
c01_close.run_part on every state and edge.
"""
from vlib import core, lr
from checks import C01, c01_close


def run(ctx):
    ctx.gate = core.proof_gate("C01close")
    for _ in ctx.gate["theorems"]:
        ctx.oblige(True)
    cases = C01.gen_cases(ctx, ctx.n(200, 2500), ctx.n(6, 20))
    results = lr.run_cases(cases)
    for r in results:
        if not r.ok:
            ctx.count("grammar_rejected_" + r.err.split()[0])
    c01_close.run_part(ctx, results, count_cases=True)
    ctx.coverage["rule"] = ("grammar families of C01 (classic corpus, grmtools test corpus, random, reduced, nullable-heavy, expression, "
                            "LR(1)-not-LALR, layered, chain); every state and every edge of each StateGraph; non-trivial = at least 4 "
                            "states and a core state with more than one item; distinct by grammar text")
    ctx.assumptions += ["FIRST / epsilon tables of the mirror are the proved-exact references (first_ref); that YaccFirsts equals them is C17's tie",
                        "rule_to_prods is taken in increasing production order and the hash-map orders are sampled (3 per state); the theorems "
                        "quantify over every order",
                        "`dot + 1` of Itemset::goto is unbounded addition in the mirror (index width: C20)"]
