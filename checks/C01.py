"""C01 — the generated parser recognises exactly the grammar's language.

Proof (theories/LR): for ANY grammar/automaton dump passing the boolean
validators, for ALL inputs: accepted => valid derivation of exactly the input
(lr_sound), never a panic (lr_never_panics), every sentence accepted with its
tree (lr_complete), no non-sentence accepted (lr_rejects_nonsentences).
Tie: (1) construction — the implementation's own item sets, edges and
table cells for every generated grammar are run through the extracted
validators; (2) run time — the extracted interpreter `run` and the real parser
are executed on the same table dump and token lists and must agree;
(3) construction, end to end (checks/c01_pipe.py) — the extracted composition
`from_yacc_mirror` of the mirrors of pager_stategraph and StateTable::new, about
which the theorems C01_construction_* are proved for all grammars, replays the
implementation's run and must rebuild its StateTable cell by cell.
Failing-input search: an independent Earley recogniser and a parse-tree
validity check decide every generated input directly.
"""
from vlib import core, lr, cfg
from gen import grammars as G


def gen_cases(ctx, n_grammars, n_inputs):
    rng = ctx.rng
    cases = []
    for g in G.classic_corpus():
        cases.append((g, G.inputs_for(rng, g, n_inputs * 2)))
    for src, ins, _ in G.rare_shape_corpus():
        g = G.from_text(src)
        ctx.count("family_rare_shapes")
        cases.append((g, [list(x) for x in ins] + G.inputs_for(rng, g, n_inputs)))
    for src in G.gc_chain_corpus()[:ctx.n(20, 60)] + G.gc_corpus()[:ctx.n(40, 120)]:
        g = G.from_text(src)
        ctx.count("family_gc_corpus")
        cases.append((g, G.inputs_for(rng, g, n_inputs)))
    fams = [("random", lambda: G.random_grammar(rng)),
            ("reduced", lambda: G.reduced_random_grammar(rng)),
            ("nullable", lambda: G.nullable_heavy(rng)),
            ("expr", lambda: G.expr_grammar(rng)),
            ("exprnoprec", lambda: G.expr_grammar(rng, with_prec=False)),
            ("notlalr", lambda: G.not_lalr_template(rng)),
            ("layered", lambda: G.layered_grammar(rng).reduced()),
            ("chain", lambda: G.chain_grammar(rng).reduced()),
            ("notlalr3", lambda: G.not_lalr_multi(rng).reduced()),
            ("depthmerge", lambda: G.depth_merge_grammar(rng).reduced())]
    weights = [2, 5, 4, 2, 1, 2, 8, 4, 3, 3]
    while len(cases) < n_grammars:
        name, f = rng.choices(fams, weights)[0]
        g = f()
        if g is None:
            continue
        if g.derives_cycle():
            # a rule deriving just itself makes any Yacc-style parser loop (see C07's domain);
            # such grammars cannot "accept" and are outside what the run-time tie can execute
            ctx.count("skipped_cyclic")
            continue
        ctx.count("family_" + name)
        cases.append((g, G.inputs_for(rng, g, n_inputs)))
    return cases


PREC_UNREPORTED = ("a shift/reduce cell settled by precedence or %nonassoc is not reported as a conflict: conflicts() is None "
                   "although the parser rejects sentences of the grammar")


def check_results(ctx, results, part_b=True):
    """shared by C01/C02/C04: validators + run correspondence + oracles.  Returns
    per-result dict of facts for callers."""
    for r in results:
        if not r.ok:
            ctx.count("grammar_rejected_" + r.err.split()[0])
            if r.err.startswith("BUILDPANIC"):
                ctx.violation({"what": "table construction panicked", "grammar": r.src, "impl": r.err})
            continue
        g = cfg.DGram(r.secs)
        v = r.verdict
        # "construction reports no conflicts": nothing reported AND nothing settled silently.  A
        # multi-candidate cell may legitimately go unreported only when precedence settled it, so a
        # grammar WITHOUT any precedence declaration that reports no conflict must behave as
        # conflict-free whatever the cells look like (a silently resolved reduce/reduce conflict
        # then shows up as a rejected sentence).
        no_prec = not g.tprec and not g.pprec
        conflict_free = r.conflicts is None and (v.get("single", False) or no_prec)
        ctx.count("conflict_free" if conflict_free else ("resolved_by_prec" if r.conflicts is None else "conflicts_reported"))
        ctx.count("states_%s" % ("<4" if r.nstates < 4 else "4-15" if r.nstates < 16 else "16+"))
        n_acc = n_rej = 0
        bad_inputs = []
        for toks, io, mo in zip(r.inputs, r.impl_out, r.model_out):
            acc_impl = io.startswith("acc ")
            n_acc += acc_impl
            n_rej += io.startswith("rej ")
            sent, viable = g.earley(toks)
            # --- direct oracles (the failing-input search) ---
            if io in ("hang", "crash"):
                # the plain LR loop does not return.  On a table with resolved conflicts an
                # epsilon-reduction can repeat for ever (the model runs out of fuel on the same
                # input); that is C07's subject.  On a conflict-free table it contradicts part B.
                ctx.count("parse_does_not_return")
                if conflict_free:
                    bad_inputs.append((toks, io, "conflict-free table: the parser does not return"))
                elif mo != "fuel":
                    ctx.violation({"what": "parser hangs where the interpreter model finishes", "grammar": r.src,
                                   "input_tidxs": toks, "impl": io, "model": mo}, no_input=True)
                continue
            if io.startswith("panic") or io.startswith("noval"):
                bad_inputs.append((toks, io, "parser panicked / returned neither value nor error"))
            if acc_impl:
                t = cfg.parse_tree(io[4:])
                leaves = cfg.tree_leaves(t)
                if not (cfg.tree_valid(g, t) and t[0] == "n" and t[1] == g.user_start and
                        [(l[1], l[2]) for l in leaves] == list(zip(toks, range(len(toks))))):
                    bad_inputs.append((toks, io, "accepted, but the tree is not a valid derivation of the input from the start rule"))
                if not sent:
                    bad_inputs.append((toks, io, "accepted a non-sentence (Earley)"))
            if part_b and conflict_free and sent and not acc_impl:
                bad_inputs.append((toks, io, "conflict-free table rejects a sentence (Earley)"))
            if (part_b and ctx.prop == "C01" and r.conflicts is None and not conflict_free and sent and not acc_impl
                    and io.startswith("rej ")):
                # the property's second clause, read literally ("if construction reports no conflicts …"): a cell
                # settled by precedence / %nonassoc is not reported, yet it removes sentences from the language
                # (theorem C01_construction_complete_reports_only_refuted).  Known finding, not an alarm.
                ctx.count("sentence_rejected_behind_unreported_precedence_cell")
                ctx.c01_known_first = getattr(ctx, "c01_known_first", None) or (r.src, [g.tnames.get(t, "?") for t in toks])
                ctx.violation({"what": "conflicts() is None, a sentence is rejected", "grammar": r.src, "input_tidxs": toks},
                              known_key=PREC_UNREPORTED)
            # --- run-time correspondence model vs impl ---
            io_cmp = io.split(" nerr=")[0]
            if io_cmp != mo and mo != "fuel":
                ctx.count("run_mismatch")
                ctx.violation({"what": "interpreter model and Parser::lr disagree on the implementation's own table",
                               "grammar": r.src, "input_tidxs": toks, "impl": io, "model": mo,
                               "sentence_by_earley": sent,
                               "broken_correspondence": "LR.Automaton.run vs lrpar parse_map (RecoveryKind::None)"},
                              no_input=not any(b[0] == toks for b in bad_inputs))
        for toks, io, why in bad_inputs[:3]:
            ctx.violation({"what": why, "grammar": r.src, "input_tidxs": toks,
                           "input": [g.tnames.get(t, "?") for t in toks], "impl": io,
                           "conflicts": r.conflicts, "validators": v, "detail": r.vdetail})
        # --- construction tie: validators over the implementation's dump ---
        need = ["wf", "S"] + (["C"] if (part_b and conflict_free and v.get("single", False)) else [])
        if part_b and r.conflicts is None and no_prec and not v.get("single", False) and not bad_inputs:
            ctx.violation({"what": "no conflict is reported and no precedence is declared, yet a table cell has more than one candidate "
                                   "(a conflict was settled silently); no failing input among %d generated" % len(r.inputs),
                           "grammar": r.src, "validators": v, "detail": r.vdetail}, no_input=True)
            ctx.oblige(False)
        failed = [k for k in need if not v.get(k, False)]
        if failed and not bad_inputs:
            ctx.violation({"what": "validator(s) %s reject the implementation's automaton; no failing input among %d generated"
                                   % (failed, len(r.inputs)),
                           "grammar": r.src, "validators": v, "detail": r.vdetail,
                           "theorem_no_longer_applicable": "lr_sound / lr_complete need validS / validC = true"},
                          no_input=True)
        ctx.oblige(not failed and not bad_inputs)
        nontriv = r.nstates >= 4 and n_acc > 0 and n_rej > 0
        ctx.case(r.src, nontriv, {"grammar": r.src, "states": r.nstates, "conflict_free": conflict_free,
                                  "validators": v, "inputs": len(r.inputs), "accepted": n_acc, "rejected": n_rej})
        ctx.coverage["inputs_run"] = ctx.coverage.get("inputs_run", 0) + len(r.inputs)


def run(ctx):
    ctx.gate = core.proof_gate("C01")
    for _ in ctx.gate["theorems"]:
        ctx.oblige(True)
    cases = gen_cases(ctx, ctx.n(300, 4000), ctx.n(30, 120))
    results = lr.run_cases(cases)
    check_results(ctx, results)
    # tie of the PROVED closure/goto mirrors (LR/CloseProofs.v) to the code: mirror(core s) =
    # closed s and goto(closed s, X) within core(target) for every state/edge of every grammar
    from checks import c01_close
    c01_close.run_part(ctx, results)
    # tie of the END-TO-END construction theorems (theories/C01/Pipeline*.v): the composition of the mirrors of
    # pager_stategraph and StateTable::new, replaying the implementation's run, must rebuild the implementation's
    # table cell by cell — conflicted grammars and grammars with precedence declarations included
    from checks import c01_pipe
    extras = []
    while len(extras) < ctx.n(40, 300):
        eg = G.expr_grammar(ctx.rng)
        if eg is not None:
            extras.append(eg.render())
    c01_pipe.run_part(ctx, results, ctx.n(80, 600), extras)
    ctx.coverage["rule"] = ("grammar families: random, reduced random, nullable-heavy, expression grammars with/without precedence, "
                            "LR(1)-not-LALR templates, classic corpus; inputs = sentences by random derivation, 1-3 token edits of them, "
                            "random strings, the empty input; non-trivial = automaton with >= 4 states and both an accepted and a rejected "
                            "input; distinct by grammar text")
    ctx.assumptions += ["'construction reports no conflicts' is read as: conflicts() is None and no cell has more than one candidate "
                        "(nothing silently settled by precedence); otherwise only part A (soundness) is demanded",
                        "the lexer never produces the end-of-input token and only token ids of the grammar (no_eof, tokens_in_range)",
                        "termination of the real parser on non-sentences is observed (fuel in the model), not proved"]
