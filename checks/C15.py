"""C15 — the same sources always produce the same grammar, table and generated code.

Proof (theories/C15): every iteration over a randomly seeded std HashMap/HashSet on the
path sources -> YaccGrammar -> StateGraph -> StateTable -> generated module is mirrored
with the iteration order as an explicit list/schedule parameter, and the result is proved
invariant under every permutation of it — or refuted with a witness where the faithful
mirror is NOT invariant (Eco `~` productions; order of the serialised conflict list), in
which case the minimal fix is mirrored and proved order-insensitive.  OnceLock first use is
a small-step machine: safety for every schedule, progress under round robin.

Tie: the harness runs as N SEPARATE PROCESSES (fresh RandomState seeds) per grammar; the
transcript of every YaccGrammar/StateGraph/StateTable query (+ parses), of the run-time lexer
definition built from the lexer source (start states; per rule token id, name, regex,
Rule::start_states() in order, target state) and the bytes of the generated .rs files (build
time and directory removed) must be identical in all of them.  Lexers: the token lexers of the
grammars, lexers with 2-7 start states whose rules are active in 2-7 of them (with a parser and
alone), lexers built alone from rule-id maps with shared ids; token-map modules of
CTTokenMapBuilder / ct_token_map (unique names, names differing only in case + rename_map,
many names), each built 3 times per process from freshly constructed maps;
8 threads first-use one OnceLock-guarded `_reconstitute`; the extracted mirrors are run on
the implementation's own implicit-token sets / %avoid_insert sets / state graphs / table
rows under several orders and must reproduce what the implementation printed.

FAILING builds (family "failing sources", 16 processes in both tiers): grammar sources with 2-6 independent faults of one kind
(unknown %epp, unknown rule references, unknown %expect-unused symbols, duplicate declarations, unknown %prec tokens, undefined
start rule, unknown declarations, all at once), valid sources with several warnings, lexer sources (duplicate names, unknown /
duplicate start states, invalid regexes) and the error STRINGS / stderr diagnostics of CTParserBuilder / CTLexerBuilder (many
conflicts, warnings as errors, tokens missing from lexer / parser, %expect mismatch): the complete transcript (error kinds with
their arguments, all spans, in order; warnings; error text) must be the same in every process — conflict diagnostics and the
missing-token lists as multisets of blocks (their order is unspecified), everything else exactly.  The `%epp` loop of
complete_and_validate is mirrored (EppModel.v: C15_validate_epp_order_insensitive for the repaired loop,
C15_validate_epp_first_found_refuted for the pinned one) and the extracted mirror must name the error the implementation reports.

STATIC TABLE (gen/c15scan.py): every place of the build path where a std HashMap/HashSet is iterated is listed, regenerated from
the source on every run, with the audited verdict (order-free / sorted / fixed-seed / documented / leaks-order-only); an iteration
site without an audit entry — or whose entry relied on a sort that is gone — is a violation.

CPCT+ (since /repo ca69cd1 the repair sequences of one rank stay in the order in which the search found them — before, a randomly
seeded HashSet chose the applied one): on tables without conflicts and precedence every input is also parsed with CPCT+; where the
parse ends by itself (well inside the time budget) the tree, per error its position, state and the complete repairs() list IN ORDER,
and the later errors are part of the cross-process digest and of the 8-thread comparison — inputs with >= 2 repair sequences of
the first rank included (auditor's `S: 'A' X 'C'; X: 'B'|'D'|'E'|'F';` on `A C`, grammars with several choice points, and whatever
the generators give); their number is in the evidence.
"""
import concurrent.futures
import hashlib
import os
import random
import re
import shutil

from vlib import core
from gen import grammars as G
from gen import c15fail, c15scan

# flip to True when the corresponding fix is in /repo (the `_refuted` theorem is then replaced
# by its positive `_fixed_` companion and ANY cross-process difference alarms)
IMPLICIT_FIXED = True
CONFLICT_ORDER_FIXED = True

KNOWN_IMPLICIT = ("Eco grammar with >= 2 %implicit_tokens: production numbering of the implicit rule "
                  "depends on hash iteration order")
KNOWN_CONFLICT_BYTES = ("generated parser module (__STABLE_DATA) depends on hash iteration order when one state has "
                        ">= 2 shift/reduce conflicts: the serialised conflict list follows the edge HashMap order")
KNOWN_EPP = ("grammar with >= 2 %epp declarations for unknown tokens: which one is reported (UnknownEPP argument and span) depends on "
             "hash iteration order")
KNOWN_REPAIR = ("erroneous input with >= 2 repair sequences of the first rank: the applied repair (parse tree, repairs() order) is chosen "
                "in HashSet iteration order (cpctplus::simplify_repairs)")
# /repo ca69cd1: simplify_repairs deduplicates in insertion order and sorts stably.  False = the code before: such inputs are left
# out of the CPCT+ comparisons (and counted)
REPAIR_ORDER_FIXED = True
if os.environ.get("GV_C15_REPAIR_ORDER_FIXED") in ("0", "1"):      # development aid for tools/scratch_eval.sh runs
    REPAIR_ORDER_FIXED = os.environ["GV_C15_REPAIR_ORDER_FIXED"] == "1"
KNOWN_KEYS = [KNOWN_IMPLICIT, KNOWN_CONFLICT_BYTES, KNOWN_EPP, KNOWN_REPAIR]
# the pinned `for (k, (sp, _)) in self.epp.iter() { … return Err(..) }` loop was repaired in /repo 3e32e4e: ANY difference alarms
EPP_FIXED = True

WORKDIR = os.path.join(core.WORK, "c15")


# ----------------------------------------------------------------------------- rendering
def q(t):
    return "'%s'" % t


def render(g, kind, opts):
    """yacc source for all kinds.  opts: epp {tok: text}, token_decl [toks], parse_param bool,
    expect_unused [toks], comment bool"""
    o = []
    if opts.get("comment"):
        o.append("// generated for C15")
    o.append("%%start %s" % g.start)
    if opts.get("token_decl"):
        o.append("%%token %s" % " ".join(q(t) for t in opts["token_decl"]))
    for k, toks in g.precs:
        o.append("%%%s %s" % (k, " ".join(q(t) for t in toks)))
    if g.avoid_insert:
        o.append("%%avoid_insert %s" % " ".join(q(t) for t in g.avoid_insert))
    if g.implicit and kind == "E":
        o.append("%%implicit_tokens %s" % " ".join(q(t) for t in g.implicit))
    for t, text in sorted(opts.get("epp", {}).items()):
        o.append('%%epp %s "%s"' % (q(t), text))
    if g.expect is not None:
        o.append("%%expect %d" % g.expect)
    if g.expectrr is not None:
        o.append("%%expect-rr %d" % g.expectrr)
    if opts.get("expect_unused"):
        o.append("%%expect-unused %s" % " ".join(q(t) for t in opts["expect_unused"]))
    if kind in "UG" and opts.get("parse_param"):
        o.append("%parse-param p: u32")
    if kind == "U":
        o.append("%actiontype u32")
    o.append("%%")
    for n, ps in g.rules:
        alts = []
        for syms, prec in ps:
            s = " ".join(q(x) if k == 't' else x for k, x in syms)
            if prec:
                s += " %%prec %s" % q(prec)
            if kind in "UG":
                s += " { 0 }"
            alts.append(s)
        head = "%s -> u32" % n if kind == "G" else n
        o.append("%s: %s;" % (head, " | ".join(alts)))
    return "\n".join(o) + "\n"


def lex_source(tokens):
    o = ["%%"]
    for t in sorted(tokens, key=lambda x: (-len(x), x)):
        rx = "".join(c if c.isalnum() else "\\" + c for c in t)
        o.append('%s "%s"' % (rx, t))
    o.append("[ \\t\\n]+ ;")
    return "\n".join(o) + "\n"


_STATE_NAMES = ["CMT", "STR", "S0", "S1", "Quote", "b_lock", "HEREDOC", "X9", "Raw"]


def start_state_lexer(r, named_rules, nstates=None):
    """a lexer whose rules are active in 2-7 start states each (inclusive and exclusive states, the `<A,B,…>` lists
    written in several orders, INITIAL among them, sometimes a state named twice), with push / pop / replace target
    states.  named_rules: [(regex, token name)].  Returns (text, number of rules with >= 2 start states)."""
    k = nstates or r.randint(2, 7)
    states = r.sample(_STATE_NAMES, k)
    o = ["%%%s %s" % (r.choice("xs"), st) for st in states]
    o.append("%%")
    allst = ["INITIAL"] + states
    multi = 0
    lines = []
    for rx, nm in named_rules:
        m = r.random()
        if m < 0.8:
            sts = r.sample(allst, r.randint(2, min(7, len(allst))))
            if r.random() < 0.3:
                sts.insert(r.randrange(len(sts) + 1), r.choice(sts))      # a state named twice
            pre = "<%s>" % ",".join(sts)
            multi += 1
        elif m < 0.9:
            pre = "<%s>" % r.choice(allst)
        else:
            pre = ""
        t = r.random()
        tgt = "<+%s>" % r.choice(states) if t < 0.2 else "<-%s>" % r.choice(states) if t < 0.3 else "<%s>" % r.choice(allst) if t < 0.36 else ""
        lines.append('%s%s %s"%s"' % (pre, rx, tgt, nm))
    ws = list(allst)
    r.shuffle(ws)
    lines.append("<%s>[ \\t\\n]+ ;" % ",".join(ws))
    if len(ws) > 2:
        lines.append("<%s>#[a-z]* <%s>;" % (",".join(ws[:1] + ws[:0:-1]), r.choice(allst)))
        multi += 1
    return "\n".join(o + lines) + "\n", multi + 1


class Case:
    def __init__(self, fam, kind, g, opts, inputs):
        self.fam, self.kind, self.g, self.opts = fam, kind, g, opts
        self.src = render(g, kind, opts)
        toks = list(g.tokens) + [t for t in g.implicit if t not in g.tokens]
        self.lex = lex_source(toks)
        self.inputs = inputs
        self.knobs = {}
        self.n_implicit = len(g.implicit) if kind == "E" else 0
        self.optional = [k for k, v in (("prec", g.precs), ("avoid_insert", g.avoid_insert),
                                        ("implicit_tokens", self.n_implicit), ("epp", opts.get("epp")),
                                        ("expect", g.expect is not None), ("expect-rr", g.expectrr is not None),
                                        ("token", opts.get("token_decl")), ("parse-param", kind in "UG" and opts.get("parse_param")),
                                        ("expect-unused", opts.get("expect_unused")), ("prod-prec", any(p for _, ps in g.rules for _, p in ps)))
                         if v]

    def line(self):
        knobs = ",".join("%s=%s" % kv for kv in sorted(self.knobs.items())) or "-"
        return "%s %s %s %s ; %s" % (self.kind, core_hex(self.src), core_hex(self.lex), knobs,
                                     " ; ".join(" ".join(i) for i in self.inputs))


def core_hex(s):
    return s.encode().hex()


def big_expr_grammar(rng, levels, ops_per_level):
    """stratified expression grammar: many rules, tokens and states (more hash buckets)"""
    toks, rules = [], []
    for l in range(levels):
        alts = []
        for k in range(ops_per_level):
            op = "o%d_%d" % (l, k)
            toks.append(op)
            alts.append([('r', "E%d" % l), ('t', op), ('r', "E%d" % (l + 1))])
        alts.append([('r', "E%d" % (l + 1))])
        rules.append(("E%d" % l, alts))
    toks += ["lp", "rp", "n", "id", "cm"]
    rules.append(("E%d" % levels, [[('t', 'lp'), ('r', 'E0'), ('t', 'rp')], [('t', 'n')],
                                    [('t', 'id'), ('t', 'lp'), ('r', 'A'), ('t', 'rp')], [('t', 'id')]]))
    rules.append(("A", [[], [('r', 'E0')], [('r', 'A'), ('t', 'cm'), ('r', 'E0')]]))
    return G.Gram(toks, rules)


def ambiguous_big(rng, nops):
    """E: E op E for many ops without precedence: many states with many S/R conflicts each"""
    ops = ["p%d" % i for i in range(nops)]
    return G.Gram(ops + ["n"], [("E", [[('r', 'E'), ('t', o), ('r', 'E')] for o in ops] + [[('t', 'n')]])])


def with_implicit(rng, g, k, used_in_rules=False):
    ws = ["w%d" % i for i in range(k)]
    g2 = G.Gram(g.tokens + ws, g.rules, precs=g.precs, start=g.start, avoid_insert=g.avoid_insert,
                expect=g.expect, expectrr=g.expectrr, implicit=ws)
    return g2


def sprinkle(rng, inp, ws):
    if not ws:
        return inp
    out = []
    if rng.random() < 0.5:
        out.append(rng.choice(ws))
    for t in inp:
        out.append(t)
        while rng.random() < 0.4:
            out.append(rng.choice(ws))
    return out


def gen_cases(ctx):
    rng = ctx.rng
    cases = []

    def add(fam, kind, g, opts=None, n_inputs=4):
        if g is None or g.derives_cycle():
            return
        opts = opts or {}
        inputs = G.inputs_for(rng, g, n_inputs, maxlen=8)
        if kind == "E" and g.implicit:
            inputs = [sprinkle(rng, i, g.implicit) for i in inputs]
        cases.append(Case(fam, kind, g, opts, inputs))

    def rnd_opts(g, p=0.5):
        o = {}
        used = g.used_tokens()
        if rng.random() < p and used:
            o["epp"] = {t: "pretty %s" % i for i, t in enumerate(rng.sample(used, rng.randint(1, min(3, len(used)))))
                        if '"' not in t}
        if rng.random() < p / 2 and used:
            o["token_decl"] = rng.sample(used, rng.randint(1, len(used)))
        if rng.random() < p / 2:
            o["parse_param"] = True
        if rng.random() < p / 3:
            o["comment"] = True
        return o

    def rnd_avoid(g, lo=0):
        used = g.used_tokens()
        k = rng.randint(min(lo, len(used)), min(4, len(used)))
        g.avoid_insert = rng.sample(used, k) if k else []
        return g

    # ---- corpus: every classic grammar in every kind, no optional declaration (trivial cases) ----
    for g in G.classic_corpus():
        for kind in "ONUGE":
            add("corpus", kind, g)
    # ---- grammars on which Pager's gc REALLY removes states (rare among random grammars): only there does
    #      the renumbering of the surviving states run, so only there can a pop-order leak into the state
    #      numbering show up across processes (mirror: C15_gc_order_insensitive / C15_gc_renumbering_monotone) ----
    for src, _, _ in G.rare_shape_corpus():
        add("rare_shapes", "ON"[len(cases) % 2], G.from_text(src), n_inputs=3)
    for fam, texts in (("gc_corpus", G.gc_corpus()), ("gc_chain_corpus", G.gc_chain_corpus())):
        k = min(len(texts), ctx.n(25, 60))
        step = max(1, len(texts) // max(k, 1))
        for src in texts[::step][:k]:
            try:
                g = G.from_text(src)
            except Exception:
                ctx.count("gc_corpus_unparsed")
                continue
            add(fam, "ON"[len(cases) % 2], g, n_inputs=3)
    # ---- the documented witness grammars ----
    t, r = (lambda x: ('t', x)), (lambda x: ('r', x))
    base = G.Gram(["a", "b"], [("S", [[t("a"), r("S")], [t("b")]])])
    for k in range(0, 7):
        add("eco_implicit_%d" % min(k, 3), "E", with_implicit(rng, base, k))
    # a REJECTED grammar (three undeclared %epp tokens): the rejection must be the same everywhere (see also check_failing)
    bad = Case("invalid_epp", "O", base, {}, [])
    bad.src = bad.src.replace("%%\n", '%epp x1 "a"\n%epp x2 "b"\n%epp x3 "c"\n%%\n', 1)
    cases.append(bad)
    add("conflicts", "O", G.Gram(["+", "*", "n"], [("E", [[r("E"), t("+"), r("E")], [r("E"), t("*"), r("E")], [t("n")]])]))
    # ---- Eco with 0/1/2/3+ implicit tokens over random grammars, avoid_insert sets ----
    n_eco = ctx.n(36, 160)
    for i in range(n_eco):
        k = [0, 1, 2, 2, 3, 4, 5, 2][i % 8]
        f = rng.choice([lambda: G.reduced_random_grammar(rng), lambda: G.expr_grammar(rng),
                        lambda: G.nullable_heavy(rng), lambda: G.layered_grammar(rng).reduced()])
        g = f()
        if g is None:
            continue
        g = with_implicit(rng, g, k)
        if rng.random() < 0.5:
            rnd_avoid(g, 1)
            if g.implicit and rng.random() < 0.5:
                w = rng.choice(g.implicit)
                if w not in g.avoid_insert:
                    g.avoid_insert = list(g.avoid_insert) + [w]
        add("eco_implicit_%d" % min(k, 3), "E", g, rnd_opts(g))
    # ---- precedence / conflicts / avoid_insert in the other kinds ----
    n_mix = ctx.n(70, 400)
    fams = [("expr_prec", lambda: G.expr_grammar(rng)),
            ("expr_conflicts", lambda: G.expr_grammar(rng, with_prec=False)),
            ("random", lambda: G.random_grammar(rng)),
            ("reduced", lambda: G.reduced_random_grammar(rng)),
            ("nullable", lambda: G.nullable_heavy(rng)),
            ("notlalr", lambda: G.not_lalr_template(rng)),
            ("layered", lambda: G.layered_grammar(rng).reduced()),
            ("chain", lambda: G.chain_grammar(rng).reduced())]
    for i in range(n_mix):
        fam, f = fams[i % len(fams)]
        g = f()
        if g is None:
            continue
        kind = "ONUG"[rng.randrange(4)]
        if rng.random() < 0.6:
            rnd_avoid(g, 2 if len(g.tokens) >= 2 else 0)
        add(fam, kind, g, rnd_opts(g))
    # ---- larger grammars (more hash buckets in every map) ----
    for i in range(ctx.n(4, 12)):
        g = big_expr_grammar(rng, rng.randint(4, 8), rng.randint(1, 3))
        rnd_avoid(g, 3)
        kind = "OGE"[i % 3]
        if kind == "E":
            g = with_implicit(rng, g, rng.randint(2, 6))
        add("big", kind, g, rnd_opts(g, 0.8), n_inputs=3)
    for i in range(ctx.n(3, 8)):
        g = ambiguous_big(rng, rng.randint(3, 8))
        if rng.random() < 0.5:
            g.precs = [(rng.choice(["left", "right", "nonassoc"]), [o]) for o in g.tokens[:rng.randint(1, len(g.tokens) - 1)]]
        add("ambiguous", "ON"[i % 2], g, rnd_opts(g), n_inputs=3)
    # ---- erroneous inputs with SEVERAL repair sequences of the first rank (/repo ca69cd1): the auditor's grammar, the commit's
    #      grammar, %avoid_insert pushing some of the tied candidates to a lower rank, several choice points in one input ----
    def tied(fam, rules, tokens, inputs, kind="O", avoid=()):
        g = G.Gram(tokens, rules, avoid_insert=list(avoid))
        cs = Case(fam, kind, g, {}, inputs)
        cases.append(cs)
    tied("tied_repairs", [("S", [[t("A"), r("X"), t("C")]]), ("X", [[t("B")], [t("D")], [t("E")], [t("F")]])], ["A", "B", "C", "D", "E", "F"],
         [["A", "C"], ["A", "B", "C"], ["C"], ["A"], ["A", "A", "C"], []])
    tied("tied_repairs", [("S", [[t("a"), r("B"), t("c")]]), ("B", [[t("b")], [t("d")]])], ["a", "b", "c", "d"], [["a", "c"], ["c"], ["a"]], kind="N")
    tied("tied_repairs", [("S", [[t("A"), r("X"), t("C")]]), ("X", [[t("B")], [t("D")], [t("E")], [t("F")]])], ["A", "B", "C", "D", "E", "F"],
         [["A", "C"], ["C"], ["A", "C", "C"]], avoid=["B", "D"])
    for k in range(2, ctx.n(6, 9)):
        alts = ["b%d" % j for j in range(k)]
        alts2 = ["d%d" % j for j in range(k)]
        g_rules = [("S", [[t("A"), r("X"), t("C"), r("Y"), t("E")], [r("S"), t("S2"), t("A"), r("X")]]),
                   ("X", [[t(a)] for a in alts]), ("Y", [[t(a)] for a in alts2] + [[t("C"), r("X")]])]
        toks = ["A", "C", "E", "S2"] + alts + alts2
        tied("tied_repairs_choice_points", g_rules, toks,
             [["A", "C", "E"], ["A", "C", "d0", "E"], ["A", alts[0], "C", "E"], ["A", "C", "E", "S2", "A"], ["C", "E"], ["A", "E"], ["A", "C"]],
             kind="ON"[k % 2], avoid=alts[:1] if k % 3 == 0 else ())
    # ---- lexers with START STATES (lexer + parser): rules active in 2-7 start states; the generated lexer module
    #      quotes every rule's start-state list, the digest prints Rule::start_states() of the run-time definition ----
    for i in range(ctx.n(12, 40)):
        r = random.Random(15485863 * i + 7)
        toks = r.sample(["id", "int", "str", "lb", "rb", "open", "close", "kw_a", "kw_b", "semi", "cm", "bang"], r.randint(3, 9))
        g = G.Gram(toks, [("S", [[], [('r', 'S'), ('r', 'W')]]), ("W", [[('t', x)] for x in toks])])
        n0 = len(cases)
        add("lex_start_states", "ONUG"[i % 4], g, n_inputs=3)
        if len(cases) > n0:
            c = cases[-1]
            c.lex, c.multi_state_rules = start_state_lexer(r, [(x, x) for x in toks], nstates=[2, 3, 5, 7, None][i % 5])
    return cases


def rarely_used_knobs(cases):
    """every second grammar case is generated with some of the rarely used public knobs of the two builders set
    (module names, visibilities incl. pub(in ..), rust editions, recoverer, explicit lexerkind, allow_missing_*,
    show_warnings).  Own RNG: the grammars themselves stay what they were."""
    for ci, c in enumerate(cases):
        if ci % 2 == 0:
            continue
        r = random.Random(7919 * ci + 1)
        k = {}
        for name, vals, p in (("pvis", "012345", 0.6), ("lvis", "012345", 0.6), ("ped", ["15", "18", "21"], 0.4),
                              ("led", ["15", "18", "21"], 0.4), ("pmod", ["parm", "g_parser"], 0.4),
                              ("lmod", ["lexm", "g_lexer"], 0.4), ("rec", "CN", 0.4), ("lk", "1", 0.3),
                              ("amtl", "01", 0.5), ("amtp", "01", 0.5), ("lsw", "01", 0.25), ("psw", "01", 0.25)):
            if r.random() < p:
                k[name] = r.choice(list(vals))
        c.knobs = k


_LEX_WORDS = ["INT_DEC", "INT_HEX", "INT_BIN", "INT_OCT", "FLOAT", "LOWER_ID", "UPPER_ID", "PRIV_ID", "STRING", "RAW_STRING",
              "CHAR", "KW_IF", "KW_ELSE", "KW_WHILE", "KW_FOR", "LPAREN", "RPAREN", "LBRACK", "RBRACK", "COMMA", "SEMI",
              "plus", "minus", "star", "slash", "Eq", "NotEq", "lt", "gt", "AND_AND", "OR_OR", "T0", "T1", "T2", "T3", "_u"]


def lexer_alone_cases(n):
    """lexers built WITHOUT a parser from a user-supplied CTLexerBuilder::rule_ids_map (e.g. for a hand-written
    parser) in which several names share one token id.  Returns dicts {shape, lex, map, opts, names_sharing}."""
    out = []
    shapes = ["all_one_id", "pairs", "mixed_groups", "one_big_group", "triples", "unique", "int_kinds", "extra_and_missing",
              "non_identifier_names", "sparse_ids", "no_map", "mixed_groups", "pairs", "all_one_id"]
    for i in range(n):
        r = random.Random(104729 * i + 13)
        shape = shapes[i % len(shapes)]
        nn = r.randint(8, 14)
        names = r.sample(_LEX_WORDS, nn)
        groups = []                       # sizes of the classes of names sharing one id
        if shape == "all_one_id":
            groups = [nn]
        elif shape == "pairs":
            groups = [2] * (nn // 2) + [1] * (nn % 2)
        elif shape == "triples":
            groups = [3] * (nn // 3) + [1] * (nn % 3)
        elif shape == "one_big_group":
            groups = [6] + [1] * (nn - 6)
        elif shape in ("unique", "no_map"):
            groups = [1] * nn
        elif shape == "int_kinds":
            names = ["INT_HEX", "INT_BIN", "INT_OCT", "INT_DEC", "LOWER_ID", "UPPER_ID", "PRIV_ID", "STRING", "RAW_STRING"]
            groups = [4, 3, 2]
        else:
            left = len(names)
            while left:
                gsz = min(left, r.choice([1, 1, 2, 2, 3, 4, 5, 6]))
                groups.append(gsz)
                left -= gsz
            if max(groups) < 2:
                groups = [2] + groups[2:] if len(groups) > 2 else groups
                if sum(groups) != len(names):
                    names = names[:sum(groups)]
        ids = list(range(len(groups)))
        if shape == "sparse_ids":
            ids = sorted(r.sample(range(0, 250), len(groups)))
        r.shuffle(ids)
        mp, k = [], 0
        for gid, gsz in zip(ids, groups):
            for _ in range(gsz):
                mp.append((names[k], gid))
                k += 1
        lex_names = list(names)
        opts = {"reps": "3"}
        if shape == "non_identifier_names":
            # names that are no Rust identifiers get no constant; they share ids with names that do
            for sym in r.sample(["+", "-", "*", "==", "<=", "("], 3):
                mp.append((sym, r.choice(ids)))
                lex_names.append(sym)
        if shape == "extra_and_missing":
            # names of the map without a lexing rule (allowed explicitly) and a rule without an entry in the map
            for extra in ("ONLY_IN_MAP_A", "ONLY_IN_MAP_B", "ONLY_IN_MAP_C"):
                mp.append((extra, r.choice(ids)))
            lex_names.append("ONLY_IN_LEXER")
            opts["amtl"] = "1"
        r.shuffle(mp)
        rules = ["%%"]
        for j, nm in enumerate(lex_names):
            rules.append('k%dx[0-9]* "%s"' % (j, nm))
        rules.append("[ \\t\\n]+ ;")
        lex = "\n".join(rules) + "\n"
        for name, vals, p in (("mod", ["lexmod", "ints_l"], 0.5), ("vis", "012345", 0.5), ("ed", ["15", "18", "21"], 0.3),
                              ("lk", "1", 0.3), ("amtp", "01", 0.5), ("sw", "01", 0.2), ("ci", "01", 0.2),
                              ("api", ["build", "pf"], 0.4), ("st", ["u8", "u16", "u32"], 0.5)):
            if r.random() < p:
                opts[name] = r.choice(list(vals))
        if "amtl" not in opts and r.random() < 0.4:
            opts["amtl"] = r.choice("01")
        cnt = {}
        for nm, gid in mp:
            if re.match(r"^[a-zA-Z_][a-zA-Z_0-9]*$", nm):
                cnt[gid] = cnt.get(gid, 0) + 1
        out.append({"shape": shape, "lex": lex, "map": None if shape == "no_map" else mp, "opts": opts,
                    "names_sharing": max(cnt.values()) if shape != "no_map" else 0})
    # lexers with start states: every named rule is active in 2-7 of them (see start_state_lexer)
    for i in range(max(6, n // 3)):
        r = random.Random(32452843 * i + 5)
        names = r.sample(_LEX_WORDS, r.randint(4, 10))
        lex, multi = start_state_lexer(r, [("k%dx[0-9]*" % j, nm) for j, nm in enumerate(names)], nstates=[2, 3, 4, 5, 6, 7][i % 6])
        mp = [(nm, j) for j, nm in enumerate(names)]
        r.shuffle(mp)
        opts = {"reps": "3"}
        for name, vals, p in (("mod", ["lexmod"], 0.3), ("vis", "012345", 0.3), ("ed", ["15", "18", "21"], 0.3),
                              ("api", ["build", "pf"], 0.4), ("st", ["u8", "u16", "u32"], 0.5)):
            if r.random() < p:
                opts[name] = r.choice(list(vals))
        out.append({"shape": "start_states", "lex": lex, "map": None if i % 4 == 3 else mp, "opts": opts, "names_sharing": 1,
                    "multi_state_rules": multi})
    return out


def lexer_alone_line(c):
    mp = "-" if c["map"] is None else (",".join("%s=%d" % (core_hex(n), i) for n, i in c["map"]) or "=")
    return "L %s %s %s" % (core_hex(c["lex"]), mp, ",".join("%s=%s" % kv for kv in sorted(c["opts"].items())) or "-")


def check_lexer_alone(ctx, exe, N):
    """(2b) generated bytes of lexers built alone from a rule_ids_map with shared ids: N processes x 3 builds each
    (every build gets a freshly constructed map = fresh hash keys); all outcomes and all digests must agree."""
    lcases = lexer_alone_cases(ctx.n(42, 168))
    llines = [lexer_alone_line(c) for c in lcases]
    res = run_procs(exe, "lexgen", llines, N, env={"C15_KEEP": "1"})
    ok = True
    nbuilds = 0
    shapes = {}
    for ci, c in enumerate(lcases):
        rs = [res[k][ci] for k in range(N)]
        samples = []                 # (process, repetition, outcome, digest)
        dirs = {}
        broken = None
        for k, x in enumerate(rs):
            parts = x.split(" # ")
            if not x.startswith("LGEN"):
                broken = x
                continue
            d = [s.split()[1] for s in parts if s.startswith("DIR ")]
            dirs[k] = d[0] if d else None
            body = [s for s in parts if not s.startswith("DIR ")]
            for rep_ in range(len(body) // 3):
                samples.append((k, rep_, body[3 * rep_], body[3 * rep_ + 1], body[3 * rep_ + 2]))
        nbuilds += len(samples)
        shapes[c["shape"]] = shapes.get(c["shape"], 0) + 1
        ctx.count("lexer_alone_shape_" + c["shape"])
        ctx.count("lexer_alone_names_sharing_an_id_%s" % ("1" if c["names_sharing"] <= 1 else "2" if c["names_sharing"] == 2
                                                          else "3-6" if c["names_sharing"] <= 6 else "7+"))
        ctx.count("lexer_alone_api_" + c["opts"].get("api", "build"))
        base = {"lexer": c["lex"], "rule_ids_map": c["map"], "settings": c["opts"], "shape": c["shape"], "processes": N,
                "builds_per_process": 3, "entry": "CTLexerBuilder::rule_ids_map(..) without lrpar_config",
                "replay_cmd": "echo '%s' | .work/target/release/c15 lexgen   # compare the F digests" % llines[ci]}
        if broken is not None:
            if len(set(x.split()[0] for x in rs)) > 1:
                ctx.violation(dict(base, what="building a lexer alone hangs/crashes in some processes only",
                                   outcomes=sorted(set(x[:160] for x in rs))))
            else:
                ctx.violation(dict(base, what="lexer-alone harness mode failed", outcomes=sorted(set(x[:160] for x in rs))),
                              no_input=True)
            ok = False
            continue
        ctx.count("lexer_alone_" + samples[0][2].split()[1])
        if c["shape"] == "start_states":
            ctx.count("lexer_alone_rules_with_2plus_start_states", c["multi_state_rules"])
        if len(set(s[4] for s in samples)) > 1:
            ok = False
            a = samples[0]
            b = next(s for s in samples if s[4] != a[4])
            ctx.violation(dict(base, what="Rule::start_states() of the rules of the run-time lexer definition (LRNonStreamingLexerDef::from_str "
                                          "of the same source; rules separated by ';', start-state ids by '.') differ between two builds",
                               build_a={"process": a[0], "repetition": a[1], "start_states_per_rule": a[4][3:]},
                               build_b={"process": b[0], "repetition": b[1], "start_states_per_rule": b[4][3:]},
                               distinct_answers=len(set(s[4] for s in samples)),
                               replay_cmd="echo '%s' | .work/target/release/c15 lexgen   # compare the RS sections" % llines[ci]))
        ctx.case("lexer-alone " + sha(llines[ci]), c["names_sharing"] >= 2 or c["shape"] == "start_states",
                 {"lexer": c["lex"], "rule_ids_map": c["map"], "settings": c["opts"], "outcome": samples[0][2][:80],
                  "distinct_digests": len(set(s[3] for s in samples))})
        if len(set(s[2] for s in samples)) > 1:
            ok = False
            ctx.violation(dict(base, what="the same lexer source, rule ids map and settings build in some runs and fail in others",
                               outcomes=sorted(set(s[2][:200] for s in samples))))
            continue
        if len(set(s[3] for s in samples)) > 1:
            ok = False
            a = samples[0]
            b = next(s for s in samples if s[3] != a[3])
            wit = dict(base, what="generated lexer module bytes (build time removed) differ between two builds of the same lexer "
                                  "source with equal rule ids maps and settings",
                       build_a={"process": a[0], "repetition": a[1], "digest": a[3]},
                       build_b={"process": b[0], "repetition": b[1], "digest": b[3]},
                       distinct_digests=len(set(s[3] for s in samples)))
            try:
                fa = os.path.join(dirs[a[0]], "r%d" % a[1], "g.l.rs")
                fb = os.path.join(dirs[b[0]], "r%d" % b[1], "g.l.rs")
                la, lb = norm_generated(fa, dirs[a[0]]).splitlines(), norm_generated(fb, dirs[b[0]]).splitlines()
                ld = first_diff(la, lb)
                if ld:
                    wit["first_differing_line"] = {"line": ld[0] + 1, "a": ld[1][:300], "b": ld[2][:300]}
                ca = [l.strip() for l in la if l.strip().startswith("pub const N_")]
                cb = [l.strip() for l in lb if l.strip().startswith("pub const N_")]
                if ca != cb and sorted(ca) == sorted(cb):
                    wit["token_constants_a"], wit["token_constants_b"] = ca, cb
            except Exception as e:          # the kept directories are only used for the explanation
                wit["explanation_unavailable"] = str(e)[:100]
            ctx.violation(wit)
    ctx.oblige(ok, "generated_bytes_lexer_alone")
    ctx.coverage["lexer_alone"] = {"cases": len(lcases), "builds_compared": nbuilds, "shapes": shapes,
                                   "rule": "8-17 lexing rule names; rule_ids_map shapes: all names one id, pairs, triples, one group "
                                           "of 6 + unique, random groups of 1-6, unique ids (control), INT_*/ID aliases, names only in "
                                           "the map / only in the lexer, non-identifier names, sparse ids, no map; lexers with 2-7 start "
                                           "states (inclusive/exclusive) whose rules are active in 2-7 of them, lists in several orders, a "
                                           "state named twice, push/pop/replace targets (generated bytes AND Rule::start_states() of the "
                                           "run-time definition compared); random mod_name / "
                                           "visibility / rust_edition / lexerkind / allow_missing_* / show_warnings / case_insensitive "
                                           "/ StorageT / build() vs deprecated process_file(); %d processes x 3 builds with freshly "
                                           "constructed maps each" % N}


def tokmap_cases(n):
    """token maps for CTTokenMapBuilder: {shape, map [(name, id)], rename [(name, new)] | None, opts, twin_groups}"""
    out = []
    shapes = ["unique", "case_twins", "many", "case_twins", "non_identifier", "case_quads", "many_with_twins", "case_twins_fn"]
    words = [w for w in _LEX_WORDS if w.upper() not in ("T0",)] + ["alpha", "beta", "gamma", "delta", "While", "until", "Loop", "x", "y", "z",
                                                                    "e", "pi", "tau", "Nil", "true_", "false_"]
    for i in range(n):
        r = random.Random(49979687 * i + 11)
        shape = shapes[i % len(shapes)]
        names, ren, twins = [], [], 0
        if shape == "unique":
            # control: no two names equal up to case
            seen = set()
            for w in r.sample(words, r.randint(3, 20)):
                if w.upper() not in seen:
                    seen.add(w.upper())
                    names.append(w)
        elif shape in ("case_twins", "case_twins_fn", "many_with_twins"):
            seen = set()
            base = r.sample(words, r.randint(4, 12) if shape != "many_with_twins" else 30)
            for w in base:
                if w.upper() not in seen:
                    seen.add(w.upper())
                    names.append(w)
            if shape == "many_with_twins":
                names += ["tok%d" % j for j in range(r.randint(40, 90))]
            for w in r.sample(names[:12], r.randint(1, min(6, len(names[:12])))):
                tw = w.swapcase() if w.swapcase() != w else None
                if tw is None or tw in names:
                    continue
                names.append(tw)
                # the rename makes the constants distinct; it names the twin, the original, or both
                m = r.random()
                if m < 0.4:
                    ren.append((tw, "ALT_%d" % len(ren)))
                elif m < 0.8:
                    ren.append((w, "ALT_%d" % len(ren)))
                else:
                    ren += [(w, "ALT_%d" % len(ren)), (tw, "ALT_%d" % (len(ren) + 1))]
                twins += 1
        elif shape == "case_quads":
            # ab / Ab / aB / AB: four names with one upper-cased form, three of them renamed
            for stem in r.sample(["ab", "kw", "op", "id"], r.randint(1, 3)):
                vs = [stem, stem.capitalize(), stem[0] + stem[1:].upper(), stem.upper()]
                r.shuffle(vs)
                names += vs
                ren += [(v, "Q%d_%s" % (j, stem)) for j, v in enumerate(vs[:3])]
                twins += 1
            names += r.sample(["INT", "FLOAT", "semi", "comma"], 2)
        elif shape == "many":
            names = ["t%03d" % j for j in range(r.randint(60, 140))] + r.sample(_LEX_WORDS, 10)
        elif shape == "non_identifier":
            syms = r.sample(["+", "-", "*", "==", "<=", "(", ")", "{", "&&", "->"], r.randint(3, 8))
            names = r.sample(_LEX_WORDS, r.randint(3, 8)) + syms
            ren = [(sy, "SYM_%d" % j) for j, sy in enumerate(syms)]
        r.shuffle(names)
        ids = list(range(len(names)))
        if r.random() < 0.4:
            ids = r.sample(range(0, 250), len(names)) if len(names) < 200 else ids
        opts = {"reps": "3"}
        if r.random() < 0.5:
            opts["st"] = r.choice(["u8", "u16", "u32"]) if max(ids) < 256 else r.choice(["u16", "u32"])
        if r.random() < 0.5:
            opts["adc"] = r.choice("01")
        if shape == "case_twins_fn":
            opts["fn"] = "1"
        r.shuffle(ren)
        out.append({"shape": shape, "map": list(zip(names, ids)), "rename": ren or None, "opts": opts, "twin_groups": twins})
    return out


def tokmap_line(c):
    return "M %s %s %s" % (",".join("%s=%d" % (core_hex(n), i) for n, i in c["map"]),
                           "-" if c["rename"] is None else ",".join("%s=%s" % (core_hex(a), core_hex(b)) for a, b in c["rename"]),
                           ",".join("%s=%s" % kv for kv in sorted(c["opts"].items())) or "-")


def check_tokmaps(ctx, exe, N):
    """(2c) token-map modules written by CTTokenMapBuilder (and the deprecated ct_token_map): N processes x 3 builds each from
    freshly constructed, equal HashMaps; outcomes and bytes (build time removed) must agree"""
    tcases = tokmap_cases(ctx.n(32, 96))
    tlines = [tokmap_line(c) for c in tcases]
    res = run_procs(exe, "tokmap", tlines, N, env={"C15_KEEP": "1"})
    ok = True
    nbuilds = 0
    shapes = {}
    for ci, c in enumerate(tcases):
        rs = [res[k][ci] for k in range(N)]
        samples, dirs, broken = [], {}, None
        for k, x in enumerate(rs):
            parts = x.split(" # ")
            if not x.startswith("TGEN"):
                broken = x
                continue
            d = [s.split()[1] for s in parts if s.startswith("DIR ")]
            dirs[k] = d[0] if d else None
            body = [s for s in parts if not s.startswith("DIR ")]
            for rep_ in range(len(body) // 2):
                samples.append((k, rep_, body[2 * rep_], body[2 * rep_ + 1]))
        nbuilds += len(samples)
        shapes[c["shape"]] = shapes.get(c["shape"], 0) + 1
        ctx.count("tokmap_shape_" + c["shape"])
        ctx.count("tokmap_case_only_twin_groups", c["twin_groups"])
        base = {"token_map": c["map"], "rename_map": c["rename"], "settings": c["opts"], "shape": c["shape"], "processes": N,
                "builds_per_process": 3, "entry": "lrlex::ct_token_map (deprecated)" if c["opts"].get("fn") else "lrlex::CTTokenMapBuilder",
                "replay_cmd": "mkdir -p .work/c15 && echo '%s' | .work/target/release/c15 tokmap   # compare the F digests" % tlines[ci]}
        if broken is not None:
            if len(set(x.split()[0] for x in rs)) > 1:
                ctx.violation(dict(base, what="building a token map hangs/crashes in some processes only", outcomes=sorted(set(x[:160] for x in rs))))
            else:
                ctx.violation(dict(base, what="token-map harness mode failed", outcomes=sorted(set(x[:160] for x in rs))), no_input=True)
            ok = False
            continue
        ctx.count("tokmap_" + samples[0][2].split()[1])
        ctx.case("tokmap " + sha(tlines[ci]), c["twin_groups"] >= 1 or len(c["map"]) >= 40,
                 {"token_map": c["map"][:12], "rename_map": c["rename"], "settings": c["opts"], "outcome": samples[0][2][:80],
                  "distinct_digests": len(set(s[3] for s in samples))})
        if len(set(s[2] for s in samples)) > 1:
            ok = False
            ctx.violation(dict(base, what="the same token map, rename map and settings build in some runs and fail in others",
                               outcomes=sorted(set(s[2][:200] for s in samples))))
            continue
        if len(set(s[3] for s in samples)) > 1:
            ok = False
            a = samples[0]
            b = next(s for s in samples if s[3] != a[3])
            wit = dict(base, what="generated token-map module bytes (build time removed) differ between two builds from equal token maps, "
                                  "rename maps and settings",
                       build_a={"process": a[0], "repetition": a[1], "digest": a[3]},
                       build_b={"process": b[0], "repetition": b[1], "digest": b[3]},
                       distinct_digests=len(set(s[3] for s in samples)))
            try:
                fa = os.path.join(dirs[a[0]], "r%d" % a[1], "tokmap.rs")
                fb = os.path.join(dirs[b[0]], "r%d" % b[1], "tokmap.rs")
                la, lb = norm_generated(fa, dirs[a[0]]).splitlines(), norm_generated(fb, dirs[b[0]]).splitlines()
                ld = first_diff(la, lb)
                if ld:
                    wit["first_differing_line"] = {"line": ld[0] + 1, "a": ld[1][:300], "b": ld[2][:300]}
                if sorted(la) == sorted(lb):
                    wit["same_lines_in_another_order"] = True
            except Exception as e:          # the kept directories are only used for the explanation
                wit["explanation_unavailable"] = str(e)[:100]
            ctx.violation(wit)
    ctx.oblige(ok, "generated_bytes_token_map")
    ctx.coverage["token_maps"] = {"cases": len(tcases), "builds_compared": nbuilds, "shapes": shapes,
                                  "rule": "CTTokenMapBuilder::new(mod, map)[.rename_map][.allow_dead_code].build() and the deprecated "
                                          "ct_token_map: maps with unique names (control), names differing only in ASCII case (pairs and "
                                          "groups of four) made distinct by a rename_map naming either side, 60-150 names, non-identifier "
                                          "names renamed, random/sparse ids, StorageT u8/u16/u32; %d processes x 3 builds from freshly "
                                          "constructed equal HashMaps" % N}


# ----------------------------------------------------------------------------- failing sources
NFAIL = 16          # processes for the failing-sources family (cheap: both tiers)


def run_fail_procs(exe, lines, nproc):
    """-> per process (stdout lines, stderr pieces per case)"""
    def one(_k):
        p = core.sh([exe, "fail"], input="\n".join(lines) + "\n", timeout=600, limit_mem=True)
        out = p.stdout.splitlines()
        err = (p.stderr or "").split("@@C15CASE\n")[1:]
        while len(out) < len(lines):
            out.append("CRASH rc=%s" % p.returncode)
        while len(err) < len(lines):
            err.append("")
        return out[:len(lines)], err[:len(lines)]
    with concurrent.futures.ThreadPoolExecutor(max_workers=min(nproc, core.NPROC)) as ex:
        return list(ex.map(one, range(nproc)))


def _unhex(x):
    try:
        return bytes.fromhex(x).decode(errors="replace")
    except ValueError:
        return x


def decode_fail(line):
    """readable form of a `c15 fail` result line (for reports)"""
    out = []
    for sec in line.split(" # "):
        f = sec.split(" ")
        out.append(" ".join([f[0]] + [_unhex(x) if re.fullmatch(r"(?:[0-9a-f]{2}){3,}", x) else x for x in f[1:]]))
    return out


_CONFLICT_RE = re.compile(r"(?:Shift/Reduce|Reduce/Reduce) conflict")


def canon_fail(line, errpiece, case):
    """-> (canonical transcript, raw transcript): the directory name removed; conflict diagnostics as a sorted multiset of blocks;
    the stderr lists of missing tokens as a sorted multiset of blocks (raw keeps the printed order)"""
    secs = line.split(" # ")
    dirname = None
    keep = []
    for sec in secs:
        if sec.startswith("DIRNAME "):
            dirname = _unhex(sec.split()[1])
        else:
            keep.append(sec)
    raw = list(keep)
    can = []
    for sec in keep:
        f = sec.split(" ")
        if f[0] == "FB" and len(f) >= 3 and f[1] in ("err", "panic"):
            text = _unhex(f[2])
            if _CONFLICT_RE.search(text):
                blocks = sorted(b for b in text.split("\n\n") if b.strip())
                sec = "FB %s CONFLICT-BLOCKS %s" % (f[1], "\n\n".join(blocks))
        can.append(sec)
    e = errpiece.replace(dirname, "<DIR>") if dirname else errpiece
    raw.append("STDERR " + e)
    if case.get("missing_list") and e.strip():
        ls = e.split("\n")
        head = [l for l in ls if not (l.startswith(("    ", " ")) and case["mode"] == "M" and case["missing_list"] == "lexer") and not re.match(r"^\d+\| |^\s+\^+ Missing from ", l)]
        body = [l for l in ls if l not in head]
        if case["mode"] == "M" and case["missing_list"] == "lexer":
            blocks = sorted(body)
        else:
            blocks = sorted("\n".join(body[i:i + 2]) for i in range(0, len(body), 2))
        can.append("STDERR " + "\n".join(head) + "\nBLOCKS\n" + "\n".join(blocks))
    else:
        can.append("STDERR " + e)
    return " # ".join(can), " # ".join(raw)


def check_failing(ctx, exe, mexe):
    cases = c15fail.all_cases(ctx.n(10, 30))
    lines = [c["line"] for c in cases]
    res = run_fail_procs(exe, lines, NFAIL)
    ok = True
    fams = {}
    order_freedom = {"conflict_blocks_order_differs": 0, "missing_token_list_order_differs": 0}
    classes = {}
    model_lines, model_expect = [], []
    for ci, c in enumerate(cases):
        outs = [res[k][0][ci] for k in range(NFAIL)]
        errs = [res[k][1][ci] for k in range(NFAIL)]
        fams[c["fam"]] = fams.get(c["fam"], 0) + 1
        ctx.count("failing_family_" + c["fam"])
        replay = "mkdir -p .work/c15 && echo '%s' | .work/target/release/c15 fail   # run it several times (stderr too)" % c["line"]
        base = {"family": c["fam"], "mode": {"Y": "yacc source (ASTWithValidityInfo / YaccGrammar::new)", "X": "lexer source (LRNonStreamingLexerDef::from_str)",
                                              "B": "CTParserBuilder / CTLexerBuilder", "M": "CTLexerBuilder with a rule_ids_map, no parser"}[c["mode"]],
                "processes": NFAIL, "replay_cmd": replay}
        for k_ in ("kind", "src", "lex", "opts", "map"):
            if c.get(k_) is not None:
                base[{"src": "grammar", "lex": "lexer", "kind": "yacckind", "opts": "settings", "map": "rule_ids_map"}[k_]] = c[k_]
        if any(o.startswith(("CRASH", "HANG", "BADCASE")) for o in outs):
            if len(set(o.split()[0] for o in outs)) > 1:
                ctx.violation(dict(base, what="a failing build crashes / hangs in some processes only", outcomes=sorted(set(o[:160] for o in outs))))
            else:
                ctx.violation(dict(base, what="failing-sources harness mode failed", outcomes=sorted(set(o[:160] for o in outs))), no_input=True)
            ok = False
            continue
        cr = [canon_fail(o, e, c) for o, e in zip(outs, errs)]
        cans = [x[0] for x in cr]
        raws = [x[1] for x in cr]
        head = outs[0].split(" # ")[0].split()
        cls = " ".join(head[:2])
        classes[cls] = classes.get(cls, 0) + 1
        n_items = sum(1 for sec in outs[0].split(" # ") if sec.split(" ")[0] in ("E", "W"))
        ctx.case("failing " + sha(c["line"]), c["faults"] >= 2,
                 {"family": c["fam"], "case": c["line"][:200], "outcome": decode_fail(outs[0])[:4], "faults_in_source": c["faults"],
                  "errors_and_warnings_reported": n_items, "distinct_transcripts": len(set(cans))})
        if len(set(cans)) > 1:
            ok = False
            k2 = next(k for k in range(NFAIL) if cans[k] != cans[0])
            is_epp = c["fam"] in ("unknown_epp", "builder_unknown_epp", "mixed", "builder_mixed", "undefined_start", "builder_undefined_start")
            known = None
            if not EPP_FIXED and is_epp and all("UnknownEPP" in " ".join(decode_fail(o)) or "in %epp declaration" in " ".join(decode_fail(o)) for o in outs):
                known = KNOWN_EPP
            ctx.violation(dict(base, what="the outcome of a FAILING build (error kinds with arguments, spans, order; warnings; error text; stderr "
                                          "diagnostics) differs between two processes",
                               process_a=0, process_b=k2, transcript_a=decode_fail(outs[0]) + ["STDERR " + errs[0][:1500]],
                               transcript_b=decode_fail(outs[k2]) + ["STDERR " + errs[k2][:1500]], distinct_transcripts=len(set(cans))),
                          known_key=known)
            continue
        if len(set(raws)) > 1:
            # same multiset of blocks, printed in another order: the allowed freedom (conflicts) / the audited order-only leak (missing tokens)
            order_freedom["missing_token_list_order_differs" if c.get("missing_list") else "conflict_blocks_order_differs"] += 1
        # the mirror of the %epp loop must name the reported error
        if c["fam"] == "unknown_epp":
            ent = c["epp"]
            known_keys = [i for i, e in enumerate(ent) if e[3]]
            r = random.Random(len(model_lines) + 11)
            orders = [list(range(len(ent))), list(range(len(ent)))[::-1]]
            for _ in range(3):
                o = list(range(len(ent)))
                r.shuffle(o)
                orders.append(o)
            model_lines.append("P | %s | %s" % (" ".join(map(str, known_keys)),
                                                 " ; ".join(" ".join("%d:%d:%d" % (i, ent[i][1], ent[i][2]) for i in o) for o in orders)))
            model_expect.append((c, outs[0], ent))
    # ---- tie of the %epp mirror
    tie_ok = bool(model_lines)
    mout = core.run_lines([mexe], model_lines) if model_lines else []
    for ml, mo, (c, out, ent) in zip(model_lines, mout, model_expect):
        errs_ = []
        mm = re.findall(r" # M (\S+) F (\S+)", mo)
        if not mo.startswith("P ") or not mm or "min_allsame=1" not in mo:
            errs_.append("mirror of the repaired loop is not order-insensitive / driver failed: " + mo[:200])
        else:
            want = mm[0][0]
            got = []
            for sec in decode_fail(out):
                if sec.startswith("E "):
                    got += re.findall(r'^E YaccGrammarError \{ kind: UnknownEPP\("([^"]*)"\), spans: \[Span \{ start: (\d+), end: (\d+) \}\] \}', sec)
                    if "UnknownEPP" not in sec:
                        got.append(sec[:80])
            if want == "none":
                if got:
                    errs_.append("mirror: no unknown %%epp; implementation reports %s" % (got,))
            else:
                i, a, b = map(int, want.split(":"))
                if got != [(ent[i][0], str(a), str(b))]:
                    errs_.append("mirror reports UnknownEPP(%r) @ %d..%d; implementation reports %s" % (ent[i][0], a, b, got))
            n_unknown = sum(1 for e in ent if not e[3])
            if n_unknown >= 2 and "first_allsame=0" not in mo:
                errs_.append("the pinned loop (first unknown key met) should depend on the order with %d unknown keys: %s" % (n_unknown, mo[:200]))
        if errs_:
            tie_ok = False
            ctx.violation({"what": "extracted mirror (epp) and implementation disagree", "grammar": c["src"], "yacckind": c["kind"], "details": errs_,
                           "model_case": ml, "model_out": mo[:1000], "implementation": decode_fail(out),
                           "broken_correspondence": "C15.EppModel.validate_epp_min vs ast.rs complete_and_validate (%epp loop)"}, no_input=True)
    ctx.oblige(ok, "failing_sources")
    ctx.oblige(tie_ok, "tie_epp")
    ctx.coverage["failing_sources"] = {
        "cases": len(cases), "processes": NFAIL, "families": fams, "outcome_classes": classes,
        "allowed_order_freedom_observed": order_freedom, "epp_mirror_evaluations": len(model_lines),
        "rule": "per family 2-6 independent faults of one kind in one source (the kind, the names and the textual order vary; yacc kinds "
                "Original/NoAction, Grmtools, Eco); compared exactly: every error (Debug = kind, arguments, all spans) and Display text in order, "
                "the warnings, YaccGrammar::new's error list, the builders' error string (directory removed), the .rs files left, stderr; "
                "compared as multisets of blank-line-separated blocks: conflict diagnostics; as multisets of blocks/lines: the stderr lists of "
                "tokens missing from lexer / parser.  non-trivial = a source with >= 2 faults"}


def check_hash_sites(ctx):
    rows, problems, gone, names = c15scan.audit(core.REPO)
    for pr in problems:
        ctx.violation({"what": "hash-order audit: " + pr["what"], "site": pr["site"], "function": pr["fn"], "code": pr["code"], "operation": pr["how"],
                       "receiver": pr["receiver"], "audit_key": pr["key"],
                       "how_to_settle": "read the site; if the result does not depend on the iteration order add an entry to gen/c15scan.py AUDIT, "
                                        "else it is a defect: the dynamic families (cross-process digests, generated bytes, failing sources) say "
                                        "whether an input shows it"}, no_input=True)
    ctx.oblige(not problems and len(rows) > 0, "hash_iteration_audit")
    verdicts = {}
    for r_ in rows:
        verdicts[r_["verdict"]] = verdicts.get(r_["verdict"], 0) + 1
    ctx.coverage["hash_iteration_sites"] = {
        "files": c15scan.files(core.REPO), "sites": rows, "verdicts": verdicts, "audit_entries_without_a_site": gone,
        "names_bound_to_hash_containers": sorted(names)}


# ----------------------------------------------------------------------------- running
def run_procs(exe, mode, lines, nproc, env=None):
    """nproc separate processes, each fed ALL lines (every process has its own hash seeds;
    inside a process every map gets fresh keys as well)"""
    def one(_k):
        res = []
        guard = 0
        while len(res) < len(lines) and guard < 6:
            guard += 1
            rest = lines[len(res):]
            p = core.sh([exe, mode], input="\n".join(rest) + "\n", timeout=1500, env=env, limit_mem=True)
            out = p.stdout.splitlines()
            if len(out) < len(rest):
                if not out or not (out[-1].startswith("HANG") or out[-1].startswith("CRASH")):
                    out.append("CRASH rc=%s %s" % (p.returncode, (p.stderr or "")[-200:].replace("\n", " ")))
            res.extend(out[:len(rest)])
        while len(res) < len(lines):
            res.append("CRASH unknown")
        return res
    with concurrent.futures.ThreadPoolExecutor(max_workers=min(nproc, core.NPROC)) as ex:
        return list(ex.map(one, range(nproc)))


def sections(line):
    return [s.split() for s in line.split(" # ")]


def verdict_sections(line):
    """drop informational sections (tag starts with 'I': documented freedoms)"""
    return [s for s in line.split(" # ") if not s.startswith("I")]


def info_sections(line):
    return [s for s in line.split(" # ") if s.startswith("I")]


def first_diff(a, b):
    for i, (x, y) in enumerate(zip(a, b)):
        if x != y:
            return i, x, y
    if len(a) != len(b):
        i = min(len(a), len(b))
        return i, (a[i] if i < len(a) else "<end>"), (b[i] if i < len(b) else "<end>")
    return None


class Dump:
    """what the checks below need from one digest transcript"""

    def __init__(self, line):
        self.ok = line.startswith("G ")
        self.line = line
        if not self.ok:
            return
        self.prods, self.tn, self.rn = [], {}, {}
        self.ai, self.rp = [], {}
        self.closed, self.edges, self.actions, self.gotos, self.sa = {}, {}, {}, {}, {}
        self.tprec, self.pprec = {}, {}
        self.xs, self.xr = [], []
        for s in sections(line):
            if not s:
                continue
            h = s[0]
            if h == "G":
                self.ntoks, self.nrules, self.eof, self.start_prod = map(int, s[1:5])
            elif h == "P":
                self.prods.append((int(s[1]), [int(x) for x in s[2:]]))
            elif h == "TN":
                self.tn[bytes.fromhex(s[2]).decode()] = int(s[1])
            elif h == "RN":
                self.rn[bytes.fromhex(s[2]).decode()] = int(s[1])
            elif h == "AI":
                self.ai = [int(x) for x in s[1:]]
            elif h == "RP":
                self.rp[int(s[1])] = [int(x) for x in s[2:]]
            elif h == "GX":
                self.implicit_rule = None if s[3] == "-" else int(s[3])
            elif h == "N":
                self.nstates, self.start_state = int(s[1]), int(s[2])
            elif h == "C":
                self.closed.setdefault(int(s[1]), []).append((int(s[2]), int(s[3]), [int(x) for x in s[4:]]))
            elif h == "E":
                self.edges.setdefault(int(s[1]), []).append((int(s[2]), int(s[3])))
            elif h == "A":
                self.actions.setdefault(int(s[1]), {})[int(s[2])] = s[3] + (s[4] if len(s) > 4 else "")
            elif h == "T":
                self.gotos.setdefault(int(s[1]), {})[int(s[2])] = int(s[3])
            elif h == "SA":
                self.sa[int(s[1])] = [int(x) for x in s[2:]]
            elif h == "TP":
                self.tprec[int(s[1])] = (int(s[2]), int(s[3]))
            elif h == "PP":
                self.pprec[int(s[1])] = (int(s[2]), int(s[3]))
            elif h == "XS":
                self.xs.append(tuple(int(x) for x in s[1:4]))
            elif h == "XR":
                self.xr.append(tuple(int(x) for x in s[1:5]))

    def implicit_order(self):
        """token indices of the `~: T ~` productions in production-index order"""
        if self.implicit_rule is None:
            return None
        r = self.implicit_rule
        return [syms[0] // 2 for (lhs, syms) in self.prods[self.start_prod:] if lhs == r and len(syms) == 2]

    def tail(self):
        return ",".join("%d:%s" % (lhs, ".".join(map(str, syms))) for lhs, syms in self.prods[self.start_prod:])

    def max_sr_per_state(self):
        c = {}
        for (s, _t, _p) in self.xs:
            c[s] = c.get(s, 0) + 1
        return max(c.values()) if c else 0


def sha(s):
    return hashlib.sha1(s.encode()).hexdigest()[:16]


def stable_data_numbers(text, which):
    m = re.search(r"const %s: &\[u8\] = &\[(.*?)\];" % which, text, re.S)
    return None if not m else [x.strip() for x in m.group(1).replace("\n", " ").split(",") if x.strip()]


def norm_generated(path, d):
    t = open(path, errors="replace").read().replace(d, "<DIR>")
    t = re.sub(r'BUILD_TIME = \\"[^"\\]*\\"', "BUILD_TIME = <T>", t)
    t = re.sub(r"^// lrlex build time:.*$", "// lrlex build time: <T>", t, flags=re.M)
    return t


# ----------------------------------------------------------------------------- the check
def run(ctx):
    ctx.gate = core.proof_gate("C15")
    for _ in ctx.gate["theorems"]:
        ctx.oblige(True)
    exe = core.build_harness("c15")
    mexe = core.build_model("c15")
    rng = ctx.rng
    shutil.rmtree(WORKDIR, ignore_errors=True)
    os.makedirs(WORKDIR, exist_ok=True)
    try:
        _run(ctx, exe, mexe, rng)
    finally:
        shutil.rmtree(WORKDIR, ignore_errors=True)


def _run(ctx, exe, mexe, rng):
    N = ctx.n(8, 16)
    cases = gen_cases(ctx)
    rarely_used_knobs(cases)
    lines = [c.line() for c in cases]
    dig = run_procs(exe, "digest", lines, N)
    gen = run_procs(exe, "gen", lines, N, env={"C15_KEEP": "1"})
    thr = run_procs(exe, "threads", lines, ctx.n(2, 4), env=None if REPAIR_ORDER_FIXED else {"C15_TIED": "exclude"})

    model_cases, model_expect = [], []      # lines for the OCaml driver + closures checking the answer
    flips_seen = 0                          # grammars (>= 2 implicit tokens) where two processes disagreed
    g2_count = 0
    conflict_bytes_seen = 0
    multi_sr_grammars = 0
    info_diffs = {"IXO": 0, "ICR": 0, "IPP": 0}
    rc_counts = {}
    oc_counts = {"compared": 0, "with_an_error": 0, "with_2plus_first_rank_repair_sequences": 0, "skipped_by_the_clock_or_flag": 0}
    dig_ok = gen_ok = thr_ok = True

    for ci, c in enumerate(cases):
        ds = [dig[k][ci] for k in range(N)]
        d0 = Dump(ds[0])
        ctx.count("kind_" + c.kind)
        ctx.count("family_" + c.fam)
        replay = "echo '%s' | .work/target/release/c15 digest   # run it several times" % c.line()
        base = {"grammar": c.src, "yacckind": c.kind, "processes": N}
        if c.knobs:
            base["builder_knobs"] = c.knobs
            ctx.count("cases_with_rarely_used_builder_knobs")
        if any(x.startswith(("HANG", "CRASH", "BUILDPANIC")) for x in ds):
            bad = [x for x in ds if x.startswith(("HANG", "CRASH", "BUILDPANIC"))][0]
            # a crash is not C15's subject unless it happens in some processes only
            if not all(x.split()[0] == ds[0].split()[0] for x in ds):
                ctx.violation(dict(base, what="the build hangs/crashes/panics in some processes only", outcomes=sorted(set(x[:120] for x in ds)), replay_cmd=replay))
                dig_ok = False
            ctx.count("build_" + bad.split()[0])
            continue
        if not d0.ok:
            # rejected grammar: the property is about successful builds; the error class must still agree
            ctx.count("rejected_" + ds[0].split()[0])
            if len(set(ds)) > 1 and len(set(x.split()[0] for x in ds)) == 1:
                # a failing build must fail the same way everywhere (e.g. WHICH of several invalid %epp declarations is reported)
                ctx.count("rejected_error_text_differs_between_processes")
                ctx.violation(dict(base, what="a rejected grammar is rejected with different messages in different processes",
                                   messages=sorted(set(x[:200] for x in ds)), replay_cmd=replay),
                              known_key=None if EPP_FIXED else KNOWN_EPP)
                dig_ok = False
            if len(set(x.split()[0] for x in ds)) > 1:
                ctx.violation(dict(base, what="grammar accepted in some processes and rejected in others", outcomes=sorted(set(x[:200] for x in ds)), replay_cmd=replay))
                dig_ok = False
            continue
        # CPCT+ outcomes: an input that some process skipped (the clock, not the input, would have decided) is dropped everywhere;
        # with the code before ca69cd1 (flag off) inputs with tied first-rank repairs as well
        skipped = set(int(s_.split()[1]) for x in ds for s_ in x.split(" # ") if s_.startswith("IOCSKIP "))
        ocs = [s_.split(" ", 3) for s_ in ds[0].split(" # ") if s_.startswith("OC ")]
        if not REPAIR_ORDER_FIXED:
            skipped |= set(int(f[1]) for x in ds for f in [s_.split(" ", 3) for s_ in x.split(" # ") if s_.startswith("OC ")] if f[2] == "tied=1")
        oc_counts["skipped_by_the_clock_or_flag"] += len(skipped)
        for f in ocs:
            if int(f[1]) not in skipped:
                oc_counts["compared"] += 1
                oc_counts["with_an_error"] += 1 if " / err " in f[3] else 0
                oc_counts["with_2plus_first_rank_repair_sequences"] += 1 if f[2] == "tied=1" else 0
        vs = [[s_ for s_ in verdict_sections(x) if not (s_.startswith("OC ") and int(s_.split()[1]) in skipped)] for x in ds]
        hs = [sha(" # ".join(v)) for v in vs]
        canon = c.kind + " " + hs[0]
        nontriv = len(c.optional) >= 1
        sample = {"yacckind": c.kind, "grammar": c.src, "optional_declarations": c.optional, "states": d0.nstates,
                  "processes": N, "distinct_digests": len(set(hs)), "inputs": [" ".join(i) for i in c.inputs[:3]]}
        ctx.case(canon, nontriv, sample)
        ctx.count("states_%s" % ("<8" if d0.nstates < 8 else "8-31" if d0.nstates < 32 else "32-127" if d0.nstates < 128 else "128+"))
        ctx.count("implicit_%d" % min(c.n_implicit, 3) if c.kind == "E" else "implicit_na")
        ctx.count("avoid_insert_%s" % ("0" if not c.g.avoid_insert else "1" if len(c.g.avoid_insert) == 1 else "2+"))
        ctx.count("conflicts_yes" if (d0.xs or d0.xr) else "conflicts_no")
        ctx.count("digest_lexer_definition_" + ("ok" if " # LX ok" in ds[0] else "rejected" if " # LX " in ds[0] else "none"))
        if d0.max_sr_per_state() >= 2:
            multi_sr_grammars += 1
        # informational sections (allowed freedoms): only counted
        for tag in info_diffs:
            vals = set(" # ".join(s for s in info_sections(x) if s.startswith(tag)) for x in ds)
            if len(vals) > 1:
                info_diffs[tag] += 1

        # ---------------- (1) cross-process digests ----------------
        multi_implicit = c.kind == "E" and c.n_implicit >= 2
        if multi_implicit:
            g2_count += 1
        if len(set(hs)) > 1:
            k2 = next(k for k in range(N) if hs[k] != hs[0])
            fd = first_diff(vs[0], vs[k2])
            in_lexer = fd[1].startswith(("LX", "LQ", "LU")) or fd[2].startswith(("LX", "LQ", "LU"))
            in_cpct = fd[1].startswith("OC ") or fd[2].startswith("OC ")
            wit = dict(base, what="the result of parsing an input with CPCT+ recovery (`OC <input> tied=<0|1> val <tree> / err <lexeme> <state> "
                                  "repairs=<the repairs() list in order>`) differs between two processes" if in_cpct else
                                  "digest of YaccGrammar/StateGraph/StateTable queries differs between two processes" if not in_lexer else
                                  "the run-time lexer definition (LRNonStreamingLexerDef::from_str of the same lexer source: `LU <rule> <token id> "
                                  "<name> <regex> <Rule::start_states() in order> <target state>`) differs between two processes",
                       process_a=0, process_b=k2, first_differing_section={"index": fd[0], "a": fd[1], "b": fd[2]},
                       distinct_digests=len(set(hs)), replay_cmd=replay)
            known = None
            if multi_implicit and not IMPLICIT_FIXED:
                # explained by the known class iff processes that iterated the implicit tokens in the
                # same order agree on EVERYTHING, and the first difference is a `~` production
                groups = {}
                for k in range(N):
                    groups.setdefault(tuple(Dump(ds[k]).implicit_order()), set()).add(hs[k])
                within = all(len(v) == 1 for v in groups.values())
                first_is_tilde = fd[1].startswith("P %d " % d0.implicit_rule) and fd[2].startswith("P %d " % d0.implicit_rule)
                if within and first_is_tilde and len(groups) > 1:
                    known = KNOWN_IMPLICIT
                    flips_seen += 1
                    ctx.count("implicit_orders_seen_%d" % len(groups))
                    wit["implicit_token_orders_seen"] = [list(o) for o in groups]
                    wit["explained_by"] = "C15_build_implicit_order_insensitive_refuted / C15_build_implicit_sensitive"
            if in_cpct:
                try:
                    wit["input"] = " ".join(c.inputs[int((fd[1] if fd[1].startswith("OC ") else fd[2]).split()[1])])
                except (ValueError, IndexError):
                    pass
            if in_lexer:
                wit["lexer"] = c.lex
                for tag in ("a", "b"):
                    f = wit["first_differing_section"][tag].split()
                    if f and f[0] == "LU" and len(f) >= 6:
                        wit["rule_%s_start_states_%s" % (f[1], tag)] = f[5]
            if known is None:
                dig_ok = False
            ctx.violation(wit, known_key=known)

        # ---------------- (2) generated bytes ----------------
        gs = [gen[k][ci] for k in range(N)]
        fl = [[s for s in x.split(" # ") if s.startswith(("F ", "GEN"))] for x in gs]
        dirs = [next((s.split()[1] for s in x.split(" # ") if s.startswith("DIR ")), None) for x in gs]
        if c.kind == "E":
            ctx.count("gen_unsupported_eco")
        elif any(not x.startswith("GEN1") for x in gs):
            ctx.count("gen_crash")
            ctx.violation(dict(base, what="code generation hangs/crashes", outcomes=sorted(set(x[:200] for x in gs))), no_input=True)
            gen_ok = False
        else:
            ctx.count("gen_" + ("ok" if "GEN1 ok" in gs[0] else "err"))
            if c.fam == "lex_start_states":
                ctx.count("lex_start_states_lexer_and_parser_gen_" + ("ok" if "GEN1 ok" in gs[0] else "err"))
                ctx.count("lex_start_states_rules_with_2plus_start_states", getattr(c, "multi_state_rules", 0))
            if len(set(" # ".join(f) for f in fl)) > 1:
                k2 = next(k for k in range(N) if fl[k] != fl[0])
                fd = first_diff(fl[0], fl[k2])
                wit = dict(base, lexer=c.lex, what="generated module bytes (build time and directory removed) differ between two processes",
                           process_a=0, process_b=k2, first_differing_entry={"a": fd[1], "b": fd[2]},
                           replay_cmd=replay.replace(" digest", " gen"))
                known = None
                fname = fd[1].split()[1] if fd[1].startswith("F ") else None
                if fname and dirs[0] and dirs[k2]:
                    ta = norm_generated(os.path.join(dirs[0], fname), dirs[0])
                    tb = norm_generated(os.path.join(dirs[k2], fname), dirs[k2])
                    la, lb = ta.splitlines(), tb.splitlines()
                    ld = first_diff(la, lb)
                    if ld:
                        wit["first_differing_line"] = {"file": fname, "line": ld[0] + 1, "a": ld[1][:300], "b": ld[2][:300]}
                    # known class: ONLY the __STABLE_DATA byte array differs, as a permutation of its
                    # elements, in parser modules of a grammar that has a state with >= 2 S/R conflicts
                    sa_, sb_ = stable_data_numbers(ta, "__STABLE_DATA"), stable_data_numbers(tb, "__STABLE_DATA")
                    strip = lambda t: re.sub(r"const __STABLE_DATA: &\[u8\] = &\[.*?\];", "", t, flags=re.S)
                    only_files = all(f.split()[1].endswith(".y.rs") for f, g_ in zip(fl[0], fl[k2]) if f != g_)
                    if (not CONFLICT_ORDER_FIXED and fname.endswith(".y.rs") and only_files and sa_ and sb_ and sa_ != sb_
                            and sorted(sa_) == sorted(sb_) and strip(ta) == strip(tb) and d0.max_sr_per_state() >= 2):
                        known = KNOWN_CONFLICT_BYTES
                        conflict_bytes_seen += 1
                        wit["explained_by"] = "C15_table_row_bytes_order_insensitive_refuted (conflict list order follows sg.edges(..) HashMap order)"
                        wit["conflicts_in_one_state"] = d0.max_sr_per_state()
                if known is None:
                    gen_ok = False
                ctx.violation(wit, known_key=known)

        # ---------------- (3) threads ----------------
        for tl in [t[ci] for t in thr]:
            m = re.search(r" # RC noerr=(\d+) unique=(\d+) tied=(\d+) norepair=(\d+) slow=(\d+) other=(\d+) notplain=(\d+)", tl)
            if m:
                for nm, v in zip(("no_error", "one_first_rank_repair_sequence", "2plus_first_rank_repair_sequences" + ("" if REPAIR_ORDER_FIXED else "_EXCLUDED"),
                                  "no_repair_found", "recovery_not_ended_by_itself_EXCLUDED", "panic_or_lex_error_EXCLUDED",
                                  "table_with_conflicts_or_precedence_EXCLUDED"), m.groups()):
                    rc_counts[nm] = rc_counts.get(nm, 0) + int(v)
        for k, tl in enumerate([t[ci] for t in thr]):
            if not tl.startswith("THREADS") or " # TOK" not in tl or "SEQ-DIFFERS" in tl:
                thr_ok = False
                ctx.violation(dict(base, what="8 threads first-using the OnceLock-guarded reconstitution did not all get the sequential result",
                                   harness=tl[:600], inputs=[" ".join(i) for i in c.inputs],
                                   replay_cmd=replay.replace(" digest", " threads")))
                break
        ctx.coverage["thread_runs"] = ctx.coverage.get("thread_runs", 0) + len(thr) * 4 * 8

        # ---------------- (4) mirrors evaluated on what the implementation built ----------------
        if c.kind == "E" and d0.implicit_rule is not None:
            declared = sorted(d0.tn[t] for t in c.g.implicit)
            rs = d0.rn[c.g.start]
            seen_orders = {}
            for k in range(N):
                dk = Dump(ds[k])
                seen_orders.setdefault(tuple(dk.implicit_order()), dk)
            for o, dk in seen_orders.items():
                model_cases.append("E %d %d %d | %s" % (dk.start_prod, rs, dk.ntoks, " ".join(map(str, o))))

                def chk(out, o=o, dk=dk, declared=declared, c=c):
                    secs = out.split(" # ")
                    first = next((s for s in secs if s.startswith("O ")), "")
                    fix = next((s for s in secs if s.startswith("FIX ")), "")
                    want = "O %s = %s ip=%s sp=%d isp=%d" % (".".join(map(str, o)), dk.tail(),
                                                             ".".join(map(str, dk.rp[dk.implicit_rule])), dk.start_prod,
                                                             dk.rp[2][0] if 2 in dk.rp else -1)
                    errs = []
                    if sorted(o) != declared:
                        errs.append("implicit productions are not a permutation of the declared tokens: %s vs %s" % (list(o), declared))
                    if first != want:
                        errs.append("mirror (given the observed order) != implementation: %s  vs  %s" % (first, want))
                    if "allsame=1" not in fix:
                        errs.append("fixed variant is not order-insensitive: " + fix)
                    if IMPLICIT_FIXED and not fix.startswith("FIX " + dk.tail() + " "):
                        errs.append("implementation does not number `~` in token order: " + fix)
                    return errs
                model_expect.append((c, chk, "eco"))
        if c.g.avoid_insert:
            declared = sorted(d0.tn[t] for t in c.g.avoid_insert if t in d0.tn)
            model_cases.append("A %d | %s" % (d0.ntoks, " ".join(map(str, declared))))

            def chk(out, d0=d0, declared=declared):
                want = "".join("1" if t in d0.ai else "0" for t in range(d0.ntoks))
                errs = []
                if not out.startswith("A %s " % want):
                    errs.append("avoid_insert bits: mirror %s, implementation %s" % (out, want))
                if "allsame=1" not in out:
                    errs.append("avoid_insert mirror not order-insensitive: " + out)
                if sorted(d0.ai) != declared:
                    errs.append("avoid_insert set differs from the declaration: %s vs %s" % (d0.ai, declared))
                return errs
            model_expect.append((c, chk, "avoid"))
        if d0.nstates <= 48:
            # gc mirror on the final graph: every state reachable under every pop order, renumbering = identity
            es = [d0.edges.get(s, []) for s in range(d0.nstates)]
            scheds = [[rng.randrange(1000) for _ in range(d0.nstates)] for _ in range(3)] + [[0] * d0.nstates]
            model_cases.append("G %d | %s | %s" % (d0.start_state, " ; ".join(" ".join("%d:%d" % e for e in x) for x in es),
                                                  " ; ".join(" ".join(map(str, s)) for s in scheds)))

            def chk(out, d0=d0, es=es):
                errs = []
                want = "%s / %s" % (".".join(map(str, range(d0.nstates))), " ; ".join(" ".join("%d:%d" % e for e in x) for x in es))
                ws = [s for s in out.split(" # ") if s.startswith("W ")]
                if "allsame=1" not in out:
                    errs.append("gc mirror result depends on the pop order")
                if not ws or any(w.split(" => ")[1] != want for w in ws):
                    errs.append("gc mirror on the implementation's graph is not the identity (unreachable state left?): %s" % (ws[:1],))
                return errs
            model_expect.append((c, chk, "gc"))
        if d0.nstates <= 40 and ci % 2 == 0:
            # table rows: reduce/accept phase recomputed from the closed item sets, edge phase by the mirror
            nrules = d0.nrules
            for s in range(d0.nstates):
                cells, sa = ["E"] * d0.ntoks, [0] * d0.ntoks
                for (p, dot, la) in sorted(d0.closed.get(s, [])):
                    if dot != len(d0.prods[p][1]):
                        continue
                    for t in la:
                        sa[t] = 1
                        if p == d0.start_prod and t == d0.eof:
                            cells[t] = "A"
                        elif cells[t] == "E" or (cells[t][0] == "R" and int(cells[t][1:]) > p):
                            cells[t] = "R%d" % p
                e = sorted(d0.edges.get(s, []))
                if not e:
                    continue
                orders = [e, e[::-1], rng.sample(e, len(e))]
                model_cases.append("T | %s | %s | %s | %s | %s | %s" % (
                    " ".join("%d:%d:%d" % (t, l, k) for t, (l, k) in sorted(d0.tprec.items())),
                    " ".join("%d:%d:%d" % (p, l, k) for p, (l, k) in sorted(d0.pprec.items())),
                    " ".join(cells), " ".join(["0"] * nrules), " ".join(map(str, sa)),
                    " ; ".join(" ".join("%d:%d" % x for x in o) for o in orders)))

                def chk(out, d0=d0, s=s):
                    errs = []
                    rows = [x for x in out.split(" # ") if x.startswith("R ")]
                    fixed = [x for x in out.split(" # ") if x.startswith("RF ")]
                    acts = d0.actions.get(s, {})
                    want_cells = " ".join({"S": "S", "R": "R", "A": "A"}[acts[t][0]] + acts[t][1:] if t in acts else "E" for t in range(d0.ntoks))
                    gt = d0.gotos.get(s, {})
                    want_gotos = ".".join(str(gt[r] + 1) if r in gt else "0" for r in range(d0.nrules))
                    want_sa = "".join("1" if t in d0.sa.get(s, []) else "0" for t in range(d0.ntoks))
                    want_x = sorted((t, p) for (st, t, p) in d0.xs if st == s)
                    for r in rows:
                        parts = [x.strip() for x in r[2:].split(" / ")]
                        if len(parts) != 4:
                            errs.append("state %d: mirror outcome %s" % (s, r))
                            continue
                        got_x = sorted(tuple(map(int, x.split(":"))) for x in parts[3].split())
                        # the mirror row is the state after the edge loop; since fix 92211be the second
                        # loop of StateTable::new clears the state_actions bit of a cell that %nonassoc
                        # turned into an error, so compare the bits masked by "cell is not Error"
                        mcells = parts[0].split()
                        if len(mcells) == len(parts[2]):
                            parts[2] = "".join(b if c != "E" else "0" for b, c in zip(parts[2], mcells))
                        if parts[0] != want_cells or parts[1] != want_gotos or parts[2] != want_sa or got_x != want_x:
                            errs.append("state %d: mirror row [%s] vs implementation [%s / %s / %s / %s]" % (s, r, want_cells, want_gotos, want_sa, want_x))
                    if "fixed_allsame=1" not in out or len(set(fixed)) != 1:
                        errs.append("state %d: sorted-conflicts variant depends on the edge order" % s)
                    return errs
                model_expect.append((c, chk, "row"))

    # ---- (2b) lexers built alone from a user-supplied rule ids map ----
    check_lexer_alone(ctx, exe, N)

    # ---- (2c) token-map modules ----
    check_tokmaps(ctx, exe, N)

    # ---- (5) failing sources: error transcripts, warnings, builder error strings, stderr diagnostics ----
    check_failing(ctx, exe, mexe)

    # ---- (6) static table of the iterated randomly seeded containers ----
    check_hash_sites(ctx)

    # ---- run the extracted mirrors ----
    mout = core.run_lines([mexe], model_cases)
    tie_bad = {}
    tie_n = {}
    for line, out, (c, chk, what) in zip(model_cases, mout, model_expect):
        tie_n[what] = tie_n.get(what, 0) + 1
        errs = chk(out) if not out.startswith(("CRASH", "HANG", "BADCASE")) else ["driver: " + out[:100]]
        if errs:
            tie_bad[what] = tie_bad.get(what, 0) + 1
            ctx.violation({"what": "extracted mirror (%s) and implementation disagree" % what, "grammar": c.src, "yacckind": c.kind,
                           "details": errs[:3], "model_case": line[:2000], "model_out": out[:2000],
                           "broken_correspondence": {"eco": "C15.Model.eco_build vs grammar.rs:255-305",
                                                     "avoid": "C15.Model.avoid_bits vs grammar.rs:351-359",
                                                     "gc": "C15.Model.gc vs pager.rs gc (post-condition on the final graph)",
                                                     "row": "C15.Model.process_edges vs statetable.rs:279-314"}[what]}, no_input=True)
    for what in ("eco", "avoid", "gc", "row"):
        ctx.oblige(tie_bad.get(what, 0) == 0 and tie_n.get(what, 0) > 0, "tie_" + what)
    ctx.oblige(dig_ok, "digests")
    ctx.oblige(gen_ok, "generated_bytes")
    ctx.oblige(thr_ok, "threads")

    # ---- the refuted statements must still describe the code (else: replace them by the positive ones) ----
    p_miss_one = 2.0 ** (1 - N)
    if not IMPLICIT_FIXED:
        ok = flips_seen > 0
        ctx.oblige(ok, "refuted_implicit_reproduced")
        if not ok and g2_count:
            ctx.violation({"what": "no process pair disagreed on any of %d Eco grammars with >= 2 implicit tokens (chance %.2g if the defect "
                                   "were present): C15_build_implicit_order_insensitive_refuted no longer mirrors grammar.rs — "
                                   "if the fix is in, set IMPLICIT_FIXED = True" % (g2_count, p_miss_one ** g2_count)}, no_input=True)
    if not CONFLICT_ORDER_FIXED:
        ok = conflict_bytes_seen > 0
        ctx.oblige(ok, "refuted_conflict_bytes_reproduced")
        if not ok and multi_sr_grammars:
            ctx.violation({"what": "generated bytes never differed on %d grammars with >= 2 S/R conflicts in one state: "
                                   "C15_table_row_bytes_order_insensitive_refuted no longer mirrors statetable.rs — if the fix is in, "
                                   "set CONFLICT_ORDER_FIXED = True" % multi_sr_grammars}, no_input=True)

    ctx.coverage["rule"] = (
        "grammars: classic corpus in all 5 yacc kinds; Eco grammars with 0,1,2,3..6 %%implicit_tokens over random/expression/nullable/"
        "layered grammars; %%avoid_insert sets (>= 2 members), precedence lines, %%prec, %%epp, %%token, %%expect, %%parse-param, grammars with "
        "S/R and R/R conflicts (compared as sets), LR(1)-not-LALR templates and Pager's example (state merging/gc), stratified "
        "expression grammars with up to ~30 tokens and 100+ states.  Each grammar is built in %d separate OS processes (own RandomState "
        "seeds) in each of the modes digest/gen and in %d processes x 4 rounds x 8 threads in mode threads; digests (all sections except "
        "the informational I* ones) and generated-file hashes must be identical.  Detection power: a grammar with exactly 2 implicit "
        "tokens has 2 iteration orders; if they are equally likely, %d independent processes all agree with probability 2*(1/2)^%d = %.4f, "
        "so a 2-way flip is seen with probability %.4f > 0.99 per grammar; this run had %d such grammars (>= 2 implicit tokens) "
        "=> miss probability <= %.3g; observed: %d of them flipped.  non-trivial = grammar with >= 1 optional declaration; distinct by "
        "yacc kind + hash of the canonical (verdict) dump of process 0."
        % (N, len(thr), N, N, p_miss_one, 1 - p_miss_one, g2_count, p_miss_one ** max(g2_count, 1), flips_seen))
    ctx.coverage["exhaustive"] = False
    ctx.coverage["processes_per_grammar"] = N
    ctx.coverage["grammars"] = len(cases)
    ctx.coverage["grammars_ge2_implicit"] = g2_count
    ctx.coverage["grammars_ge2_implicit_flipped"] = flips_seen
    ctx.coverage["grammars_ge2_sr_conflicts_in_a_state"] = multi_sr_grammars
    ctx.coverage["grammars_generated_bytes_differ_known_class"] = conflict_bytes_seen
    ctx.coverage["allowed_freedoms_observed"] = {
        "conflict_list_order_differs (IXO)": info_diffs["IXO"],
        "core_reduces_member_differs (ICR)": info_diffs["ICR"],
        "pretty_printer_hash_differs (IPP)": info_diffs["IPP"]}
    ctx.coverage["cpct_plus_inputs_in_thread_runs"] = dict(rc_counts, rule=(
        "per input of every thread-mode process (tables without conflicts and without precedence only: elsewhere CPCT+ may not end, findings "
        "of C05-C07): parsed once with CPCT+ under a 40 ms budget; if that ended within 20 ms (every recovery ended by itself, the clock decided "
        "nothing) the 8 threads x 4 rounds parse it with CPCT+ too (8 s budget) and must return the sequential outcome: tree, per error its "
        "lexeme, state and the complete repairs() list in order; inputs with >= 2 repair sequences of the first rank (rank = (contains an "
        "%avoid_insert insertion, length)) are " + ("INCLUDED (REPAIR_ORDER_FIXED)" if REPAIR_ORDER_FIXED else "excluded (code before ca69cd1)")))
    ctx.coverage["cpct_plus_inputs_in_digests"] = dict(oc_counts, rule=(
        "the same outcome string as a section of the cross-process digest (%d processes); an input skipped by any process (parse not ended within "
        "20 ms) is dropped in all of them" % N))
    ctx.coverage["mirror_evaluations"] = tie_n
    ctx.coverage["known_keys"] = KNOWN_KEYS
    ctx.coverage["flags"] = {"IMPLICIT_FIXED": IMPLICIT_FIXED, "CONFLICT_ORDER_FIXED": CONFLICT_ORDER_FIXED, "EPP_FIXED": EPP_FIXED,
                             "REPAIR_ORDER_FIXED": REPAIR_ORDER_FIXED}
    ctx.assumptions += [
        "hash seeds of separate OS processes are independent (std RandomState); N processes sample N iteration orders — sampling, not enumeration",
        "OnceLock model: get_or_init is atomic in the sense of Model.v (e) (std's documented contract); thread interleavings of the real code are sampled (8 threads x 4 rounds per grammar per process), not enumerated",
        "mirrors (a)-(d) are hand-written; they are tied to the code by evaluating them on the implementation's own implicit-token orders, "
        "%avoid_insert sets, state graphs and table rows (reduce/accept phase of a row recomputed in Python from the dumped closed item sets)",
        "gc itself is private: its mirror is tied only through the post-condition on the final graph (all states reachable, mirror gc = identity)",
        "FNV (fixed-seed) item-set maps are deterministic and therefore outside the permutation theorems; their determinism is covered by the cross-process digests only",
        "CPCT+ results are compared only where the parse ended by itself within 20 ms of a 40 ms budget (else the wall clock, not the "
        "input, may decide what recovery returns) and only on tables without conflicts and precedence",
        "the table of hash-iteration sites comes from a TEXTUAL scan (regular expressions, receivers recognised by name, one level of "
        "aliasing); a container that reaches an iteration under a name the scan cannot connect to its declaration is not listed",
        "stderr of a harness process is cut into per-case pieces at marker lines the harness writes itself",
    ]
