"""C18 — an incremental compile-time build ends in the state a clean build would.

Proof: theories/C18 — mirror of the skip / delete / write decisions of
CTParserBuilder::build and CTLexerBuilder::build over abstract file contents,
induction over histories (Properties/C18.v).
Tie: random histories of {edit grammar, edit lexer, change one builder option,
break grammar/lexer, build} are replayed against the real builders (one harness
process per build, file mtimes set from the model's logical clock); after every
build the result class, `regenerated()`, which files were (re)written, existence
and contents of the outputs are compared with the extracted mirror, and the
property itself is checked directly against a build of the same sources and
settings into an empty directory.

Part `static_cache_coverage` (every run, on /repo's current source text): every
`type_name::<X>()` the code generator splices into the output and every field of
`CTParserBuilder` must be recorded in the rebuild-cache string (or be on the list
of fields the code documents as ignored); the keys of the cache string are the
ones the mirror's `cache` record stands for.

Part `manual_flow` (theories/C18/Tok*.v): the manual-lexer build script — CTParserBuilder::build, then
CTTokenMapBuilder::<StorageT>::new(mod, ctp.token_map()) [.rename_map] [.allow_dead_code] .build() (or the deprecated
ct_token_map) writing $OUT_DIR/<mod>.rs — over grammars whose token names are / are not Rust identifiers, rename maps
added and removed, module names (one is no identifier: the panic path); every build against a clean build and the mirror.

Part `test_files` (theories/C18/Insp*.v): histories over grammars whose header has
a `test_files` key, with the lexer builder's inspector as an abstract verdict.
"""
import concurrent.futures
import hashlib
import json
import os
import random
import re
import shutil
import subprocess

from vlib import core

# False: the mirror of the code as it is (a build that fails before the skip
# decision leaves the old output in place).  True: the repaired builders
# (every failing return removes the builder's output first).
STALE_FIXED = True
# False: the cache string does not record the builders' type parameter
ST_IN_CACHE = True
# False: the cache string does not record LexerTypesT::LexemeT (the code before /repo 9933a08)
LX_IN_CACHE = True

# True once /repo removes earlier output also when a build PANICS (StorageT not big enough: the documented refusal)
PANIC_CLEANUP_FIXED = True
# True: /repo contains 746e223 (CTTokenMapBuilder::build removes $OUT_DIR/<mod>.rs on Err and on a panic).  False selects the
# pinned mirror (tfixed = false) and the tolerant comparison for exactly that class (scratch evaluation of the reverse patch:
# C18_TOKMAP_CLEANUP_FIXED=0)
TOKMAP_CLEANUP_FIXED = True
K_TOKMAP = "token map module of an earlier build survives a failing CTTokenMapBuilder::build"      # known_findings.json: fixed, 746e223
K_PANIC = "generated files of an earlier build survive a build that panics because StorageT is not big enough"
K_STALE = "stale generated file survives a build that fails with a grammar/lexer syntax error"
K_LEXOUT = "lexer output of an earlier build survives a build that fails at the parser's conflict check"
K_ST = "parser output not regenerated when only the builders' StorageT/LexerTypesT type parameter changes (not in the cache string)"
K_LX = "parser output not regenerated when only LexerTypesT::LexemeT changes (type name spliced into the action wrappers, not in the cache string)"
# live: CTLexerBuilder performs the grammar header's `test_files` check inside the parser builder's inspect_rt callback,
# which CTParserBuilder::build_inner calls only when it regenerates
K_TF = "test_files check skipped when the parser output is cached"

WORKROOT = os.path.join(core.WORK, "c18")
BASE_T = 1_000_000_000      # logical time t  ->  mtime BASE_T + 100 * t  (seconds, far in the past)

# ---- source texts ----------------------------------------------------------
# grammars: id -> (text, syn, warn, conf, toks).  All valid grammars use the
# token set {PLUS MUL LPAR RPAR INT}; toks names the token map (= order of first
# appearance of the tokens).
_G = {}


def _g(i, syn, warn, conf, toks, text):
    _G[i] = (text, syn, warn, conf, toks)


_H = "%start E\n%actiontype u64\n"
_g(0, 1, 0, 0, 0, _H + "%%\nE: E 'PLUS' T { $1 + $3 } | T { $1 } ;\nT: T 'MUL' F { $1 * $3 } | F { $1 } ;\n"
   "F: 'LPAR' E 'RPAR' { $2 } | 'INT' { 1 } ;\n")
_g(1, 1, 0, 0, 0, _H + "%%\nE: T 'PLUS' E { $1 + $3 } | T { $1 } ;\nT: F 'MUL' T { $1 * $3 } | F { $1 } ;\n"
   "F: 'LPAR' E 'RPAR' { $2 } | 'INT' { 1 } ;\n")
_g(2, 1, 0, 0, 1, _H + "%%\nE: E 'MUL' T { $1 * $3 } | T { $1 } ;\nT: T 'PLUS' F { $1 + $3 } | F { $1 } ;\n"
   "F: 'INT' { 1 } | 'LPAR' E 'RPAR' { $2 } ;\n")
_g(3, 1, 0, 0, 0, _H + "%expect 4\n%%\nE: E 'PLUS' E { $1 + $3 } | E 'MUL' E { $1 * $3 } | 'LPAR' E 'RPAR' { $2 } | 'INT' { 1 } ;\n")
_g(4, 1, 0, 0, 1, "%start S\n%actiontype u64\n%%\nS: S 'MUL' A { $1 * $3 } | A { $1 } ;\n"
   "A: 'PLUS' A { $2 } | 'INT' { 1 } | 'LPAR' S 'RPAR' { $2 } ;\n")
# unexpected conflicts
_g(10, 1, 0, 1, 0, _H + "%%\nE: E 'PLUS' E { $1 + $3 } | E 'MUL' E { $1 * $3 } | 'LPAR' E 'RPAR' { $2 } | 'INT' { 1 } ;\n")
_g(11, 1, 0, 1, 1, _H + "%expect 1\n%%\nE: E 'MUL' E { $1 * $3 } | E 'PLUS' E { $1 + $3 } | 'INT' { 1 } | 'LPAR' E 'RPAR' { $2 } ;\n")
# warnings (an unused rule)
_g(20, 1, 1, 0, 0, _H + "%%\nE: E 'PLUS' T { $1 + $3 } | T { $1 } ;\nT: T 'MUL' F { $1 * $3 } | F { $1 } ;\n"
   "F: 'LPAR' E 'RPAR' { $2 } | 'INT' { 1 } ;\nU: 'INT' { 0 } ;\n")
_g(21, 1, 1, 1, 0, _H + "%%\nE: E 'PLUS' E { $1 + $3 } | E 'MUL' E { $1 * $3 } | 'LPAR' E 'RPAR' { $2 } | 'INT' { 1 } ;\n"
   "U: 'INT' { 0 } ;\n")
# syntax errors
_g(30, 0, 0, 0, 0, _H + "%%\nE: E 'PLUS' T { $1 } | T { $1 } \nT: ;;; %% {\n")
_g(31, 0, 0, 0, 0, _H + "%%\nE: E 'PLUS' T { $1 + $3 } | T { $1 } ;\nT: T 'MUL' F { $1 * $3 } | F { $1 } ;\n"
   "F: 'LPAR' E 'RPAR' { $2 } | 'INT' { 1 }\n| ;;\n")
_g(32, 0, 0, 0, 0, _H + "%%\nE: E 'PLUS' Undefined { $1 } | 'INT' 'MUL' 'LPAR' 'RPAR' { 1 } ;\n")

_LBODY = "\\+ \"PLUS\"\n\\* \"MUL\"\n\\( \"LPAR\"\n\\) \"RPAR\"\n[ \\t\\n]+ ;\n"
_L = {
    0: ("%%\n[0-9]+ \"INT\"\n" + _LBODY, 1, 0),
    1: ("%%\n[0-9][0-9_]* \"INT\"\n" + _LBODY, 1, 0),
    2: ("%%\n(0|[1-9][0-9]*) \"INT\"\n" + _LBODY, 1, 0),
    # missing rule for MUL
    10: ("%%\n[0-9]+ \"INT\"\n\\+ \"PLUS\"\n\\( \"LPAR\"\n\\) \"RPAR\"\n[ \\t\\n]+ ;\n", 1, 1),
    # syntax errors
    20: ("%%\n[0-9+ \"INT\"\n" + _LBODY, 0, 0),
    21: ("%%\n[0-9]+ \"INT\n\\+ PLUS\"\n", 0, 0),
}

# a grammar with 150 tokens (the CACHE INFORMATION comment lists every token: ~5 KB, far beyond any "tail" of the
# output a skip test might be tempted to read) and a variant with the same tokens; token-map class 2
_BIGT = ["T%d" % i for i in range(150)]
_g(5, 1, 0, 0, 2, _H + "%%\nE: " + " | ".join("'%s' { %d }" % (t, i) for i, t in enumerate(_BIGT)) + " ;\n")
_g(6, 1, 0, 0, 2, _H + "%%\nE: " + " | ".join("'%s' { %d }" % (t, i + 1) for i, t in enumerate(_BIGT)) + " ;\n")
_L[3] = ("%%\n" + "".join("x%dy \"%s\"\n" % (i, t) for i, t in enumerate(_BIGT)) + "[ \\t\\n]+ ;\n", 1, 0)

# token names with characters that mean something where the builders record them (the CACHE INFORMATION text is a Rust
# string literal inside a /* ... */ comment of the generated file): comment delimiters, both quotes, a backslash, a line
# comment, braces, a non-ASCII character; token-map class 3; lexer 4 names exactly these tokens
_g(7, 1, 0, 0, 3, _H + "%%\nE: E \"*/\" T { $1 + $3 } | T { $1 } ;\nT: T '/*' F { $1 * $3 } | F { $1 } ;\n"
   "F: '\"' E \"'\" { $2 } | '\\' { 1 } | '//' { 2 } | \"\u00e9{\" { 3 } | '*\\/' { 4 } ;\n")
_g(8, 1, 0, 0, 3, _H + "%%\nE: E \"*/\" T { $1 * $3 } | T { $1 } ;\nT: T '/*' F { $1 + $3 } | F { $1 } ;\n"
   "F: '\"' E \"'\" { $2 } | '\\' { 5 } | '//' { 2 } | \"\u00e9{\" { 3 } | '*\\/' { 4 } ;\n")
_L[4] = ("%%\n\\*/ \"*/\"\n/\\* \"/*\"\nq '\"'\np \"'\"\nb \"\\\"\n// \"//\"\n\u00e9\\{ \"\u00e9{\"\ns '*\\/'\n[ \\t\\n]+ ;\n", 1, 0)
ODD_G, ODD_L = [7, 8], 4

# grammars whose %grmtools section names test files (mode C only: CTParserBuilder alone knows no `test_files` key);
# same language as grammars 0..3 (expressions over + * ( ) INT)
_TFH = '%grmtools{test_files: ["*.c18in"]}\n'
_g(40, 1, 0, 0, 0, _TFH + _G[0][0])
_g(41, 1, 0, 0, 0, _TFH + _G[1][0])
_g(42, 1, 0, 0, 1, _TFH + _G[2][0])
TF_G = [40, 41, 42]
# states of the set of files the glob matches: name -> {file: text}
TF = {
    0: {"a.c18in": "1+2*(3)\n"},
    1: {"a.c18in": "1_0+2\n"},                            # edited test file: only lexer 1 knows `_`
    2: {"a.c18in": "1+2*(3)\n", "b.c18in": "1_0\n"},      # added test file
    3: {"a.c18in": "07\n"},                               # lexer 2 reads two INTs: parse error
    4: {"a.c18in": "1+\n"},                               # parse error whatever the lexer
    5: {},                                                # the glob matches no path: Err
}
# the inspector's verdict, worked out by hand from the texts above: test files -> lexers under which every file lexes and
# parses (lexer 10 has no rule for `*`; lexers 20, 21 do not parse, the inspector is never reached)
TF_ACCEPT = {0: {0, 1, 2}, 1: {1}, 2: {1}, 3: {0, 1, 10}, 4: set(), 5: set()}


def tf_rejected():
    return " ".join("%d:%d:%d" % (y, l, tf) for y in TF_G for l in sorted(_L) for tf in sorted(TF) if l not in TF_ACCEPT[tf])


VALID_G = [0, 1, 2, 3, 4]
CONF_G = [10, 11]
WARN_G = [20, 21]
SYN_G = [30, 31, 32]
VALID_L = [0, 1, 2]
MISS_L = [10]
SYN_L = [20, 21]

# ---- settings ----------------------------------------------------------------
# name -> (values of the model code 0.., harness key, harness values)
OPTS = [
    ("yk", "yk", ["N", "O", "U"]),
    ("rec", "rec", ["C", "N"]),
    ("vis", "vis", ["0", "1", "2", "3", "4"]),
    ("ed", "ed", ["15", "18", "21"]),
    ("eoc", "eoc", ["0", "1"]),
    ("wae", "wae", ["0", "1"]),
    ("sw", "sw", ["0", "1"]),
    ("ser", "ser", ["V", "F"]),
    ("mod", "mod", ["-", "m1", "m2"]),
    ("st", "st", ["u8", "u16", "u32"]),
    ("lvis", "lvis", ["0", "1", "2", "3", "4"]),
    ("led", "led", ["15", "18", "21"]),
    ("lmod", "lmod", ["-", "k1", "k2"]),
    ("lci", "lci", ["-", "0", "1"]),
    # the parser builder's type parameter: DefaultLexerTypes<StorageT> | a user-owned MyLexerTypes whose impl names
    # LexA<StorageT> | the same type after the user changed `type LexemeT` to LexB<StorageT> (mode P only)
    ("lt", "lt", ["-", "A", "B"]),
]
OPT_NAMES = [o[0] for o in OPTS]
LEXER_ONLY = {"lvis", "led", "lmod", "lci"}
PARSER_ONLY = {"lt"}
DEFAULT = {"yk": 2, "rec": 0, "vis": 0, "ed": 2, "eoc": 1, "wae": 1, "sw": 0, "ser": 0, "mod": 0, "st": 2,
           "lvis": 0, "led": 2, "lmod": 0, "lci": 0, "lt": 0}


def opt_in_mode(name, mode):
    return not ((mode == "P" and name in LEXER_ONLY) or (mode == "C" and name in PARSER_ONLY))


def settings_ints(c):
    # model codes: p_st = (StorageT, name of LexerTypesT): 0..2 DefaultLexerTypes<u8|u16|u32>, 3..5 MyLexerTypes with
    # u8|u16|u32; p_lx = LexemeT: 0 the default lexeme of DefaultLexerTypes, 1 LexA, 2 LexB
    lt = c.get("lt", 0)
    st = c["st"] + (3 if lt else 0)
    stc = st if ST_IN_CACHE else 0
    lxc = lt if LX_IN_CACHE else 0
    return [c["yk"], c["rec"], c["vis"], c["ed"], c["eoc"], c["wae"], c["sw"], c["ser"], c["mod"], st, stc, lt, lxc,
            c["lvis"], c["led"], c["lmod"], c["lci"]]


def hx(s):
    return s.encode().hex()


def harness_line(mode, c, ypath, yout, lpath, lout, api="build"):
    kv = ["mode=%s" % mode, "api=%s" % ("pf" if (api == "process_file" and mode == "P") else "build"), "y=%s" % hx(ypath), "yout=%s" % hx(yout), "l=%s" % hx(lpath), "lout=%s" % hx(lout)]
    for name, key, vals in OPTS:
        if not opt_in_mode(name, mode):
            continue
        kv.append("%s=%s" % (key, vals[c[name]]))
    return " ".join(kv)


# ---- history generation ------------------------------------------------------
def gen_history(rng, mode, maxlen):
    """list of ops: ('Y', gid) | ('L', lid) | ('S', optname, value) | ('B',)"""
    n = rng.randint(3, maxlen)
    ops = []
    c = dict(DEFAULT)
    cur_g, cur_l = None, None
    names = [o for o in OPT_NAMES if opt_in_mode(o, mode)]
    while len(ops) < n:
        r = rng.random()
        if r < 0.42 or len(ops) == n - 1:
            ops.append(("B",))
        elif r < 0.64:
            q = rng.random()
            if q < 0.45:
                g = rng.choice(VALID_G)
            elif q < 0.60:
                g = rng.choice(SYN_G)
            elif q < 0.75:
                g = rng.choice(CONF_G)
            elif q < 0.87:
                g = rng.choice(WARN_G)
            else:
                g = cur_g if cur_g is not None else 0     # touch: same text, fresh mtime
            cur_g = g
            ops.append(("Y", g))
        elif r < 0.74 and mode == "C":
            q = rng.random()
            l = rng.choice(VALID_L) if q < 0.6 else rng.choice(SYN_L) if q < 0.8 else rng.choice(MISS_L) if q < 0.9 else (cur_l or 0)
            cur_l = l
            ops.append(("L", l))
        else:
            name = rng.choice(names)
            nvals = len([o for o in OPTS if o[0] == name][0][2])
            v = rng.choice([x for x in range(nvals) if x != c[name]])
            c[name] = v
            ops.append(("S", name, v))
    return ops


def default_times(ops):
    return list(range(1, len(ops) + 1))


def random_times(rng, ops):
    """non-decreasing logical times: an operation happens in the same tick as the one before it
    with probability 0.3 (an edit stamped exactly like the output the last build wrote; a build in
    the tick of the edit before it), otherwise one tick later"""
    ts, t = [], 0
    for k, _ in enumerate(ops):
        if k == 0 or rng.random() >= 0.3:
            t += 1
        ts.append(t)
    return ts


def same_tick_histories():
    """equal modification times: (a) grammar / lexer edited in the tick of the output the previous
    build wrote; (b) a build in the tick of the edit before it, so that the output it writes is
    not newer than its source and the first rebuild must regenerate"""
    B = ("B",)
    hs = []
    for mode in ("P", "C"):
        hs.append((mode, 0, 0, [B, ("Y", 1), B, B], [1, 1, 2, 3]))
        hs.append((mode, 0, 0, [B, ("Y", 2), B, ("Y", 1), B], [1, 1, 1, 1, 2]))
        hs.append((mode, 0, 0, [("Y", 1), B, B, B], [1, 1, 2, 3]))
        hs.append((mode, 0, 0, [B, B, ("Y", 4), B, ("Y", 30), B, ("Y", 0), B], [1, 2, 2, 3, 3, 4, 4, 4]))
        hs.append((mode, 0, 0, [B, ("S", "vis", 1), B, ("Y", 0), B], [1, 1, 2, 2, 3]))
    hs.append(("C", 0, 0, [B, ("L", 1), B, B], [1, 1, 2, 3]))
    hs.append(("C", 0, 0, [B, ("L", 1), B, ("L", 2), ("Y", 1), B], [1, 1, 1, 1, 1, 2]))
    hs.append(("C", 0, 0, [("L", 2), B, B], [1, 1, 2]))
    return hs


def targeted_histories():
    """build, change exactly one option, build (every option, every other value,
    both modes); plus the corpus of the known shapes."""
    hs = []
    for mode in ("P", "C"):
        for name, _, vals in OPTS:
            if not opt_in_mode(name, mode):
                continue
            for v in range(len(vals)):
                if v != DEFAULT[name]:
                    hs.append((mode, 0, 0, [("B",), ("S", name, v), ("B",), ("B",)]))
    # every ordered pair of values of every option (a change between two non-default values must regenerate too:
    # a cache text that is only searched for, not delimited, lets `Public` pass for `PublicCrate`)
    for mode in ("P", "C"):
        for name, _, vals in OPTS:
            if not opt_in_mode(name, mode):
                continue
            for a in range(len(vals)):
                for b in range(len(vals)):
                    if a != b and a != DEFAULT[name]:
                        hs.append((mode, 0, 0, [("S", name, a), ("B",), ("S", name, b), ("B",), ("B",)]))
    # a grammar with 150 tokens (paired with its own lexer only)
    for mode in ("P", "C"):
        hs.append((mode, 5, 3, [("B",), ("B",), ("S", "vis", 1), ("B",), ("B",)]))
        hs.append((mode, 5, 3, [("B",), ("Y", 6), ("B",), ("B",), ("Y", 6), ("B",), ("Y", 5), ("B",)]))
    # token names containing */ /* " ' \\ // { and a non-ASCII character (paired with their own lexer only): an unchanged
    # configuration must be recognised as unchanged whatever the names are; an edit must regenerate
    for mode in ("P", "C"):
        hs.append((mode, 7, ODD_L, [("B",), ("B",), ("B",)]))
        hs.append((mode, 7, ODD_L, [("B",), ("B",), ("S", "vis", 1), ("B",), ("B",)]))
        hs.append((mode, 7, ODD_L, [("B",), ("Y", 8), ("B",), ("B",), ("Y", 8), ("B",), ("Y", 7), ("B",), ("B",)]))
        hs.append((mode, 8, ODD_L, [("S", "mod", 1), ("B",), ("B",), ("S", "st", 1), ("B",), ("B",)]))
    for mode in ("P", "C"):
        hs.append((mode, 0, 0, [("B",), ("Y", 30), ("B",), ("Y", 1), ("B",)]))            # syntax error after a good build
        hs.append((mode, 0, 0, [("B",), ("Y", 10), ("B",), ("S", "eoc", 0), ("B",), ("S", "eoc", 1), ("B",)]))
        hs.append((mode, 20, 0, [("S", "wae", 0), ("B",), ("S", "wae", 1), ("B",), ("S", "wae", 0), ("B",)]))
        hs.append((mode, 0, 0, [("B",), ("Y", 0), ("B",), ("Y", 2), ("B",), ("B",)]))     # touch, token map change
    hs.append(("C", 0, 0, [("B",), ("L", 20), ("Y", 1), ("B",), ("L", 1), ("B",)]))
    hs.append(("C", 0, 0, [("B",), ("L", 10), ("Y", 2), ("B",), ("L", 0), ("B",), ("B",)]))
    hs.append(("C", 0, 0, [("B",), ("L", 1), ("B",), ("L", 1), ("B",)]))
    return hs


def tf_histories(rng, nrandom):
    """mode C, grammars with a `test_files` key.  Operations: the ones of the other histories plus ('T', tf): the set of
    files the glob matches becomes TF[tf] (a test file edited / added / removed).  Returns (g0, l0, tf0, ops, times)."""
    B = ("B",)
    shapes = [
        # audit 1: build; edit the LEXER so that the test file no longer lexes; build (clean: Err, no file)
        (40, 1, 1, [B, ("L", 0), B, B, ("L", 1), B]),                 # ok; the edit makes `1_0` unlexable; restored
        (40, 0, 1, [B, ("L", 1), B, ("L", 0), B, B]),                 # starts failing; lexer 1 knows `_`; lexer 0 does not
        (40, 0, 0, [B, ("L", 2), B, ("T", 3), B, B, ("L", 0), B]),    # `07` under lexer 2: two INTs
        (41, 1, 0, [B, ("T", 1), B, ("L", 2), B, ("T", 0), B]),       # edit a test file (fine), then the lexer
        # edit / add / remove test files only
        (40, 0, 0, [B, ("T", 1), B, B, ("T", 0), B]),
        (40, 0, 0, [B, ("T", 2), B, ("T", 0), B]),                    # add a failing test file, remove it again
        (42, 2, 0, [B, ("T", 4), B, B, ("Y", 42), B, ("T", 0), B]),   # parse error; a touch of the grammar re-runs the check
        (40, 0, 0, [B, ("T", 5), B, ("T", 0), B]),                    # all test files removed: the glob matches nothing
        # the check re-runs whenever the parser regenerates
        (40, 0, 0, [B, ("T", 1), ("S", "vis", 1), B, ("T", 0), B, B]),
        (40, 0, 0, [B, ("T", 1), ("Y", 41), B, ("T", 0), B]),
        (40, 0, 0, [B, ("L", 2), ("T", 3), ("Y", 30), B, ("Y", 40), B]),
        # a lexer that also lacks a token: the build panics after a parser stage that skipped the inspector
        (40, 0, 0, [B, ("L", 10), B, ("L", 0), B]),
        (40, 0, 3, [B, ("L", 10), B, B]),                             # `07` has no `*`: accepted, the build panics, as does a clean one
        # a grammar without the key in between
        (0, 0, 1, [B, ("Y", 40), B, ("L", 1), B, ("Y", 0), ("L", 0), B, B]),
        (40, 1, 1, [B, ("L", 20), B, ("L", 0), B, ("L", 1), B]),      # lexer syntax error in between
    ]
    hs = [(g0, l0, tf0, ops, default_times(ops)) for (g0, l0, tf0, ops) in shapes]
    hs.append((40, 1, 1, [B, ("L", 0), B, B], [1, 1, 2, 3]))          # the lexer edit in the tick of the outputs
    hs.append((40, 0, 0, [B, ("T", 1), B, ("T", 0), ("Y", 41), B], [1, 1, 1, 2, 2, 2]))
    for _ in range(nrandom):
        n = rng.randint(4, 12)
        g0, l0, tf0 = rng.choice(TF_G), rng.choice(VALID_L), rng.choice([0, 0, 0, 1, 3])
        ops, c = [], dict(DEFAULT)
        names = [o for o in OPT_NAMES if opt_in_mode(o, "C")]
        while len(ops) < n:
            r = rng.random()
            if r < 0.40 or len(ops) == n - 1:
                ops.append(B)
            elif r < 0.58:
                ops.append(("L", rng.choice(VALID_L + VALID_L + VALID_L + MISS_L + SYN_L[:1])))
            elif r < 0.78:
                ops.append(("T", rng.choice([0, 0, 1, 2, 3, 3, 4, 5])))
            elif r < 0.90:
                ops.append(("Y", rng.choice(TF_G + TF_G + [0, 30, 10])))
            else:
                name = rng.choice(names)
                nvals = len([o for o in OPTS if o[0] == name][0][2])
                c[name] = rng.choice([x for x in range(nvals) if x != c[name]])
                ops.append(("S", name, c[name]))
        hs.append((g0, l0, tf0, ops, random_times(rng, ops) if rng.random() < 0.4 else default_times(ops)))
    return hs


def process_file_histories():
    """histories replayed through BOTH entry points of the parser builder (mode P): build() and the deprecated but
    public process_file(&mut self, in, out), which copies the builder field by field and is expected to behave exactly
    like build() (the mirror does not distinguish them).  Returns (api, mode, g0, l0, ops, times)."""
    B = ("B",)
    shapes = [
        (0, [B, ("Y", 32), B, ("Y", 0), B]),                         # good build -> undefined rule -> build -> repaired
        (0, [B, ("Y", 30), B, B, ("Y", 1), B]),                      # good build -> syntax error
        (0, [B, ("Y", 31), B, ("Y", 31), B]),
        (0, [B, ("Y", 20), B, ("Y", 0), B]),                         # good build -> warning with warnings_are_errors
        (0, [B, ("S", "wae", 0), ("Y", 20), B, ("S", "wae", 1), B, ("S", "wae", 0), B]),
        (20, [B, ("S", "wae", 0), B, ("Y", 21), B, ("S", "eoc", 0), B, ("S", "wae", 1), B]),
        (0, [B, ("Y", 10), B, ("Y", 0), B]),                         # good build -> unexpected conflicts
        (0, [B, ("S", "eoc", 0), ("Y", 10), B, ("S", "eoc", 1), B, B]),
        (3, [B, ("Y", 11), B, ("Y", 3), B, B]),                      # %expect right -> wrong -> right
        (30, [B, ("Y", 0), B, ("Y", 30), B, ("Y", 32), B]),          # starts broken
        (4, [B, ("S", "mod", 1), ("Y", 32), B, ("S", "mod", 0), B]), # option change together with a broken grammar
        (0, [B, ("S", "st", 0), B, ("Y", 30), B, ("S", "st", 2), B]),
        (5, [B, ("Y", 32), B, ("Y", 6), B, B]),
    ]
    hs = []
    for api in ("process_file", "build"):
        for g0, ops in shapes:
            hs.append((api, "P", g0, 0, ops, default_times(ops)))
    # same tick: the broken edit carries the time stamp of the output the good build wrote / the build happens in
    # the tick of the edit
    for api in ("process_file", "build"):
        hs.append((api, "P", 0, 0, [B, ("Y", 32), B, ("Y", 0), B], [1, 1, 1, 2, 2]))
        hs.append((api, "P", 0, 0, [B, ("Y", 20), B, B], [1, 1, 2, 3]))
    # the targeted mode-P histories of the build() entry point, again through process_file
    k = 0
    for (mode, g0, l0, ops) in targeted_histories():
        if mode != "P":
            continue
        pair_family = len(ops) == 5 and ops[0][0] == "S"
        if pair_family:
            k += 1
            if k % 3:
                continue
        hs.append(("process_file", mode, g0, l0, ops, default_times(ops)))
    for (mode, g0, l0, ops, ts) in same_tick_histories():
        if mode == "P":
            hs.append(("process_file", mode, g0, l0, ops, ts))
    return hs


def model_line(mode, g0, l0, ops, times, tf0=None):
    def ysrc(g):
        _, syn, warn, conf, toks = _G[g]
        return "%d %d %d %d %d" % (g, syn, warn, conf, toks)

    def lsrc(l):
        _, syn, miss = _L[l]
        return "%d %d %d" % (l, syn, miss)
    c = dict(DEFAULT)
    parts = []
    for t, o in zip(times, ops):
        if o[0] == "B":
            parts.append("%d B" % t)
        elif o[0] == "Y":
            parts.append("%d Y %s" % (t, ysrc(o[1])))
        elif o[0] == "L":
            parts.append("%d L %s" % (t, lsrc(o[1])))
        elif o[0] == "T":
            parts.append("%d T %d" % (t, o[1]))
        else:
            c[o[1]] = o[2]
            parts.append("%d S %s" % (t, " ".join(map(str, settings_ints(c)))))
    # last field: the inspector's verdict as a table (histories without test files: accepts everything)
    return "%s %d %d | %s | %s | %s | %s | %s" % (mode, 1 if STALE_FIXED else 0, tf0 or 0, ysrc(g0), lsrc(l0),
                                                " ".join(map(str, settings_ints(DEFAULT))), " ; ".join(parts),
                                                tf_rejected() if tf0 is not None else "")


# ---- running the real builders -----------------------------------------------
_TS_LEX = re.compile(r"^// lrlex build time: .*\n", re.M)
_TS_PAR = re.compile(r'BUILD_TIME = \\"[^"]*\\"')


_STABLE = re.compile(r"(const __STABLE_DATA: &\[u8\] = &\[)([^\]]*)(\];)")


def _sort_bytes(m):
    # the serialised state table of a grammar WITH conflicts lists the conflicts in hash-map
    # order (differs from process to process, also between two clean builds): compare the
    # table as a multiset of bytes
    toks = sorted(x.strip() for x in m.group(2).split(",") if x.strip())
    return m.group(1) + " ".join(toks) + m.group(3)


def norm(data, casedir):
    s = data.decode("utf-8", "replace")
    s = _TS_LEX.sub("", s)
    s = _STABLE.sub(_sort_bytes, s)
    s = _TS_PAR.sub("BUILD_TIME = <T>", s)
    # (a history may keep its sources in `src*` instead of `src`: the content class does not depend on that)
    return s.replace(casedir, "<CASE>").replace("<CASE>/src*/", "<CASE>/src/")


def read_norm(path, casedir):
    if not os.path.exists(path):
        return None
    with open(path, "rb") as f:
        return norm(f.read(), casedir)


def classify(out, ypath, lpath):
    """harness result line -> (class, regenerated or None)"""
    m = re.match(r"P:(\S+) L:(\S+)$", out.strip())
    if not m:
        return ("harness:" + out[:60], None)
    p, l = m.group(1), m.group(2)

    def err_class(h):
        msg = bytes.fromhex(h).decode("utf-8", "replace")
        if lpath and lpath in msg:
            return "err_lsyntax"
        if msg.lstrip().startswith("While parsing ") or "'test_files' glob" in msg:
            return "err_inspect"
        if "conflict" in msg:
            return "err_yconflict"
        if ypath in msg and ("Unused" in msg or "[Warning]" in msg):
            return "err_ywarn"
        if ypath in msg:
            return "err_ysyntax"
        return "err_other:" + msg[:80]
    regen = None
    for part in (p, l):
        if part.startswith("ok:") and part[3] in "01":
            regen = part[3] == "1"
    for part in (p, l):
        if part == "panic":
            return ("panic", regen)
        if part.startswith("err:"):
            return (err_class(part[4:]), regen)
    return ("ok", regen)


def spawn(exe, line, env=None):
    p = subprocess.run([exe], input=line + "\n", stdout=subprocess.PIPE, stderr=subprocess.PIPE, text=True, timeout=120,
                       env=dict(os.environ, **env) if env else None)
    out = p.stdout.strip().splitlines()
    return out[-1] if out else "CRASH rc=%s %s" % (p.returncode, p.stderr[-200:].replace("\n", " "))


def set_mtime(path, t):
    os.utime(path, (BASE_T + 100 * t, BASE_T + 100 * t))


def write_test_files(src, tf):
    for f in os.listdir(src):
        if f.endswith(".c18in"):
            os.unlink(os.path.join(src, f))
    for name, text in TF[tf].items():
        with open(os.path.join(src, name), "w") as f:
            f.write(text)
        set_mtime(os.path.join(src, name), 0)      # nobody reads these times


def run_history(exe, idx, mode, g0, l0, ops, times, symlink=False, api="build", stardir=False, tf0=None):
    """replays one history; returns per-op observations.  With symlink=True the grammar and lexer paths handed to the
    builders are symbolic links (whose own timestamps never change) to the files that are edited."""
    casedir = os.path.join(WORKROOT, "h%05d" % idx)
    shutil.rmtree(casedir, ignore_errors=True)
    # stardir: the grammar lives in a directory whose name ends in '*': its path (recorded by the parser builder)
    # contains the two characters "*/"
    src, out = os.path.join(casedir, "src*" if stardir else "src"), os.path.join(casedir, "out")
    os.makedirs(src)
    os.makedirs(out)
    ypath, lpath = os.path.join(src, "g.y"), os.path.join(src, "l.l")
    yout, lout = os.path.join(out, "g.y.rs"), os.path.join(out, "l.l.rs")
    if symlink:
        for link, real in ((ypath, os.path.join(src, "real_g.y")), (lpath, os.path.join(src, "real_l.l"))):
            open(real, "w").close()
            os.symlink(real, link)
            os.utime(link, (BASE_T, BASE_T), follow_symlinks=False)
    with open(ypath, "w") as f:
        f.write(_G[g0][0])
    with open(lpath, "w") as f:
        f.write(_L[l0][0])
    set_mtime(ypath, 0)
    set_mtime(lpath, 0)
    if tf0 is not None:
        write_test_files(src, tf0)
    c = dict(DEFAULT)
    obs = []
    nclean = 0
    for t, o in zip(times, ops):
        if o[0] == "Y":
            with open(ypath, "w") as f:
                f.write(_G[o[1]][0])
            set_mtime(ypath, t)
            obs.append(None)
        elif o[0] == "L":
            with open(lpath, "w") as f:
                f.write(_L[o[1]][0])
            set_mtime(lpath, t)
            obs.append(None)
        elif o[0] == "S":
            c[o[1]] = o[2]
            obs.append(None)
        elif o[0] == "T":
            write_test_files(src, o[1])
            obs.append(None)
        else:
            before = {}
            for k, pth in (("y", yout), ("l", lout)):
                before[k] = os.stat(pth).st_mtime_ns if os.path.exists(pth) else None
            res = spawn(exe, harness_line(mode, c, ypath, yout, lpath, lout, api))
            written = {}
            for k, pth in (("y", yout), ("l", lout)):
                if os.path.exists(pth):
                    written[k] = os.stat(pth).st_mtime_ns != before[k]
                    if written[k]:
                        set_mtime(pth, t)
                else:
                    written[k] = False
            # the same sources and settings into an empty directory
            nclean += 1
            cdir = os.path.join(casedir, "clean%d" % nclean)
            os.makedirs(cdir)
            cy, cl = os.path.join(cdir, "g.y.rs"), os.path.join(cdir, "l.l.rs")
            cres = spawn(exe, harness_line(mode, c, ypath, cy, lpath, cl, api))
            obs.append({
                "res": classify(res, ypath, lpath), "raw": res,
                "y": read_norm(yout, casedir), "l": read_norm(lout, casedir),
                "yw": written["y"], "lw": written["l"],
                "cres": classify(cres, ypath, lpath),
                "cy": read_norm(cy, casedir), "cl": read_norm(cl, casedir),
            })
            shutil.rmtree(cdir, ignore_errors=True)
    shutil.rmtree(casedir, ignore_errors=True)
    return obs


def sha(s):
    return None if s is None else hashlib.sha1(s.encode()).hexdigest()[:16]


def parse_model(line):
    steps = []
    for fld in line.split(" | "):
        d = dict(kv.split("=", 1) for kv in fld.split())
        steps.append(d)
    return steps


def desc(x):
    """'Y0:...@3' -> ('Y0:...', 3)"""
    if x == "-":
        return (None, None)
    a, b = x.rsplit("@", 1)
    return (a, int(b))


def st_only_diff(a, b):
    """two parser descriptors that differ exactly in the type parameter"""
    if a is None or b is None:
        return False
    pa, pb = a.rsplit(":", 1), b.rsplit(":", 1)
    return pa[0] == pb[0] and pa[1] != pb[1]


def describe_tf_history(g0, l0, tf0, ops):
    w = ["grammar %d (test_files: [\"*.c18in\"]), lexer %d, test files %s" % (g0, l0, json.dumps(TF[tf0]))]
    for o in ops:
        w.append({"B": "build", "Y": "grammar := %s", "L": "lexer := %s", "T": "test files := %s", "S": "%s := %s"}[o[0]] % (
            () if o[0] == "B" else (json.dumps(TF[o[1]]),) if o[0] == "T" else tuple(o[1:])))
    return "; ".join(w)


def run(ctx):
    global STALE_FIXED, ST_IN_CACHE, LX_IN_CACHE, TOKMAP_CLEANUP_FIXED
    if os.environ.get("C18_TOKMAP_CLEANUP_FIXED"):
        TOKMAP_CLEANUP_FIXED = os.environ["C18_TOKMAP_CLEANUP_FIXED"] == "1"
    # (for trying the check against a repaired copy of the crates: C18_EXE=<harness built against it>)
    if os.environ.get("C18_STALE_FIXED"):
        STALE_FIXED = os.environ["C18_STALE_FIXED"] == "1"
    if os.environ.get("C18_ST_IN_CACHE"):
        ST_IN_CACHE = os.environ["C18_ST_IN_CACHE"] == "1"
    if os.environ.get("C18_LX_IN_CACHE"):
        LX_IN_CACHE = os.environ["C18_LX_IN_CACHE"] == "1"
    ctx.gate = core.proof_gate("C18")
    for _ in ctx.gate["theorems"]:
        ctx.oblige(True)
    exe = os.environ.get("C18_EXE") or core.build_harness("c18")
    mexe = core.build_model("c18")
    rng = ctx.rng
    shutil.rmtree(WORKROOT, ignore_errors=True)
    os.makedirs(WORKROOT, exist_ok=True)
    try:
        _run(ctx, exe, mexe, rng)
    finally:
        shutil.rmtree(WORKROOT, ignore_errors=True)


# ---- static part: what the rebuild-cache string covers --------------------------
# fields of CTParserBuilder that rebuild_cache ignores and says so in its comments
IGNORED_FIELDS_OK = {"grammar_src", "from_ast", "output_path", "inspect_rt", "inspect_callback", "phantom"}
# recorded fields / type names -> the option of the histories that changes them (None: constant of a history)
FIELD_OPTION = {"grammar_path": None, "mod_name": "mod", "recoverer": "rec", "yacckind": "yk", "error_on_conflicts": "eoc",
                "warnings_are_errors": "wae", "show_warnings": "sw", "visibility": "vis", "rust_edition": "ed",
                "serialisation_format": "ser"}
TYPE_OPTION = {"StorageT": "st", "LexerTypesT": "st (and lt)", "LexerTypesT::LexemeT": "lt"}
# the keys of cache_info the mirror's `cache` record stands for (coq/theories/C18/Model.v)
CACHE_KEYS = {"BUILD_TIME", "DERIVED_MOD_NAME", "ENCODING_CONFIG", "GRAMMAR_PATH", "MOD_NAME", "RECOVERER", "YACC_KIND",
              "ERROR_ON_CONFLICTS", "SHOW_WARNINGS", "WARNINGS_ARE_ERRORS", "RUST_EDITION", "STORAGE_T", "LEXER_TYPES_T",
              "LEXEME_T", "RULE_IDS_MAP", "VISIBILITY"}


def rust_code_only(src):
    """comments removed, contents of string / char literals blanked (same length is not kept)"""
    out, i, n = [], 0, len(src)
    while i < n:
        c = src[i]
        if src.startswith("//", i):
            j = src.find("\n", i)
            i = n if j < 0 else j
        elif src.startswith("/*", i):
            depth, i = 1, i + 2
            while i < n and depth:
                if src.startswith("/*", i):
                    depth, i = depth + 1, i + 2
                elif src.startswith("*/", i):
                    depth, i = depth - 1, i + 2
                else:
                    i += 1
            out.append(" ")
        elif c == "r" and re.match(r'r#*"', src[i:i + 12]) and (i == 0 or not (src[i - 1].isalnum() or src[i - 1] == "_")):
            m = re.match(r'r(#*)"', src[i:i + 12])
            end = src.find('"' + m.group(1), i + len(m.group(0)))
            out.append('""')
            i = n if end < 0 else end + 1 + len(m.group(1))
        elif c == '"':
            i += 1
            while i < n and src[i] != '"':
                i += 2 if src[i] == "\\" else 1
            i += 1
            out.append('""')
        elif c == "'":
            m = re.match(r"'(\\.[^']*|[^\\'])'", src[i:i + 12])
            if m:
                out.append("' '")
                i += len(m.group(0))
            else:
                out.append(c)       # a lifetime
                i += 1
        else:
            out.append(c)
            i += 1
    return "".join(out)


def _block(code, start, open_ch="{", close_ch="}"):
    """(index of the first `open_ch` at or after start, index just after its partner)"""
    a = code.index(open_ch, start)
    depth, i = 0, a
    while i < len(code):
        if code[i] == open_ch:
            depth += 1
        elif code[i] == close_ch:
            depth -= 1
            if depth == 0:
                return a, i + 1
        i += 1
    raise ValueError("unbalanced")


def _split_top(text, sep=","):
    """split at `sep` outside any bracket (`->` is not a closing angle bracket)"""
    parts, depth, cur, i = [], 0, [], 0
    while i < len(text):
        c = text[i]
        if text.startswith("->", i):
            cur.append("->")
            i += 2
            continue
        if c in "([{<":
            depth += 1
        elif c in ")]}>":
            depth -= 1
        if c == sep and depth == 0:
            parts.append("".join(cur))
            cur = []
        else:
            cur.append(c)
        i += 1
    parts.append("".join(cur))
    return [x.strip() for x in parts if x.strip()]


def _type_name_args(code):
    """[(position, X)] for every `type_name::<X>()`"""
    res = []
    for m in re.finditer(r"\btype_name\s*::\s*<", code):
        depth, i = 1, m.end()
        while i < len(code) and depth:
            if code.startswith("->", i):
                i += 2
                continue
            depth += code[i] == "<"
            depth -= code[i] == ">"
            i += 1
        if re.match(r"\s*\(\s*\)", code[i:i + 8]):
            res.append((m.start(), re.sub(r"\s+", "", code[m.end():i - 1])))
    return res


def _lets(body):
    """[(position, bound name, expression)] of the `let` statements of a function body"""
    res = []
    for m in re.finditer(r"\blet\s+(?:mut\s+)?(\w+)\s*(?::[^=;]+)?=(?!=)", body):
        depth, i = 0, m.end()
        while i < len(body):
            c = body[i]
            if c in "([{":
                depth += 1
            elif c in ")]}":
                depth -= 1
            elif c == ";" and depth == 0:
                break
            i += 1
        res.append((m.start(), m.group(1), body[m.end():i]))
    return res


def static_cache_coverage(ctx, path=None):
    """The class of /repo 9933a08 (LexemeT) and 0fd20df (StorageT), decided on the source text: whatever the code generator
    reads from the builder must be in the string the skip decision compares."""
    path = path or os.path.join(core.REPO, "lrpar", "src", "lib", "ctbuilder.rs")
    rel = "lrpar/src/lib/ctbuilder.rs"
    problems = []          # (what, detail dict)
    try:
        code = rust_code_only(open(path, encoding="utf-8").read())
        fa, fb = _block(code, code.index("fn rebuild_cache"))
        body = code[fa:fb]
        lets = _lets(body)
        qa, qb = _block(body, body.index("let cache_info"))
        cache_info = body[qa:qb]
        keys = set(re.findall(r"\b([A-Z][A-Z_]*[A-Z])\s*=\s*[#\[]", cache_info))
        spliced = set(re.findall(r"#\(?\s*#?(\w+)", cache_info))
        tail = body[max([p for p, _, _ in lets] + [0]):]
        tail = tail[tail.index(";") + 1:] if ";" in tail else tail

        def reaches_cache(name, after):
            """does the value bound to `name` (at position `after`) flow into cache_info and from there into the result?"""
            reach = {name}
            in_cache = False
            for pos, lhs, expr in lets:
                if pos <= after:
                    continue
                if any(re.search(r"(?<![\w.])%s\b" % re.escape(v), expr) for v in reach):
                    if lhs == "cache_info":
                        in_cache = any(v in spliced for v in reach)
                    reach.add(lhs)
            return in_cache and "cache_info" in reach and any(re.search(r"\b%s\b" % re.escape(v), tail) for v in reach)

        # (a) type names
        inside, outside = {}, {}
        for pos, x in _type_name_args(code):
            (inside if fa <= pos < fb else outside).setdefault(x, []).append(pos)
        line_of = lambda pos: code.count("\n", 0, pos) + 1
        for x, poss in sorted(outside.items()):
            ok = False
            for pos, lhs, expr in lets:
                if re.sub(r"\s+", "", expr) == "type_name::<%s>()" % x and reaches_cache(lhs, pos - 1):
                    ok = True
            ctx.case("static type_name::<%s>" % x, True, {"static_cache_coverage": "type_name::<%s>() used outside rebuild_cache" % x,
                                                          "uses": len(poss), "recorded": ok})
            ctx.count("static_type_names_checked")
            if not ok:
                problems.append(("type name spliced into the generated code but not recorded in the rebuild cache",
                                 {"type_name_argument": x, "used_outside_rebuild_cache_at_comment_stripped_lines": [line_of(p) for p in poss][:8],
                                  "history": "build; change the builder's type parameter so that `%s` names another type while every "
                                             "recorded name stays the same; build -> not regenerated, the old type name stays in the "
                                             "generated code (histories: option `%s`)" % (x, TYPE_OPTION.get(x, "none: unknown to the histories"))}))
            elif x not in TYPE_OPTION:
                problems.append(("a type name the mirror does not know is spliced into the generated code (recorded in the cache, but "
                                 "no history changes it: settings of coq/theories/C18/Model.v)", {"type_name_argument": x}))
        # (b) fields of the builder
        sa, sb = _block(code, code.index("pub struct CTParserBuilder"))
        fields = []
        for seg in _split_top(re.sub(r"#\s*\[[^\]]*\]", " ", code[sa + 1:sb - 1])):
            m = re.match(r"(?:pub(?:\([^)]*\))?\s+)?(\w+)\s*:", seg)
            if m:
                fields.append(m.group(1))
        dm = re.search(r"\blet\s+Self\s*\{", body)
        da, db = _block(body, dm.start())
        pat = {}
        for seg in _split_top(re.sub(r"#\s*\[[^\]]*\]", " ", body[da + 1:db - 1])):
            if seg.startswith(".."):
                pat[".."] = "_"
                continue
            m = re.match(r"(?:ref\s+)?(?:mut\s+)?(\w+)\s*(?::\s*(.+))?$", seg, re.S)
            pat[m.group(1)] = (m.group(2) or m.group(1)).strip()
        if ".." in pat:
            problems.append(("rebuild_cache destructures the builder with `..`: fields can be left out of the cache silently", {}))
        for f in fields:
            ctx.case("static field %s" % f, True, {"static_cache_coverage": "CTParserBuilder.%s" % f, "pattern": pat.get(f)})
            ctx.count("static_builder_fields_checked")
            b = pat.get(f)
            hist = ("build; change `%s` on the builder (everything else unchanged); build -> not regenerated "
                    "(histories: option `%s`)" % (f, FIELD_OPTION.get(f) or "none"))
            if b is None:
                if ".." not in pat:
                    problems.append(("a field of CTParserBuilder is missing from the pattern of rebuild_cache", {"field": f}))
                elif f not in IGNORED_FIELDS_OK:
                    problems.append(("a field of CTParserBuilder is not recorded in the rebuild cache (hidden by `..`)", {"field": f, "history": hist}))
            elif b == "_":
                if f not in IGNORED_FIELDS_OK:
                    problems.append(("a field of CTParserBuilder is ignored by rebuild_cache (`%s: _`) and is not one of the fields the "
                                     "code documents as ignored %s" % (f, sorted(IGNORED_FIELDS_OK)), {"field": f, "history": hist}))
            else:
                if not reaches_cache(b, db):
                    problems.append(("a field of CTParserBuilder is bound by rebuild_cache but does not reach cache_info", {"field": f, "history": hist}))
                elif f not in FIELD_OPTION:
                    problems.append(("a recorded field of CTParserBuilder that the mirror does not know (settings of "
                                     "coq/theories/C18/Model.v): no history changes it", {"field": f}))
        for f in sorted(set(FIELD_OPTION) - set(fields)):
            problems.append(("a builder field the mirror's settings stand for no longer exists", {"field": f}))
        # (c) the keys of the cache string
        for k in sorted(CACHE_KEYS - keys):
            problems.append(("a key of the cache string the mirror's `cache` record stands for is gone", {"key": k}))
        ctx.coverage["static_cache_coverage"] = {
            "file": rel, "type_name_arguments_outside_rebuild_cache": sorted(outside), "recorded_in_rebuild_cache": sorted(inside),
            "builder_fields": fields, "ignored_by_rebuild_cache": sorted(f for f in fields if pat.get(f) == "_"),
            "cache_keys": sorted(keys), "cache_keys_unknown_to_the_mirror": sorted(keys - CACHE_KEYS)}
    except Exception as e:       # the source no longer has the shape this part reads
        problems.append(("static_cache_coverage could not read %s (%s: %s)" % (rel, type(e).__name__, e), {}))
    for what, detail in problems:
        ctx.violation(dict(detail, part="static_cache_coverage", file=rel, what=what,
                           theorem="C18_cache_records_all_generated_inputs / C18_type_params_recorded_cache_injective assume that "
                                   "the recorded vector is the one of the mirror"), no_input=True)
    ctx.oblige(not problems, "static_cache_coverage")
    return problems


def panic_probe(ctx, exe):
    """A build that ends in the documented 'StorageT is not big enough' panic is a failing build: a clean build with the
    same sources and settings produces no file, so no generated file of an earlier build may be left behind.  (The
    Coq mirror has no notion of a grammar too big for the storage type; this clause is evaluated directly.)"""
    toks = ["T%d" % i for i in range(300)]
    ysrc = _H + "%%\nE: " + " | ".join("'%s' { %d }" % (t, i) for i, t in enumerate(toks)) + " ;\n"
    lsrc = "%%\n" + "".join("x%dy \"%s\"\n" % (i, t) for i, t in enumerate(toks)) + "[ \\t\\n]+ ;\n"
    nbad = 0
    for mode in ("P", "C"):
        casedir = os.path.join(WORKROOT, "panic_" + mode)
        shutil.rmtree(casedir, ignore_errors=True)
        src, out = os.path.join(casedir, "src"), os.path.join(casedir, "out")
        os.makedirs(src)
        os.makedirs(out)
        ypath, lpath = os.path.join(src, "g.y"), os.path.join(src, "l.l")
        yout, lout = os.path.join(out, "g.y.rs"), os.path.join(out, "l.l.rs")
        open(ypath, "w").write(ysrc)
        open(lpath, "w").write(lsrc)
        set_mtime(ypath, 0)
        set_mtime(lpath, 0)
        c = dict(DEFAULT)
        steps = []
        for k, st in enumerate((2, 0, 2)):          # u32, u8 (too small: 301 tokens), u32 again
            c["st"] = st
            res = spawn(exe, harness_line(mode, c, ypath, yout, lpath, lout))
            for pth in (yout, lout):
                if os.path.exists(pth):
                    set_mtime(pth, k + 1)
            steps.append({"storage": ["u8", "u16", "u32"][st], "result": classify(res, ypath, lpath)[0], "raw": res[:120],
                          "parser_output_exists": os.path.exists(yout), "lexer_output_exists": os.path.exists(lout)})
        ok0 = steps[0]["result"] == "ok" and steps[0]["parser_output_exists"] and (mode == "P" or steps[0]["lexer_output_exists"])
        ok2 = steps[2]["result"] == "ok" and steps[2]["parser_output_exists"]
        left = steps[1]["parser_output_exists"] or steps[1]["lexer_output_exists"]
        ctx.case("panic-probe " + mode, True, {"mode": mode, "steps": steps})
        ctx.count("panic_probe_%s_%s" % (mode, steps[1]["result"]))
        if not (ok0 and ok2 and steps[1]["result"] == "panic"):
            ctx.violation({"what": "StorageT probe: unexpected outcomes (expected ok, the documented panic, ok)", "mode": mode, "steps": steps},
                          no_input=True)
            nbad += 1
        elif left:
            ctx.violation({"what": "a build that panics ('StorageT is not big enough') leaves the generated file(s) of the earlier build in "
                                   "place; a clean build with these sources and settings produces none",
                           "history": "300-token grammar: build with u32; switch the builders to u8; build (panics); files still there",
                           "mode": mode, "steps": steps, "kind": "counterexample"},
                          known_key=None if PANIC_CLEANUP_FIXED else K_PANIC)
            if PANIC_CLEANUP_FIXED:
                nbad += 1
        shutil.rmtree(casedir, ignore_errors=True)
    ctx.oblige(nbad == 0, "no generated file survives a panicking build")


# ---- the manual-lexer flow: CTParserBuilder::build ; CTTokenMapBuilder::build (theories/C18/Tok*.v) ------------------
# token-map classes of the grammars below: the declared tokens, in the order of the %token line
M_TOKS = {10: ["PLUS", "INT"], 11: ["*", "PLUS", "INT"], 12: ["PLUS", "INT", "ä", "if"], 13: ["+", "*", "INT"]}


def _mtok(n):
    return n if re.match(r"^[A-Z]+$", n) else "'%s'" % n


def _mg(i, syn, warn, conf, toks, rules):
    head = _H + ("%%token %s\n" % " ".join(_mtok(n) for n in M_TOKS[toks]) if toks in M_TOKS else "")
    _G[i] = (head + "%%\n" + rules, syn, warn, conf, toks)


_mg(100, 1, 0, 0, 10, "E: E PLUS INT { $1 } | INT { 1 } ;\n")                          # the auditor's G1
_mg(101, 1, 0, 0, 10, "E: INT PLUS E { $3 } | INT { 2 } ;\n")
_mg(102, 1, 0, 0, 11, "E: E PLUS INT { $1 } | E '*' INT { $1 } | INT { 1 } ;\n")       # the auditor's G2: '*' declared first
_mg(103, 1, 0, 0, 11, "E: INT PLUS E { $3 } | INT '*' E { $3 } | INT { 2 } ;\n")
_mg(104, 1, 0, 0, 12, "E: E PLUS INT { $1 } | 'if' E 'ä' { $2 } | INT { 1 } ;\n")  # T_IF, T_ä are identifiers
_mg(105, 1, 0, 0, 13, "E: E '+' INT { $1 } | E '*' INT { $1 } | INT { 1 } ;\n")
_mg(110, 1, 0, 1, 10, "E: E PLUS E { $1 } | INT { 1 } ;\n")
_mg(111, 1, 0, 1, 11, "E: E PLUS E { $1 } | E '*' E { $1 } | INT { 1 } ;\n")
_mg(120, 1, 1, 0, 10, "E: E PLUS INT { $1 } | INT { 1 } ;\nU: INT { 0 } ;\n")
_mg(130, 0, 0, 0, 0, "E: E PLUS INT { $1 } | INT { 1 } \nT: ;;; %% {\n")
M_VALID, M_CONF, M_WARN, M_SYN = [100, 101, 102, 103, 104, 105], [110, 111], [120], [130]
# rename maps (0: rename_map not called)
M_REN = {0: None, 1: {"*": "STAR"}, 2: {"*": "STAR", "+": "ADD"}, 3: {"*": "a b"}, 4: {"PLUS": "+"}, 5: {"NOSUCH": "X"},
         6: {"*": "STAR", "PLUS": "ADD"}, 7: {"ä": "AE", "if": "IF_KW"}}
# module names = names of the output file; `a-b` is no identifier (format_ident! panics), `fn` is one for proc_macro2
# (the module then does not parse and is written unformatted)
M_MODS = ["token_map", "tm2", "a-b", "fn"]
M_MODOK = [1, 1, 0, 1]
M_OPTS = {"tmod": len(M_MODS), "tadc": 3, "tren": len(M_REN), "tapi": 2}
M_DEFAULT = {"tmod": 0, "tadc": 0, "tren": 0, "tapi": 0}
M_POPTS = ["yk", "rec", "vis", "ed", "eoc", "wae", "sw", "ser", "mod", "st"]
_m_codes = {}


def m_renamed(toks, ren):
    """the abstract function `renamed` of C18/TokModel.v for the texts above: None if some token name, after renaming, is
    not an identifier once prefixed with T_; else a code for the list of (identifier, id) pairs in the order of the
    generated module (sorted by the ORIGINAL names)"""
    rm = M_REN[ren] or {}
    final = []
    for n in sorted(M_TOKS[toks]):
        f = "".join(ch.upper() if "a" <= ch <= "z" else ch for ch in rm.get(n, n))
        if not ("T_" + f).isidentifier():
            return None
        final.append(f)
    return _m_codes.setdefault((toks, tuple(final)), len(_m_codes))


def m_table():
    out = []
    for toks in sorted(M_TOKS):
        for ren in sorted(M_REN):
            code = m_renamed(toks, ren)
            out.append("%d:%d:%d" % (toks, ren, -1 if code is None else code))
    return " ".join(out)


def m_tsettings(c, tc):
    adc = 1 if tc["tapi"] == 1 else (1 if tc["tadc"] == 2 else 0)      # ct_token_map() = allow_dead_code(true)
    return [tc["tmod"], M_MODOK[tc["tmod"]], c["st"], adc, tc["tren"]]


def m_model_line(g0, ops, times):
    def ysrc(g):
        _, syn, warn, conf, toks = _G[g]
        return "%d %d %d %d %d" % (g, syn, warn, conf, toks)
    c, tc = dict(DEFAULT), dict(M_DEFAULT)
    parts = []
    for t, o in zip(times, ops):
        if o[0] == "B":
            parts.append("%d B" % t)
        elif o[0] == "Y":
            parts.append("%d Y %s" % (t, ysrc(o[1])))
        elif o[0] == "S":
            c[o[1]] = o[2]
            parts.append("%d S %s" % (t, " ".join(map(str, settings_ints(c)))))
            if o[1] == "st":          # one StorageT for both builders: the token map is a HashMap<String, StorageT>
                parts.append("%d R %s" % (t, " ".join(map(str, m_tsettings(c, tc)))))
        else:
            tc[o[1]] = o[2]
            parts.append("%d R %s" % (t, " ".join(map(str, m_tsettings(c, tc)))))
    return "M %d %d | %s | %s | %s | %s | %s" % (1 if STALE_FIXED else 0, 1 if TOKMAP_CLEANUP_FIXED else 0, ysrc(g0),
                                              " ".join(map(str, settings_ints(DEFAULT))),
                                              " ".join(map(str, m_tsettings(DEFAULT, M_DEFAULT))), " ; ".join(parts), m_table())


def m_harness_line(c, tc, ypath, yout):
    line = harness_line("P", dict(c, lt=0), ypath, yout, "", "").replace("mode=P", "mode=M", 1)
    rm = M_REN[tc["tren"]]
    tren = "-" if rm is None else ",".join("%s:%s" % (hx(k), hx(v)) for k, v in sorted(rm.items()))
    return "%s tmod=%s tren=%s tadc=%s tapi=%s" % (line, hx(M_MODS[tc["tmod"]]), tren, ["-", "0", "1"][tc["tadc"]], "bf"[tc["tapi"]])


def m_classify(out, ypath):
    """-> (parser class, regenerated, token map stage: ok | err | panic | - | other)"""
    m = re.match(r"P:(\S+) T:(\S+)$", out.strip())
    if not m:
        return ("harness:" + out[:60], None, "?")
    pc, regen = classify("P:%s L:-" % m.group(1), ypath, "")
    tpart = m.group(2)
    if tpart.startswith("err:"):
        msg = bytes.fromhex(tpart[4:]).decode("utf-8", "replace")
        tpart = "err" if "is not a valid Rust identifier" in msg else "err_other:" + msg[:80]
    return (pc, regen, tpart)


def m_histories(rng, nrandom):
    B = ("B",)
    Y, S, R = (lambda g: ("Y", g)), (lambda n, v: ("S", n, v)), (lambda n, v: ("R", n, v))
    shapes = [
        # the audit: G1, build; G2 (token '*', no rename map entry), build: the token map stage fails
        (100, [B, Y(102), B]),
        (100, [B, Y(102), B, R("tren", 1), B, B]),                       # ... the rename map is added
        (100, [B, Y(102), B, Y(100), B, B]),                             # ... or the token is removed again
        (102, [R("tren", 1), B, R("tren", 0), B, R("tren", 1), B]),      # a rename map removed and added
        (102, [B, B, R("tren", 1), B, B]),                               # starts failing
        (102, [R("tren", 1), B, R("tren", 3), B, R("tren", 6), B, R("tren", 1), B]),   # renamed to a non-identifier; another name
        (100, [B, R("tren", 4), B, R("tren", 5), B, B]),                 # an identifier renamed to `+`; an irrelevant map
        (104, [B, B, R("tren", 7), B, Y(100), B]),                       # 'if', a non-ASCII name
        (105, [B, R("tren", 1), B, R("tren", 2), B, Y(102), B, R("tren", 0), B]),   # two odd names
        (100, [B, R("tadc", 2), B, R("tadc", 1), B, R("tadc", 0), B]),   # allow_dead_code; false = not set: same text
        (100, [B, S("st", 0), B, S("st", 1), B, B]),                     # StorageT of both builders
        (100, [B, R("tapi", 1), B, R("tadc", 2), R("tapi", 0), B, B]),   # the deprecated wrapper = allow_dead_code(true)
        (102, [R("tapi", 1), B, R("tren", 1), B, R("tren", 0), B]),      # ... fails and cleans up the same way
        # the module name is the file name: a change addresses another file, the old one is not this build's
        (100, [B, R("tmod", 1), B, R("tmod", 0), B, Y(102), B, R("tmod", 1), B]),
        (100, [B, R("tmod", 2), B, R("tmod", 0), B]),                    # `a-b`: format_ident! panics
        (102, [R("tmod", 2), B, R("tren", 1), B, R("tmod", 3), B, B]),   # `fn`
        (100, [R("tmod", 3), B, Y(102), B, Y(101), B]),
        # edits that keep the token map / that change the parser only
        (100, [B, Y(101), B, B, S("vis", 1), B, Y(100), B]),
        (102, [R("tren", 1), B, Y(103), B, Y(105), B, Y(103), B]),
        # a failing PARSER stage: the script ends, the token map builder is not run
        (100, [B, Y(130), B, Y(102), B, Y(130), B]),
        (100, [B, Y(110), B, S("eoc", 0), B, Y(111), B, S("eoc", 1), B]),
        (100, [B, Y(120), B, S("wae", 0), B]),
        (102, [B, Y(130), B, Y(100), B]),
    ]
    hs = [(g0, ops, default_times(ops)) for g0, ops in shapes]
    hs.append((100, [B, Y(102), B, Y(100), B], [1, 1, 1, 1, 2]))          # same ticks
    hs.append((100, [B, B, Y(102), R("tren", 1), B, B], [1, 2, 2, 2, 2, 3]))
    for _ in range(nrandom):
        n = rng.randint(4, 12)
        g0 = rng.choice(M_VALID + M_VALID + M_CONF + M_WARN)
        ops, c, tc = [], dict(DEFAULT), dict(M_DEFAULT)
        while len(ops) < n:
            r = rng.random()
            if r < 0.40 or len(ops) == n - 1:
                ops.append(B)
            elif r < 0.62:
                ops.append(Y(rng.choice(M_VALID * 4 + M_CONF + M_WARN + M_SYN)))
            elif r < 0.88:
                name = rng.choice(["tren", "tren", "tren", "tmod", "tadc", "tapi"])
                tc[name] = rng.choice([x for x in range(M_OPTS[name]) if x != tc[name]])
                ops.append(R(name, tc[name]))
            else:
                name = rng.choice(M_POPTS)
                nvals = len([o for o in OPTS if o[0] == name][0][2])
                c[name] = rng.choice([x for x in range(nvals) if x != c[name]])
                ops.append(S(name, c[name]))
        hs.append((g0, ops, random_times(rng, ops) if rng.random() < 0.4 else default_times(ops)))
    return hs


def run_manual_history(exe, idx, g0, ops, times):
    casedir = os.path.join(WORKROOT, "m%05d" % idx)
    shutil.rmtree(casedir, ignore_errors=True)
    src, out = os.path.join(casedir, "src"), os.path.join(casedir, "out")
    os.makedirs(src)
    os.makedirs(out)
    ypath, yout = os.path.join(src, "g.y"), os.path.join(out, "g.y.rs")
    with open(ypath, "w") as f:
        f.write(_G[g0][0])
    set_mtime(ypath, 0)
    c, tc = dict(DEFAULT), dict(M_DEFAULT)
    obs, nclean = [], 0
    names = ["g.y.rs"] + [m + ".rs" for m in M_MODS]
    for t, o in zip(times, ops):
        if o[0] == "Y":
            with open(ypath, "w") as f:
                f.write(_G[o[1]][0])
            set_mtime(ypath, t)
            obs.append(None)
        elif o[0] == "S":
            c[o[1]] = o[2]
            obs.append(None)
        elif o[0] == "R":
            tc[o[1]] = o[2]
            obs.append(None)
        else:
            before = {n: (os.stat(os.path.join(out, n)).st_mtime_ns if os.path.exists(os.path.join(out, n)) else None) for n in names}
            res = spawn(exe, m_harness_line(c, tc, ypath, yout), env={"OUT_DIR": out})
            written, files = {}, {}
            for n in names:
                pth = os.path.join(out, n)
                written[n] = os.path.exists(pth) and os.stat(pth).st_mtime_ns != before[n]
                if written[n]:
                    set_mtime(pth, t)
                files[n] = read_norm(pth, casedir)
            others = sorted(set(os.listdir(out)) - set(names))
            nclean += 1
            cdir = os.path.join(casedir, "clean%d" % nclean)
            os.makedirs(cdir)
            cres = spawn(exe, m_harness_line(c, tc, ypath, os.path.join(cdir, "g.y.rs")), env={"OUT_DIR": cdir})
            cfiles = {n: read_norm(os.path.join(cdir, n), casedir) for n in names}
            obs.append({"res": m_classify(res, ypath), "raw": res, "files": files, "written": written, "others": others,
                        "cres": m_classify(cres, ypath), "cfiles": cfiles, "mod": M_MODS[tc["tmod"]] + ".rs"})
            shutil.rmtree(cdir, ignore_errors=True)
    shutil.rmtree(casedir, ignore_errors=True)
    return obs


def tokmap_panic_probe(ctx, exe):
    """The RemoveOnPanic guard of CTTokenMapBuilder::build, directly: no history of this builder can put a file at
    $OUT_DIR/a-b.rs (every build with that module name panics in format_ident!), so the file is put there by hand; the
    build panics; a build into an empty directory leaves nothing; the file must be gone."""
    casedir = os.path.join(WORKROOT, "tokmap_panic")
    shutil.rmtree(casedir, ignore_errors=True)
    src, out = os.path.join(casedir, "src"), os.path.join(casedir, "out")
    os.makedirs(src)
    os.makedirs(out)
    ypath = os.path.join(src, "g.y")
    open(ypath, "w").write(_G[100][0])
    set_mtime(ypath, 0)
    stale = os.path.join(out, "a-b.rs")
    open(stale, "w").write("mod stale { pub const T_PLUS: u32 = 0; }\n")
    res = m_classify(spawn(exe, m_harness_line(dict(DEFAULT), dict(M_DEFAULT, tmod=2), ypath, os.path.join(out, "g.y.rs")), env={"OUT_DIR": out}), ypath)
    left = os.path.exists(stale)
    steps = {"module_name": "a-b", "result": list(res), "file_left": left}
    ctx.case("tokmap-panic-probe", True, steps)
    shutil.rmtree(casedir, ignore_errors=True)
    ok = True
    if res[0] != "ok" or res[2] != "panic":
        ctx.violation({"what": "token map panic probe: unexpected outcome (expected: parser Ok, token map stage panics in format_ident!)",
                       "steps": steps, "part": "manual_flow"}, no_input=True)
        ok = False
    elif left and TOKMAP_CLEANUP_FIXED:
        ctx.violation({"what": "CTTokenMapBuilder::build panics (module name `a-b` is no identifier) and leaves $OUT_DIR/a-b.rs in place; a build "
                               "into an empty OUT_DIR produces none", "grammar": _G[100][0], "steps": steps, "part": "manual_flow",
                       "history": "OUT_DIR holds a-b.rs; CTParserBuilder::build (Ok); CTTokenMapBuilder::<u32>::new(\"a-b\", ctp.token_map()).build() panics",
                       "kind": "counterexample"})
        ok = False
    elif not left and not TOKMAP_CLEANUP_FIXED:
        ctx.violation({"what": "TOKMAP_CLEANUP_FIXED is off but the panicking token map build removed its output: the pinned mirror is not "
                               "the mirror of this tree", "steps": steps, "part": "manual_flow"}, no_input=True)
        ok = False
    ctx.oblige(ok, "token map builder: no module survives a panicking build")


def manual_flow(ctx, exe, mexe):
    rng = random.Random(1801 + 7 * ctx.seed)
    hs = m_histories(rng, ctx.n(45, 900))
    mlines = [m_model_line(g0, ops, ts) for (g0, ops, ts) in hs]
    model = core.run_lines([mexe], mlines)
    with concurrent.futures.ThreadPoolExecutor(max_workers=max(2, core.NPROC)) as ex:
        futs = [ex.submit(run_manual_history, exe, i, g0, ops, ts) for i, (g0, ops, ts) in enumerate(hs)]
        impl = [f.result() for f in futs]
    d2h, h2d = {}, {}

    def bij(d, content):
        if d is None or content is None:
            return d is None and content is None
        h = sha(content)
        return d2h.setdefault(d, h) == h and h2d.setdefault(h, d) == d
    ncorr_bad, nprop_bad, nbuilds = 0, 0, 0
    cnt = {"tokmap_stage_failed": 0, "tokmap_stage_failed_with_file_before": 0, "tokmap_stale_pinned": 0, "parser_stage_failed_tokmap_kept": 0,
           "identical_not_rewritten": 0, "rewritten": 0, "panic": 0}
    for i, ((g0, ops, times), ml, ob) in enumerate(zip(hs, mlines, impl)):
        ms = parse_model(model[i]) if " | " in model[i] or "=" in model[i] else []
        builds = [k for k, o in enumerate(ops) if o[0] == "B"]
        nontriv = len(builds) >= 2 and any(ops[k][0] != "B" for k in range(builds[0], builds[-1]))
        hist_json = {"flow": "manual lexer: CTParserBuilder::build ; CTTokenMapBuilder::build (OUT_DIR = <case>/out)", "g0": g0,
                     "ops": [list(o) for o in ops], "times": times, "model_line": ml,
                     "grammars": {str(g): _G[g][0] for g in sorted({g0} | {o[1] for o in ops if o[0] == "Y"})},
                     "rename_maps": {str(k): v for k, v in M_REN.items()}, "module_names": M_MODS,
                     "options": "S: parser builder option (st: StorageT of both builders); R: tmod / tadc (- false true) / tren / tapi (builder, ct_token_map)"}
        ctx.case("M %d %s %s" % (g0, ops, times), nontriv, {"history": hist_json, "model": model[i][:400]})
        ctx.count("mode_M")
        if len(ms) < len(ops):
            ncorr_bad += 1
            ctx.violation({"history": hist_json, "model_output": model[i][:300], "broken": "model driver", "part": "manual_flow"}, no_input=True)
            continue
        # an S of `st` gives two model operations at one time: align by walking
        mi, prev_noop_ok = 0, None
        tc = dict(M_DEFAULT)
        last_files = {}
        for k, o in enumerate(ops):
            t = times[k]
            m = ms[mi]
            mi += 2 if (o[0] == "S" and o[1] == "st") else 1
            if o[0] == "R":
                tc[o[1]] = o[2]
            if o[0] != "B":
                ctx.count("manual_op_" + o[0] + ("_" + o[1] if o[0] in "SR" else ""))
                prev_noop_ok = None
                continue
            nbuilds += 1
            a = ob[k]
            (pc, regen, tcl), (cpc, _, ctcl) = a["res"], a["cres"]
            cur = a["mod"]
            f, cf, w = a["files"], a["cfiles"], a["written"]
            where = {"history": hist_json, "step": t, "part": "manual_flow",
                     "impl": {"parser": pc, "regenerated": regen, "token_map_stage": tcl, "module_file": cur, "module_exists": f[cur] is not None,
                              "module_written": w[cur], "clean_parser": cpc, "clean_token_map_stage": ctcl, "clean_module_exists": cf[cur] is not None,
                              "module_equals_clean": f[cur] == cf[cur], "parser_output_equals_clean": f["g.y.rs"] == cf["g.y.rs"],
                              "module_text": (f[cur] or "")[:600]},
                     "model": m, "raw": a["raw"][:200]}
            ctx.count("manual_parser_" + pc.split(":")[0])
            ctx.count("manual_tokmap_" + tcl.split(":")[0])
            found = False
            # ---- the property, directly ---------------------------------------------------------------------------
            if pc == "ok":
                if tcl in ("err", "panic"):
                    cnt["tokmap_stage_failed"] += 1
                    cnt["panic"] += tcl == "panic"
                    # ... with a module of an earlier build at that name: there is something to remove
                    cnt["tokmap_stage_failed_with_file_before"] += last_files.get(cur) is not None
                # C18_tokmap_incremental_equals_clean: parser output and module are those of the clean build (absent if it fails)
                stale = f[cur] is not None and f[cur] != cf[cur]
                if stale and tcl in ("err", "panic") and not TOKMAP_CLEANUP_FIXED and not w[cur]:
                    cnt["tokmap_stale_pinned"] += 1          # the class of 746e223, tolerated only with the flag off
                elif f[cur] != cf[cur] or f["g.y.rs"] != cf["g.y.rs"] or cpc != "ok" or tcl != ctcl:
                    found = True
                    nprop_bad += 1
                    ctx.violation(dict(where, violated=("failed token map build left a module that a clean build does not produce (the module of an "
                                                        "earlier grammar / earlier settings)" if stale and tcl != "ok" else
                                                        "manual flow: incremental build differs from the build into an empty OUT_DIR"),
                                       expected="$OUT_DIR/%s %s" % (cur, "absent" if cf[cur] is None else "as in the clean build")))
                if tcl == "ok" and prev_noop_ok == k - 1 and (w[cur] or w["g.y.rs"] or regen):
                    found = True
                    nprop_bad += 1
                    ctx.violation(dict(where, violated="second build of the manual flow without any change rewrote an output"))
                if tcl == "ok":
                    cnt["identical_not_rewritten" if not w[cur] else "rewritten"] += 1
            else:
                # scope: the script ends at the parser's Err; the token map builder is not run.  The parser output obeys the
                # clause as in mode P; the module is whatever it was (compared with the mirror below)
                if f["g.y.rs"] is not None and f["g.y.rs"] != cf["g.y.rs"] and STALE_FIXED:
                    found = True
                    nprop_bad += 1
                    ctx.violation(dict(where, violated="failed build left a parser output that a clean build does not produce"))
                if f[cur] is not None:
                    cnt["parser_stage_failed_tokmap_kept"] += 1
            if a["others"]:
                found = True
                nprop_bad += 1
                ctx.violation(dict(where, violated="unexpected files in OUT_DIR", files=a["others"]))
            last_files = f
            strictly_later = k == 0 or times[k] > times[k - 1]
            prev_noop_ok = k if (pc == "ok" and tcl == "ok" and strictly_later) else None
            # ---- correspondence with the mirror -------------------------------------------------------------------
            diffs = []
            mp = m.get("p", "?")
            if (pc, regen) != (("ok", mp == "ok1") if mp.startswith("ok") else (mp, None)):
                diffs.append("parser stage %s/%s vs %s" % (pc, regen, mp))
            mts = m.get("ts", "?")
            its = {"ok": "ok1" if w[cur] else "ok0", "-": "-"}.get(tcl, tcl)
            if its != mts:
                diffs.append("token map stage %s vs %s" % (its, mts))
            my, myt = desc(m["y"])
            if not bij(my, f["g.y.rs"]):
                diffs.append("parser output: exists/content class differs from %s" % my)
            if m.get("yw") in ("0", "1") and w["g.y.rs"] != (m["yw"] == "1"):
                diffs.append("parser output written %s vs %s" % (w["g.y.rs"], m["yw"]))
            mdir = {}
            if m["d"] != "-":
                for ent in m["d"].split(","):
                    kk, dd = ent.split(":", 1)
                    mdir[M_MODS[int(kk)] + ".rs"] = desc(dd)
            for n in [x + ".rs" for x in M_MODS]:
                md, mdt = mdir.get(n, (None, None))
                if not bij(md, f[n]):
                    diffs.append("module %s: exists/content class differs from %s" % (n, md))
                elif w[n] and (n != cur or mdt != t):
                    diffs.append("module %s written, the mirror says otherwise" % n)
            cexp = (("ok", None) if m.get("cp", "?").startswith("ok") else (m.get("cp"), None))
            if cpc != cexp[0]:
                diffs.append("clean parser stage %s vs %s" % (cpc, m.get("cp")))
            if {"ok": "ok1"}.get(ctcl, ctcl) != m.get("cts"):
                diffs.append("clean token map stage %s vs %s" % (ctcl, m.get("cts")))
            if not bij(None if m["cy"] == "-" else m["cy"], cf["g.y.rs"]):
                diffs.append("clean parser output differs from %s" % m["cy"])
            if not bij(None if m["ct"] == "-" else m["ct"], cf[cur]):
                diffs.append("clean module differs from %s" % m["ct"])
            if diffs:
                ncorr_bad += 1
                if not found:
                    ctx.violation(dict(where, broken="correspondence mirror/implementation (theorems C18_tokmap_* / C18_manual_flow_* speak "
                                                     "about the mirror C18/TokModel.v)", differences=diffs), no_input=True)
                break
    ctx.oblige(ncorr_bad == 0, "manual flow: correspondence")
    ctx.oblige(nprop_bad == 0, "manual flow: property on implementation")
    ctx.coverage["manual_flow"] = dict(cnt, histories=len(hs), builds=nbuilds, content_classes=len(d2h),
                                       variant={"TOKMAP_CLEANUP_FIXED": TOKMAP_CLEANUP_FIXED})


def _run(ctx, exe, mexe, rng):
    static_cache_coverage(ctx)
    panic_probe(ctx, exe)
    tokmap_panic_probe(ctx, exe)
    manual_flow(ctx, exe, mexe)
    hs = [h + (default_times(h[3]),) for h in targeted_histories()] + same_tick_histories()
    for _ in range(ctx.n(150, 2500)):
        mode = "C" if rng.random() < 0.6 else "P"
        g0 = rng.choice(VALID_G + VALID_G + CONF_G + WARN_G)
        l0 = rng.choice(VALID_L)
        ops = gen_history(rng, mode, 12)
        hs.append((mode, g0, l0, ops, random_times(rng, ops) if rng.random() < 0.6 else default_times(ops)))
    # the same through symbolic links: the staleness test must look at the file the link points to
    symlinked = set()
    for mode in ("P", "C"):
        for ops in ([("B",), ("Y", 1), ("B",), ("B",)], [("B",), ("Y", 2), ("B",), ("Y", 1), ("B",), ("B",)],
                    [("Y", 4), ("B",), ("S", "vis", 1), ("B",), ("Y", 0), ("B",)]):
            symlinked.add(len(hs))
            hs.append((mode, 0, 0, ops, default_times(ops)))
    symlinked.add(len(hs))
    hs.append(("C", 0, 0, [("B",), ("L", 1), ("B",), ("L", 2), ("Y", 1), ("B",), ("B",)], default_times([0] * 7)))
    ctx.count("histories_through_symlinks", len(symlinked))
    # the grammar's path contains "*/" (a directory named `src*`)
    starred = set()
    for mode in ("P", "C"):
        for g0, l0, ops in ((0, 0, [("B",), ("B",), ("Y", 1), ("B",), ("B",)]), (7, ODD_L, [("B",), ("B",), ("S", "ed", 1), ("B",), ("B",)])):
            starred.add(len(hs))
            hs.append((mode, g0, l0, ops, default_times(ops)))
    ctx.count("histories_with_star_slash_in_the_grammar_path", len(starred))
    # ---- the entry point of the parser builder is an input too (mode P; in mode C the lexer builder drives it) ----
    apis = {}
    for (api, mode, g0, l0, ops, ts) in process_file_histories():
        apis[len(hs)] = api
        hs.append((mode, g0, l0, ops, ts))
    arng = random.Random(len(hs))
    for _ in range(ctx.n(50, 800)):
        g0 = arng.choice(VALID_G + VALID_G + CONF_G + WARN_G)
        ops = gen_history(arng, "P", 12)
        apis[len(hs)] = "process_file"
        hs.append(("P", g0, 0, ops, random_times(arng, ops) if arng.random() < 0.6 else default_times(ops)))
    # ---- grammars with a `test_files` key (mode C): the lexer builder's inspector ----
    tf0s = {}
    for (g0, l0, tf0, ops, ts) in tf_histories(random.Random(len(hs) + 7 * ctx.seed), ctx.n(40, 700)):
        tf0s[len(hs)] = tf0
        hs.append(("C", g0, l0, ops, ts))
    ctx.count("histories_with_test_files", len(tf0s))
    mlines = [model_line(m, g0, l0, ops, ts, tf0s.get(i)) for i, (m, g0, l0, ops, ts) in enumerate(hs)]
    model = core.run_lines([mexe], mlines)
    with concurrent.futures.ThreadPoolExecutor(max_workers=max(2, core.NPROC)) as ex:
        futs = [ex.submit(run_history, exe, i, m, g0, l0, ops, ts, i in symlinked, apis.get(i, "build"), i in starred, tf0s.get(i))
                for i, (m, g0, l0, ops, ts) in enumerate(hs)]
        impl = [f.result() for f in futs]

    # descriptor <-> bytes must be a bijection over the whole run (both directions:
    # equal descriptors = equal files, different descriptors = different files)
    d2h, h2d = {}, {}
    ncorr_bad = 0
    nprop = {"stale": 0, "lexout": 0, "st": 0, "lx": 0, "test_files_skipped": 0, "other": 0}
    tf_known = []          # histories with a build of the known class K_TF
    nbuilds = 0
    nbuilds_pf = [0]

    def bij(d, content):
        if d is None or content is None:
            return d is None and content is None
        h = sha(content)
        ok = d2h.setdefault(d, h) == h and h2d.setdefault(h, d) == d
        return ok

    for i, ((mode, g0, l0, ops, times), ml, ob) in enumerate(zip(hs, mlines, impl)):
        ms = parse_model(model[i])
        builds = [k for k, o in enumerate(ops) if o[0] == "B"]
        changes_between = any(ops[k][0] != "B" for k in range(builds[0], builds[-1])) if len(builds) >= 2 else False
        nontriv = len(builds) >= 2 and changes_between
        api = apis.get(i, "build")
        canon = "%s %d %d %s %s" % (mode, g0, l0, ops, times) + (" api=process_file" if api == "process_file" else "") + (" stardir" if i in starred else "") \
            + (" tf0=%d" % tf0s[i] if i in tf0s else "")
        same_tick = any(times[k] == times[k - 1] for k in range(1, len(times)))
        hist_json = {"mode": mode, "entry_point": ("CTParserBuilder::%s" % api) if mode == "P" else "CTLexerBuilder::build + lrpar_config",
                     "g0": g0, "l0": l0, "ops": [list(o) for o in ops], "times": times, "model_line": ml}
        if i in tf0s:
            hist_json["test_files"] = {"initial": tf0s[i], "states": {str(k): v for k, v in TF.items()},
                                       "grammar_header": _TFH.strip(), "lexers": {str(k): _L[k][0] for k in (0, 1, 2, 10)},
                                       "inspector_accepts(test files -> lexers)": {str(k): sorted(v) for k, v in TF_ACCEPT.items()}}
        if g0 in ODD_G or i in starred:
            hist_json["grammar_text"] = _G[g0][0]
            hist_json["lexer_text"] = _L[l0][0]
            hist_json["grammar_path"] = "<case>/src*/g.y" if i in starred else "<case>/src/g.y"
            ctx.count("histories_with_odd_token_names_or_path")
        if same_tick:
            ctx.count("histories_with_equal_ticks")
        ctx.case(canon, nontriv, {"history": hist_json, "model": model[i][:400]})
        ctx.count("mode_" + mode)
        if mode == "P":
            ctx.count("mode_P_entry_" + api)
        ctx.count("len_%d" % len(ops))
        ctx.count("builds_%d" % min(len(builds), 6))
        if len(ms) != len(ops):
            ncorr_bad += 1
            ctx.violation({"history": hist_json, "model_output": model[i][:300], "broken": "model driver"}, no_input=True)
            continue
        prev_ok_build_at = None
        for k, o in enumerate(ops):
            t = times[k]
            strictly_later = k == 0 or times[k] > times[k - 1]
            if o[0] != "B":
                if not strictly_later and o[0] in "YL":
                    ctx.count("edit_in_tick_of_previous_op")
                ctx.count("op_" + o[0] + ("_" + o[1] if o[0] == "S" else ""))
                continue
            nbuilds += 1
            if api == "process_file":
                nbuilds_pf[0] += 1
            a, m = ob[k], ms[k]
            ctx.count("result_" + a["res"][0].split(":")[0])
            if api == "process_file":
                ctx.count("process_file_result_" + a["res"][0].split(":")[0])
            (my, myt), (mlc, mlt) = desc(m["y"]), desc(m["l"])
            mcy = None if m["cy"] == "-" else m["cy"]
            mcl = None if m["cl"] == "-" else m["cl"]
            where = {"history": hist_json, "step": t, "impl": {"result": a["res"][0], "regenerated": a["res"][1],
                     "y_exists": a["y"] is not None, "l_exists": a["l"] is not None, "y_written": a["yw"], "l_written": a["lw"],
                     "clean_result": a["cres"][0], "y_equals_clean": a["y"] == a["cy"], "l_equals_clean": a["l"] == a["cl"]},
                     "model": m, "raw": a["raw"][:200]}
            # ---- the property, directly on the implementation ----------------
            found = False
            # the class of the known finding K_TF (C18_incremental_differs_only_by_skipped_inspector /
            # C18_failed_build_no_stale_or_skipped_inspector, second disjunct): the clean build is refused by the
            # `test_files` check, while this build kept a parser output it did not write (cache hit: inspector not asked)
            tf_class = (i in tf0s and a["cres"][0] == "err_inspect" and a["cy"] is None and a["cl"] is None
                        and a["y"] is not None and not a["yw"] and a["res"][0] in ("ok", "panic"))
            if tf_class:
                # (`found` stays False: the mirror predicts this class exactly, a difference from it is still reported)
                nprop["test_files_skipped"] += 1
                if not tf_known or tf_known[-1][0] != i:
                    tf_known.append((i, "%s; build %d: %s, g.y.rs%s kept; clean build: Err(test_files check), no file" % (
                        describe_tf_history(g0, l0, tf0s[i], ops[:k + 1]), sum(1 for o2 in ops[:k + 1] if o2[0] == "B"),
                        "Ok" if a["res"][0] == "ok" else "panics after the parser stage", " and l.l.rs" if a["l"] is not None else "")))
                ctx.violation(dict(where, violated="incremental build keeps generated files although the test_files check fails "
                                                   "for the current sources; the clean build returns Err and leaves no file",
                                   expected="Err (the test_files check) and no generated file, as in a clean build"), known_key=K_TF)
            elif a["res"][0] == "ok":
                if a["y"] != a["cy"] or a["l"] != a["cl"] or a["cres"][0] != "ok":
                    found = True
                    # explained by the type parameter missing from the cache string?
                    if ((not ST_IN_CACHE or not LX_IN_CACHE) and a["l"] == a["cl"] and a["cres"][0] == "ok" and st_only_diff(my, mcy)
                            and bij(my, a["y"]) and bij(mcy, a["cy"])):
                        which = "st" if not ST_IN_CACHE else "lx"
                        nprop[which] += 1
                        ctx.violation(dict(where, violated="successful incremental build differs from the clean build",
                                           expected="parser output regenerated for the new type parameter"),
                                      known_key=K_ST if which == "st" else K_LX)
                    else:
                        nprop["other"] += 1
                        ctx.violation(dict(where, violated="successful incremental build differs from the clean build"))
                # building again without any change must not regenerate or touch anything
                # (C18_rebuild_is_noop: provided the first of the two builds happened strictly
                # later than the last edit — otherwise its output is not newer than the source)
                if prev_ok_build_at == k - 1 and (a["res"][1] is True or a["yw"] or a["lw"]):
                    found = True
                    nprop["other"] += 1
                    ctx.violation(dict(where, violated="second build without any change regenerated / rewrote an output"))
            else:
                stale_y = a["y"] is not None and a["y"] != a["cy"]
                stale_l = a["l"] is not None and a["l"] != a["cl"]
                if stale_y or stale_l:
                    found = True
                    cls = a["res"][0]
                    w = dict(where, violated="failed build left a generated file that a clean build does not produce",
                             stale_parser_output=stale_y, stale_lexer_output=stale_l)
                    if cls in ("err_ysyntax", "err_ywarn", "err_lsyntax") and not STALE_FIXED:
                        nprop["stale"] += 1
                        ctx.violation(w, known_key=K_STALE)
                    elif (cls == "panic" and stale_y and not stale_l and not ST_IN_CACHE and st_only_diff(my, mcy)
                          and bij(my, a["y"]) and bij(mcy, a["cy"])):
                        # the parser stage succeeded without regenerating for a new type parameter,
                        # then the lexer stage failed
                        nprop["st"] += 1
                        ctx.violation(w, known_key=K_ST)
                    elif cls == "err_yconflict" and stale_l and not stale_y and not STALE_FIXED:
                        nprop["lexout"] += 1
                        ctx.violation(w, known_key=K_LEXOUT)
                    else:
                        nprop["other"] += 1
                        ctx.violation(w)
            prev_ok_build_at = k if (a["res"][0] == "ok" and strictly_later) else None
            if not strictly_later:
                ctx.count("build_in_tick_of_previous_op")
            # ---- correspondence with the mirror -------------------------------
            diffs = []
            if a["res"][0] != m["r"]:
                diffs.append("result %s vs %s" % (a["res"][0], m["r"]))
            if a["res"][1] is not None and m["ps"] in "01" and a["res"][1] != (m["ps"] == "1"):
                diffs.append("regenerated %s vs %s" % (a["res"][1], m["ps"]))
            if not bij(my, a["y"]):
                diffs.append("parser output: exists/content class differs from %s" % my)
            if not bij(mlc, a["l"]):
                diffs.append("lexer output: exists/content class differs from %s" % mlc)
            if m["yw"] in "01" and a["yw"] != (m["yw"] == "1"):
                diffs.append("parser output written %s vs %s" % (a["yw"], m["yw"]))
            if m["lw"] in "01" and a["lw"] != (m["lw"] == "1"):
                diffs.append("lexer output written %s vs %s" % (a["lw"], m["lw"]))
            if a["yw"] and myt != t or a["lw"] and mlt != t:
                diffs.append("written file does not carry the build's time in the mirror")
            if not bij(mcy, a["cy"]):
                diffs.append("clean parser output differs from %s" % mcy)
            if not bij(mcl, a["cl"]):
                diffs.append("clean lexer output differs from %s" % mcl)
            if diffs:
                ncorr_bad += 1
                if not found:
                    ctx.violation(dict(where, broken="correspondence mirror/implementation (theorems C18_* speak about the mirror)",
                                       differences=diffs), no_input=True)
                break
    ctx.oblige(ncorr_bad == 0, "correspondence")
    ctx.oblige(nprop["other"] == 0, "property on implementation")
    if tf_known:
        # the KNOWN-FINDING line carries the number of histories of this run and the first of them
        for j, kf in enumerate(ctx.known_hits):
            if kf.get("match") == K_TF:
                kf = dict(kf)
                kf["note"] = "%s (%d histories, first: %s)" % (K_TF, len(tf_known), tf_known[0][1])
                ctx.known_hits[j] = kf
    ctx.coverage["test_files_known_class"] = {"histories": len(tf_known), "builds": nprop["test_files_skipped"],
                                              "first": tf_known[0][1] if tf_known else None}
    ctx.coverage["rule"] = (
        "targeted histories (build, change exactly one builder option to every other value, build, build — every option, "
        "parser-alone and combined mode; known shapes) + random histories of 3..12 operations over 12 grammar texts "
        "(valid with two token maps, %expect, unexpected conflicts, warnings, syntax errors, touch) and 6 lexer texts "
        "(valid, missing token, syntax errors), one-option-at-a-time setting changes, builds; every build is one harness "
        "process, mtimes set from the logical clock (one tick = 100 s; 60 % of the random histories and a targeted family let "
        "an operation happen in the tick of the previous one: an edit stamped exactly like the last written output, a "
        "build in the tick of the edit before it); after every build: result class, regenerated(), "
        "written files, existence + content class (descriptor<->bytes bijection over the run) vs the mirror and bytes vs "
        "a build into an empty directory; the parser builder's entry point is an input (mode P): the good-build -> broken grammar "
        "(syntax error / undefined rule / warning with warnings_are_errors / conflicts) -> build shapes run through build() "
        "and through the deprecated process_file(); a grammar + lexer whose token names contain */ /* \" ' \\ // { and a non-ASCII "
        "character (build, build again -> not regenerated; option change / edit / touch -> regenerated), also with the grammar in "
        "a directory named `src*` (path contains */); the targeted one-option and same-tick mode-P histories and extra random "
        "mode-P histories run through process_file() as well, against the same mirror (regenerated() is not observable "
        "there); the parser builder's type parameter is an option too (mode P, `lt`: DefaultLexerTypes | a user-owned MyLexerTypes with "
        "LexemeT = LexA | the same type with LexemeT = LexB — equal type_name of LexerTypesT and StorageT, only LexemeT differs); "
        "static_cache_coverage (on the source text of lrpar/src/lib/ctbuilder.rs, every run): every type_name::<X>() argument used "
        "outside rebuild_cache is bound inside it and flows into cache_info and the result, every field of CTParserBuilder is bound "
        "by the `let Self {..} = self` pattern and flows into cache_info or is one of the six fields the code documents as ignored, "
        "no `..`, the keys of cache_info include the 16 the mirror's cache record stands for; test_files histories (mode C, three "
        "grammars whose header says test_files: [\"*.c18in\"], six states of the matched files, lexers that accept different subsets "
        "of them, a lexer that also lacks a token): 17 shapes (audit 1: build, lexer edit that makes a test input unlexable, build; "
        "restoring; editing / adding / removing test files; all files removed; a regenerating change in between; same-tick edits) + "
        "random histories with test-file edits among the other operations; the inspector's verdict is a hand-made table handed to "
        "the mirror, every build is compared with the mirror (theories/C18/InspModel.v) and with a clean build; "
        "manual_flow (theories/C18/TokModel.v): histories of the manual-lexer build script — CTParserBuilder::build, then "
        "CTTokenMapBuilder::<u8|u16|u32>::new(mod, ctp.token_map()) [.rename_map(..)] [.allow_dead_code(..)] .build() or the deprecated "
        "ct_token_map(), one process per build with OUT_DIR in its environment — over 10 grammar texts with four token sets (PLUS INT | '*' PLUS "
        "INT | PLUS INT 'ä' 'if' | '+' '*' INT; conflicts, a warning, a syntax error), 8 rename maps (none, '*'->STAR, both odd names, a rename TO a "
        "non-identifier, an identifier renamed to `+`, an irrelevant entry, ...), 4 module names (`a-b` is no identifier: format_ident! "
        "panics; `fn`), allow_dead_code, StorageT; 25 shapes (the audit's G1 -> G2; rename map added / removed; token removed again; module "
        "name changed and back; failing parser stage in between; same ticks) + random histories; after every build: parser stage, "
        "regenerated(), token map stage, which files of OUT_DIR were written, existence + content class of g.y.rs and of every module "
        "file vs the mirror, and existence + bytes (time stamp comment aside) of g.y.rs and $OUT_DIR/<current mod>.rs vs a build into an "
        "empty OUT_DIR; tokmap_panic_probe: a file put at $OUT_DIR/a-b.rs by hand is gone after the panicking build; "
        "non-trivial = at least 2 builds with a change between them; distinct by history")
    ctx.coverage["exhaustive"] = False
    ctx.coverage["builds_replayed"] = nbuilds
    ctx.coverage["builds_replayed_through_process_file"] = nbuilds_pf[0]
    ctx.coverage["content_classes"] = len(d2h)
    ctx.coverage["property_findings"] = nprop
    ctx.coverage["variant"] = {"STALE_FIXED": STALE_FIXED, "ST_IN_CACHE": ST_IN_CACHE, "LX_IN_CACHE": LX_IN_CACHE}
    ctx.assumptions += [
        "an edit stamps the source with a time that is not older than any existing output (equal allowed) and builds stamp "
        "what they write with the current time (clock_weak; builds strictly later than the last edit for the "
        "'unchanged -> not regenerated' direction: clock_monotone); restoring an older file with an older mtime is outside "
        "the quantifier",
        "generated text is a function of (source text, settings, token map): equal descriptors <-> equal bytes is checked on "
        "every replayed build, not proved",
        "BUILD_TIME / lrlex build time are constant during a history (one build of lrpar/lrlex)",
        "freedom canonicalised: the serialised state table (__STABLE_DATA) of a grammar with conflicts lists the conflicts in "
        "hash-map order, which differs between any two processes (two clean builds included); it is compared as a multiset of bytes",
        "cache_injective (hypothesis of C18_incremental_equals_clean) is met by every history of the builders as they are: both "
        "type names the generator splices into the code are recorded (C18_type_params_recorded_cache_injective, "
        "C18_cache_records_all_generated_inputs; that the recorded vector of /repo is the mirror's is the static part of this check)",
        "scope of C18_incremental_equals_clean: the lexer builder's inspector (test_files check) accepts at every build "
        "(C18_incremental_equals_clean_inspector); otherwise the known finding C18-testfiles-cached, whose class is exactly "
        "`parser stage not regenerated and the inspector rejects` (C18_incremental_differs_only_by_skipped_inspector, "
        "C18_failed_build_no_stale_or_skipped_inspector); the inspector's verdict is abstract in the mirror (any function of grammar "
        "text, lexer text, settings, test files); the run instantiates it with a table worked out by hand for the texts used",
        "operation set: an edit writes the file and stamps it with the current clock (clock_weak).  Replacing the grammar by a file "
        "whose modification time is OLDER than the output (mv, cp -p, rsync -t, archive extraction) is not an edit in this sense "
        "and is not generated (audit 3); grammar_ast / with_grammar_src (feature `_unstable_api`; rebuild_cache documents that it "
        "ignores from_ast and grammar_src) are not entry points of the histories (audit 4)",
        "manual flow, scope (C18_manual_flow_parser_failure_keeps_tokmap + _witness): CTParserBuilder and CTTokenMapBuilder are two "
        "independent builders called one after the other by the user's build.rs; when the PARSER build fails the script ends and the "
        "token map module (like a lexer generated by a separate CTLexerBuilder in mode S) of the earlier grammar stays: nothing in the "
        "library can remove the other builder's file (CTLexerBuilder + lrpar_config, one builder driving the other, does: mode C). The "
        "module name of CTTokenMapBuilder is the name of its output file: changing it addresses another file, the module under the old "
        "name is not an output of the current configuration (C18_tokmap_build_touches_only_its_file); compared with the clean build: "
        "$OUT_DIR/<current mod>.rs.  `renamed` (which token names are identifiers after renaming, and the resulting list) is abstract in "
        "the mirror; the run instantiates it with Python's str.isidentifier on `T_` + name (agreement with syn::parse_str::<Ident> is "
        "checked on every clean build)",
        "CTParser::conflicts() is None when the parser output is cached (documented on the method) and inspect_rt is not part of the "
        "cache string (same root as the known finding C18-testfiles-cached): neither is observed as a generated file",
        "the `Unused keys in header` check also runs only when the parser regenerates; its verdict changes only when the build "
        "script switches between CTParserBuilder alone and CTLexerBuilder+lrpar_config for the same output file (not an operation "
        "of the histories; grammars with a test_files key are replayed in combined mode only)",
    ]
