"""C10 half (b), round trip (print-then-parse on the printer of the theorem) — stand-alone runner;
the coordinator merges it into checks/C10.py."""
from vlib import core
from checks import c10_round


def run(ctx):
    ctx.gate = core.proof_gate("C10round")
    for _ in ctx.gate["theorems"]:
        ctx.oblige(True)
    c10_round.run_part(ctx)
