"""C02 — pager_stategraph (lrtable/src/lib/pager.rs:116-305, gc 309-395) against its mirror, by exact replay.

Proof (theories/C02/Loop{Model,Spec,Proofs}.v, exported from Properties/C02.v): whenever the mirror `pager_mirror` of
pager_stategraph returns a graph — for ANY oracle of hash orders — every core state is a Pager-reachable kernel
(start kernel, goto of the closure, union of weakly compatible kernels) and every closed state is exactly the LR(1)
closure of its core state (C02_pager_mirror_reachable); with Pager's theorem (C02_weak_merge_safe,
C02_pager_reachable_conflict_free) no state has a conflict when the grammar is LR(1) (C02_pager_mirror_conflict_free),
in particular when the per-grammar certificate lr1_check is accepted (C02_pager_mirror_certified).

Tie (this file): the only hash order the resulting StateGraph depends on — the order in which the closed item set of
the state being processed yields its keys — is recorded by the cfg(grmtools_verif) hook inside pager_stategraph
(`lrtable::verif_take_pager_trace`).  For every generated grammar the extracted mirror REPLAYS that trace (FIRST/nullable
= the proved-exact first_ref) and its graph must be IDENTICAL to the implementation's StateGraph: same number of states,
same numbering, the same core and closed item sets (as sets of (production, dot, lookahead set)) and the same edges;
the mirror must return Done (no Panic, enough fuel = |trace| + 2).  The automaton INDUCED by the mirror's graph
(theories/C02/InducedModel.v: the table read off the closed states and edges) must pass validS/validE always and, when the
implementation reports no conflict, validC/single_candidate too (C02_induced_valid*, C02_pager_mirror_validated), and its
action/goto table must then equal the implementation's StateTable cell by cell.
"""
from vlib import core

CORR = ("pager_mirror (every core state Pager-reachable, every closed state the exact closure; conflict-free for LR(1) grammars) "
        "vs lrtable::from_yacc's StateGraph, replaying lrtable::verif_take_pager_trace")
THEOREMS = "C02_pager_mirror_reachable / C02_pager_mirror_conflict_free / C02_pager_mirror_certified"


def _graph(line):
    K, C, E, n = {}, {}, set(), None
    for s in line.split(" # "):
        f = s.split()
        if not f:
            continue
        if f[0] in ("PG", "N"):
            n = int(f[1])
        elif f[0] == "K":
            K[(int(f[1]), int(f[2]), int(f[3]))] = frozenset(int(x) for x in f[4:])
        elif f[0] == "C":
            C[(int(f[1]), int(f[2]), int(f[3]))] = frozenset(int(x) for x in f[4:])
        elif f[0] == "E":
            E.add((int(f[1]), int(f[2]), int(f[3])))
    return n, K, C, E


def _show(m, st):
    return ["%d %d : %s" % (p, d, " ".join(str(a) for a in sorted(la))) for (s, p, d), la in sorted(m.items()) if s == st]


def run_part(ctx, results):
    """results: list of vlib.lr.LRResult.  One obligation per grammar."""
    exe = core.build_harness("c02")
    mexe = core.build_model("c02")
    oks = [r for r in results if r.ok]
    lines = ["P O %s" % r.src.encode().hex() for r in oks]
    impl = core.run_lines([exe], lines)
    good = [(r, out) for r, out in zip(oks, impl) if out.startswith("G ")]
    model = core.run_lines([mexe, "loop"], [o for _, o in good], timeout=2400) if good else []
    tot = {"grammars": 0, "states": 0, "iterations": 0, "reprocessed_grammars": 0, "gc_grammars": 0,
           "conflict_free_grammars": 0, "tables_equal": 0}
    for r, out in zip(oks, impl):
        if not out.startswith("G "):
            ctx.oblige(False)
            ctx.violation({"what": "the c02 harness (trace mode) did not answer for a grammar the lr harness built", "grammar": r.src,
                           "impl": out[:300], "broken_correspondence": CORR}, no_input=True)
    reported = 0
    for (r, out), mo in zip(good, model):
        bad = []
        gi = _graph(out)
        trace = [[int(x) for x in s.split()[1:]] for s in out.split(" # ") if s.startswith("TR ")]
        if not mo.startswith("PG "):
            bad.append({"what": "pager_mirror did not return a graph when replaying the implementation's trace: %s" % mo[:100]})
        else:
            gm = _graph(mo)
            if gi[0] != gm[0]:
                bad.append({"what": "number of states: implementation %s, mirror %s" % (gi[0], gm[0])})
            else:
                for st in range(gi[0] or 0):
                    for name, idx in (("core", 1), ("closed", 2)):
                        a, b = _show(gi[idx], st), _show(gm[idx], st)
                        if a != b:
                            bad.append({"what": "%s state %d differs" % (name, st), "implementation": a, "mirror": b})
                            break
                    ea = sorted(e for e in gi[3] if e[0] == st)
                    eb = sorted(e for e in gm[3] if e[0] == st)
                    if ea != eb:
                        bad.append({"what": "edges of state %d differ" % st, "implementation": ea, "mirror": eb})
                    if len(bad) >= 3:
                        break
            # the automaton induced by the mirror's graph (InducedModel.v): validators and table
            kv = dict(x.split("=") for x in mo.split(" # ")[0].split()[2:] if "=" in x)
            noconf = " # X none" in out
            if kv.get("S") != "1" or kv.get("E") != "1":
                bad.append({"what": "validS/validE reject the automaton induced by the mirror's graph (S=%s E=%s) — excluded by "
                                    "C02_induced_validS / C02_induced_validE" % (kv.get("S"), kv.get("E"))})
            if noconf:
                tot["conflict_free_grammars"] += 1
                if kv.get("C") != "1" or kv.get("single") != "1":
                    bad.append({"what": "no conflict reported but validC/single_candidate reject the induced automaton (C=%s single=%s)"
                                        % (kv.get("C"), kv.get("single"))})
                ta = sorted(x for x in out.split(" # ") if x.startswith("A ") or x.startswith("T "))
                tb = sorted(x for x in mo.split(" # ") if x.startswith("A ") or x.startswith("T "))
                if ta != tb:
                    diff = sorted(set(ta) ^ set(tb))[:8]
                    bad.append({"what": "the implementation's StateTable differs from the table induced by the graph (shift along token "
                                        "edges, reduce by the complete item carrying the lookahead, goto = rule edges)", "cells": diff})
                else:
                    tot["tables_equal"] += 1
        tot["grammars"] += 1
        tot["states"] += gi[0] or 0
        tot["iterations"] += len(trace)
        if len(trace) > len(set(t[0] for t in trace)):
            tot["reprocessed_grammars"] += 1
        if len(set(t[0] for t in trace)) > (gi[0] or 0):
            tot["gc_grammars"] += 1
        ctx.oblige(not bad)
        for b in bad[:2]:
            reported += 1
            if reported > 6:
                break
            ctx.violation(dict(b, grammar=r.src, broken_correspondence=CORR, theorems=THEOREMS,
                               replay_cmd="echo 'P O <hex of grammar>' | .work/target/release/c02 | .work/ocaml/c02/gvm_c02 loop"),
                          no_input=True)
    for k, v in tot.items():
        ctx.count("loop_tie_" + k, v)
    ctx.coverage["pager_loop_tie"] = dict(tot, rule=(
        "every generated grammar: the extracted pager_mirror replays the key orders recorded by the hook in pager_stategraph and must "
        "return exactly the implementation's StateGraph (numbering, core states, closed states, edges); reprocessed = a state was "
        "closed more than once (a merge changed it); gc = more states were created than survive"))
    return tot
