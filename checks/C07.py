"""C07 — error recovery always progresses and the error list matches the outcome.

Proof (theories/Repair): on the mirror of the driver loop of Parser::lr, for ALL
tables that never shift the end-of-input token and ALL inputs and oracles: if
every applied sequence is a valid repair then consecutive errors lie >= N real
lexemes apart and within the input (errors_spaced), hence strictly increase and
number <= |input|/N + 1 (error_count_bounded); the loop ends within 2|input|+3
segments (driver_terminates); a value is returned iff every error carried a
repair, only the last may carry none (value_iff_all_repaired,
only_last_unrepaired); value + no errors = the plain interpreter accepts
(clean_accept); the first error is the plain interpreter's (first_error_is_plain_reject).
Tie: (value, errors) of parse_map with CPCT+ vs the mirror replayed with the
implementation's first sequences; validity of what was applied is C05's check.
Failing-input search: the stated inequalities are evaluated directly on what the
implementation returns; a watchdog detects parses that do not return.
"A parse always returns" on deep parse stacks (theories/C07/Drop*.v: the native
stack needed to release the recoverer's copy of the parse stack is explicit —
drop_recursive_depth, drop_iterative_depth, recover_drop_depth_bounded, and for the
pinned code recover_drop_depth_unbounded_refuted; /repo 4f40408): nesting depths
2 000 .. 500 000 on threads with 2 / 8 MiB of stack, one process per parse
(vlib/repair.py deep_check).  (value, errors) is a function of the input (/repo
ca69cd1): every erroneous input is parsed again, 8 times in one process and in 4
processes in all (vlib/repair.py determinism); the deadline sweep (c07_stall) no
longer tolerates a run that applies a different one of the equally ranked sequences.
"""
import re
from vlib import core, repair
from gen import repairgen
from checks import c07_stall

KNOWN_OVERFLOW = ("recovery panics: the u16 repair cost overflows (checked_add(..).unwrap() in CPCTPlus::insert/delete) when no repair "
                  "is found below cost 65535 (large token costs)")
KNOWN_NOPROGRESS = ("errors do not progress on a conflict-resolved table: the applied repair sequence is not a valid repair "
                    "(C05 finding: search from a stack reduced under the real lookahead)")
KNOWN_SEARCH_LOOP = ("recovery loops: the search's lr_cactus enters a reduction cycle through a conflict-resolved table cell "
                     "(grammar has no derivation cycle)")
KNOWN_LOOP = "parse loops: epsilon reduction cycle through a conflict-resolved table cell (grammar has no derivation cycle)"


def check_input(ctx, r, inp):
    base = {"grammar": r.src, "costs": r.costs, "input": r.names(inp.toks), "input_tidxs": inp.toks,
            "impl_errors": [{"lexeme": e[0], "state": e[1], "n_repairs": e[2]} for e in inp.errors[:12]],
            "n_impl_errors": len(inp.errors),
            "impl_value": (inp.value or "")[:300], "conflicts": r.conflicts}
    m = inp.model or {}
    n, N = len(inp.toks), 3          # the property's N (r.PN is checked to be 3)
    why = []
    pos = [e[0] for e in inp.errors]
    val = inp.value.startswith("acc ")
    for i in range(len(pos) - 1):
        if not pos[i] < pos[i + 1]:
            why.append("error %d at lexeme %d is not beyond error %d at lexeme %d" % (i + 1, pos[i + 1], i, pos[i]))
        elif pos[i + 1] < min(pos[i] + N, n):
            why.append("error %d at lexeme %d lies fewer than %d real lexemes beyond error %d at lexeme %d (input has %d)"
                       % (i + 1, pos[i + 1], N, i, pos[i], n))
    if any(p > n for p in pos):
        why.append("an error is reported beyond the end of the input")
    if len(pos) > n // N + 1:
        why.append("%d errors for %d lexemes (bound %d)" % (len(pos), n, n // N + 1))
    for i, e in enumerate(inp.errors[:-1]):
        if e[2] == 0:
            why.append("error %d (not the last) carries no repair sequence" % i)
    allrep = all(e[2] > 0 for e in inp.errors)
    if val != allrep:
        why.append("value returned = %s but every error carries a repair = %s" % (val, allrep))
    if not val and not inp.errors:
        why.append("neither a value nor an error")
    for e in inp.errors:
        if len(e[3]) != e[2]:
            why.append("harness: repair count mismatch")
    # value and no errors  =>  accepted unchanged (extracted plain interpreter on the same table)
    if val and not inp.errors and m.get("plain") not in ("acc", "fuel", None):
        why.append("a value and no errors, but the plain LR interpreter does not accept the input: %s" % m.get("plain"))
    if inp.errors and m.get("plain", "").startswith("rej:"):
        k, st = m["plain"].split(":")[1:3]
        if (int(k), int(st)) != (inp.errors[0][0], inp.errors[0][1]):
            why.append("first error at lexeme %d state %d, the plain interpreter rejects at lexeme %s state %s"
                       % (inp.errors[0][0], inp.errors[0][1], k, st))
    if inp.errors and m.get("plain") == "acc":
        why.append("errors reported for an input the plain LR interpreter accepts")
    # known class: on a table with resolved conflicts the applied (first) sequence of some error is not a valid
    # repair (decided by the extracted valid_repair, see C05), so the driver does not move on
    resolved = r.conflicts is not None or not r.verdict.get("single", False)
    applied_invalid = any(re.match(r"\d+\.0\.(step\d+|ahead-err\d+)$", b) for b in m.get("bad", "").split(",") if b)
    known = resolved and applied_invalid
    if known and why:
        # the recorded class is what the search AS WRITTEN does on such a table (C05 finding): the faithful mirror of the
        # search must report the implementation's sets at the errors whose applied sequence is invalid; otherwise this is
        # a different defect
        eis = sorted(set(int(b.split(".")[0]) for b in m.get("bad", "").split(",") if re.match(r"\d+\.0\.", b)))
        conf = repair.known_class_confirmed(r, r.inputs.index(inp), eis) if eis else None
        ctx.count("known_class_mirror_%s" % {True: "confirms", False: "CONTRADICTS", None: "not_consulted"}[conf])
        if conf is False:
            known = False
    for w in why[:1]:
        d = dict(base)
        d.update({"what": "; ".join(why), "PARSE_AT_LEAST": N, "plain_interpreter": m.get("plain"), "wall_ms": inp.ms,
                  "table_has_resolved_conflicts": resolved, "model_invalid_sequences(error.seq.why)": m.get("bad")})
        ctx.count("failing_known_class" if known else "failing_ALARM")
        ctx.violation(d, known_key=KNOWN_NOPROGRESS if known else None)
    # correspondence with the mirror driver (same (pos, state, repaired) list, same accept/none)
    if m and m.get("mirror") == "done":
        impl_errs = ["%d:%d:%d" % (e[0], e[1], 1 if e[3] else 0) for e in inp.errors]
        merrs = [x for x in m.get("merrs", "").split(",") if x]
        trunc = m.get("trunc") == "1"          # the mirror replayed only the first errors (model cap)
        if trunc:
            ctx.count("inputs_with_more_errors_than_model_cap(prefix compared)")
        if (impl_errs[:len(merrs)] != merrs) if trunc else (merrs != impl_errs or m.get("vcmp") == "diff"):
            d = dict(base)
            d.update({"what": "(value, errors) differ from the mirror driver replayed with the implementation's own first sequences",
                      "mirror_errors(pos:state:repaired)": merrs[:40], "value_comparison": m.get("vcmp"),
                      "broken_correspondence": "Repair.Semantics.run_recover vs Parser::lr (CPCT+)"})
            ctx.count("failing_known_class" if known else "failing_ALARM")
            ctx.violation(d, known_key=KNOWN_NOPROGRESS if known else None, no_input=not why)
            return known
    elif m and m.get("mirror") == "panic":
        d = dict(base)
        d.update({"what": "the mirror driver panics while replaying the implementation's first sequences"})
        ctx.violation(d, no_input=not why)
        return False
    else:
        ctx.count("skipped_model_fuel")
    return known or not why


def rerun_unit_costs(r, inp):
    """does the same input return when every token costs 1?"""
    rs = repair.run_cases([(r.fam, r.gram, "unit", {}, [r.names(inp.toks)])], budget_ms=repair.ONE_BUDGET_MS)
    return bool(rs and rs[0].ok and rs[0].inputs and (rs[0].inputs[0].value or "").split()[0] in ("acc", "none"))


def run(ctx):
    ctx.gate = core.proof_gate("C07")
    for _ in ctx.gate["theorems"]:
        ctx.oblige(True)
    cases = repairgen.gen_cases(ctx, ctx.n(240, 2500), ctx.n(7, 8))
    # the known looping table (DESIGN §9 / C07 finding) is always part of the corpus
    from gen.grammars import Gram
    t, rr = (lambda x: ('t', x)), (lambda x: ('r', x))
    loopg = Gram(["a", "b", "c", "d"], [("S", [[t("c"), t("c"), rr("A")], [rr("B")]]),
                                        ("A", [[], [rr("B"), t("b")]]),
                                        ("B", [[t("a"), t("a"), t("d")], [rr("A"), rr("A")]])])
    corpus = []
    corpus.insert(0, ("looptable", loopg, "unit", {}, [["b"], ["c", "c"], ["a", "a", "d"], ["c", "c", "b"], []]))
    # a table/cost pair on which no repair exists below cost 65535 (u16 overflow, known finding)
    ovg = Gram(["a"], [("S", [[t("a"), rr("C")], [t("a")]]),
                       ("C", [[t("a"), rr("S"), t("a")], [rr("S"), rr("C"), t("a"), rr("C")]])])
    corpus.insert(1, ("overflow", ovg, "all255", {"a": 255}, [["a", "a", "a"]]))
    # one success node standing for 4^12 repair sequences: expanding the merged alternatives must stay inside the
    # recovery budget too (the parse returns promptly although the repair space is huge) — ordinary budget
    wide = Gram(["a", "b", "c", "d", "x"], [("S", [[rr("A")] * 12 + [t("x")]]),
                                            ("A", [[t("a")], [t("b")], [t("c")], [t("d")]])])
    cases.insert(0, ("wideinsert", wide, "unit", {}, [[], ["x"], ["a", "x"]]))
    # the corpus whose recoveries are re-run with the deadline passing at every controlled position (checks/c07_stall.py)
    cases[1:1] = c07_stall.corpus()
    # (a larger budget for the corpus: the overflow needs ~260 search levels before the budget ends)
    cases[1:1] = repair.det_family()
    plain_results = repair.run_cases(cases)
    results = repair.run_cases(corpus, budget_ms=8000) + plain_results
    repair.deep_check(ctx)
    repair.determinism(ctx, plain_results)
    # the recovery deadline as a controlled input: the corpus above plus generated inputs on conflict-free tables whose
    # recovery inserts something, preferring inputs with several errors
    sweep, extra = [], []
    for r in results:
        if not r.ok:
            continue
        free = r.conflicts is None and r.verdict.get("single", False)
        for inp in r.inputs:
            if inp.value is None or not (inp.value.startswith("acc ") or inp.value == "none"):
                continue
            if r.fam.startswith(c07_stall.FAM):
                sweep.append((r, inp))
            elif free and inp.errors and len(inp.toks) <= 40 and any(st[0] == "I" for e in inp.errors for q in e[3] for st in q):
                extra.append((len(inp.errors) >= 2, r, inp))
    ctx.rng.shuffle(extra)
    extra.sort(key=lambda x: not x[0])
    sweep += [(r, inp) for _, r, inp in extra[:ctx.n(10, 120)]]
    # (run first: its few replays are not crowded out by a flood from the generated cases, and do not crowd those out: capped)
    c07_stall.run(ctx, sweep)
    for r in results:
        if not r.ok:
            ctx.count("grammar_rejected_" + r.err.split()[0])
            if r.err.startswith("HANG") or r.err.startswith("CRASH"):
                ctx.violation({"what": "building grammar/table or a parse does not return and could not be isolated",
                               "grammar": r.src, "impl": r.err}, no_input=True)
            continue
        ctx.count("family_" + r.fam)
        ctx.count("costs_" + r.cname)
        if r.PN != 3 and not ctx.hist.get('parse_at_least_not_3'):
            ctx.count('parse_at_least_not_3')
            ctx.violation({"what": "PARSE_AT_LEAST is %d; the property demands later errors at least three real lexemes further on" % r.PN,
                           "grammar": r.src}, no_input=True)
            ctx.oblige(False)
        conflict_free = r.conflicts is None and r.verdict.get("single", False)
        ctx.count("table_conflict_free" if conflict_free else "table_with_resolved_conflicts")
        cyclic = (not isinstance(r.gram, str)) and r.gram.derives_cycle()
        if not r.verdict.get("nse", True):
            ctx.violation({"what": "the table shifts the end-of-input token: hypothesis no_shift_eof of errors_spaced / "
                                   "error_count_bounded / driver_terminates fails", "grammar": r.src}, no_input=True)
            ctx.oblige(False)
        for inp in r.inputs:
            key = r.src + repr(sorted(r.costs.items())) + repr(inp.toks)
            if inp.value in ("hang", "crash") or inp.value is None:
                ctx.count("parse_does_not_return")
                if cyclic:
                    ctx.count("outside_domain_cyclic")
                    continue
                cycles = r.eps_cycles()
                d = {"what": "the parse does not return (watchdog %d ms; recovery budget %d ms)" % (repair.ONE_TIMEOUT_MS, repair.ONE_BUDGET_MS),
                     "grammar": r.src, "costs": r.costs, "input": r.names(inp.toks), "input_tidxs": inp.toks,
                     "outcome": inp.value, "conflicts": r.conflicts,
                     "conflict_cells": {"shift_reduce(state,token,prod)": r.sr_cells, "reduce_reduce(state,token,prod1,prod2)": r.rr_cells},
                     "model_plain_interpreter": (inp.model or {}).get("plain"),
                     "epsilon_reduce_cycles(token,states)": [(r.tname(tk), c) for tk, c in cycles],
                     "grammar_has_derivation_cycle": False}
                mm = inp.model or {}
                d["model_search_probe(loops from the first error configuration)"] = mm.get("probe")
                # known classes (tables with reported conflicts only): the plain LR loop itself never ends (the extracted
                # interpreter runs out of fuel on the same input), or the search's lr_cactus does (the mirror's
                # Insert / Delete*-Shift from the first error configuration runs out of fuel)
                known_plain = r.conflicts is not None and mm.get("plain") == "fuel"
                known_search = r.conflicts is not None and mm.get("plain", "").startswith("rej:") and bool(mm.get("probe"))
                known = known_plain or known_search
                ctx.count("hang_known_plain_loop" if known_plain else "hang_known_search_loop" if known_search else "hang_ALARM")
                ctx.violation(d, known_key=(KNOWN_LOOP if known_plain else KNOWN_SEARCH_LOOP) if known else None)
                ctx.oblige(False if not known else True)
                ctx.case(key, True)
                continue
            if inp.value.startswith("panic") or inp.value == "lexerr":
                # known class: cost overflow — large costs, Option::unwrap on None, and the same input returns with unit costs
                known = ("Option::unwrap()" in inp.value and max(r.cost_by_tidx or [1]) >= 16 and ctx.hist.get("panic_reruns", 0) < 40
                         and (ctx.count("panic_reruns") or True) and rerun_unit_costs(r, inp))
                ctx.count("parse_panics_known_overflow" if known else "parse_panics_ALARM")
                ctx.violation({"what": "the parse panics instead of returning (value, errors)", "grammar": r.src, "costs": r.costs,
                               "input": r.names(inp.toks), "input_tidxs": inp.toks, "impl": inp.value, "conflicts": r.conflicts,
                               "returns_with_unit_costs": known}, known_key=KNOWN_OVERFLOW if known else None)
                ctx.oblige(bool(known))
                ctx.case(key, True)
                continue
            if inp.errors and not inp.errors[-1][3] and inp.ms >= 0.8 * r.budget:
                ctx.count("budget_possibly_exhausted")
            ctx.count("errors_per_input_%s" % (len(inp.errors) if len(inp.errors) < 4 else "4+"))
            if inp.errors and inp.errors[-1][0] == len(inp.toks):
                ctx.count("error_at_end_of_input")
            if inp.errors and not inp.errors[-1][3]:
                ctx.count("last_error_without_repairs")
            ok = check_input(ctx, r, inp)
            ctx.oblige(ok)
            ctx.case(key, len(inp.errors) >= 1,
                     {"grammar": r.src, "costs": r.cname, "input": r.names(inp.toks),
                      "errors(lexeme,state,n_repairs)": [(e[0], e[1], e[2]) for e in inp.errors],
                      "value": inp.value[:160], "model": inp.model})
    ctx.coverage["rule"] = ("as C05's generator (acyclic grammars only: Gram.derives_cycle()) plus the known looping table; inputs with many "
                            "independent errors, errors at end of input, the empty input, unchanged sentences; a case = one input; "
                            "non-trivial = at least one error; distinct by (grammar text, costs, token list)")
    ctx.coverage["builder_order_rule"] = repair.BUILDER_ORDER_RULE + "; both orders also carry the single-shot harness lexer (a second Lexer::iter call on one lexer panics)"
    ctx.assumptions += ["domain: grammars in which no rule derives just itself (checked on the abstract grammar before rendering)",
                        "recovery budget raised to %d ms through the hook; a last error without repairs is allowed by the property, "
                        "so a budget timeout is never an alarm" % repair.BUDGET_MS,
                        "termination of a run of reductions (inner segment) is an explicit hypothesis of driver_terminates; on the "
                        "implementation it is observed under the watchdog",
                        "the lexer never produces the eof token; token ids in range (ReplayLexer)",
                        "an input that falls into a known-finding class (KNOWN_* in this file: tables with reported/resolved conflicts "
                        "only, each confirmed by the extracted model: interpreter out of fuel / search-move probe out of fuel / applied "
                        "sequence invalid / returns with unit costs) is reported through known_key and counted as a discharged "
                        "obligation; everything else alarms",
                        "model cap: at most 300 errors per input are replayed by the mirror (prefix compared)",
                        "deadline sweep (c07_stall): the parse runs over a harness lexeme type whose Lexeme::new_faulty sleeps once; the "
                        "deadline can therefore only be made to pass at a new_faulty call (search insert, ranking replay, final replay, "
                        "end-of-input lookahead), not between two arbitrary instructions"]
