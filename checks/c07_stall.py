"""C07, the recovery deadline as a controlled input (tie for "the recoverer gave up because its time budget ran out").

The theorems of Properties/C07.v (errors_spaced, errors_strictly_increase, error_count_bounded, value_iff_all_repaired,
only_last_unrepaired, clean_accept, first_error_is_plain_reject, driver_terminates) are proved for an ARBITRARY recoverer
oracle: whatever `recover` answers — in particular "no repairs" at any moment — the driver's (value, errors) has the stated
shape.  On the implementation the recoverer gives up when the shared, decreasing budget `finish_by` passes; the deadline is
looked at in the search's neighbour closure, in collect_repairs/traverse, at the head of every iteration of rank_cnds, and the
remaining budget is recomputed by the driver after every recovery.  Wall-clock budgets never make the deadline pass INSIDE
ranking (a window of microseconds).  Here the moment becomes an input: harness `stall` parses over a lexeme type whose
`Lexeme::new_faulty` (called by CPCTPlus::insert, by apply_repairs in rank_cnds and in the final replay, and by
Parser::next_lexeme for the end-of-input lookahead) sleeps once, at its n-th call, for longer than the whole budget.
Every n in 1..T (T = calls of the undisturbed parse) is run (evenly thinned beyond a cap) and the conclusions of the theorems
are evaluated on each result, plus: the stalled run is a prefix-compatible variant of the undisturbed one.
"""
import re
from vlib import core, repair
from gen.grammars import Gram

BUDGET_MS = 150            # recovery budget of the stalled runs (hook GRMTOOLS_VERIF_RECOVERY_BUDGET_MS)
STALL_MS = 300             # one sleep, longer than the whole budget
WATCHDOG_MS = 8000         # a stalled parse must return well inside this (budget + stall + slack)
BASE_BUDGET_MS = 1200      # budget of the undisturbed (reference) runs
FAM = "stall_"

t, rr = (lambda x: ('t', x)), (lambda x: ('r', x))


def corpus():
    """(family, Gram, costname, costs, inputs): recoveries with Insert repairs, several equal-cost candidates with different
    stacks (ranking has >= 2 candidates), errors at end of input, the empty input, errors far apart (the later recovery
    starts with a partly used budget), one success node standing for very many sequences."""
    calc = Gram(["INT", "PLUS", "MUL", "LBRACK", "RBRACK"],
                [("Expr", [[rr("Expr"), t("PLUS"), rr("Term")], [rr("Term")]]),
                 ("Term", [[rr("Term"), t("MUL"), rr("Factor")], [rr("Factor")]]),
                 ("Factor", [[t("LBRACK"), rr("Expr"), t("RBRACK")], [t("INT")]])])
    c = "INT PLUS PLUS INT"
    calc_in = [c.split(), "LBRACK INT".split(), [],
               "INT PLUS PLUS INT MUL INT PLUS INT PLUS PLUS INT".split(),
               "LBRACK INT PLUS INT INT RBRACK MUL INT PLUS LBRACK INT MUL RBRACK PLUS INT INT".split(),
               "INT INT INT INT".split()]
    corch = Gram(["N", "+", "(", ")"], [("E", [[t("N")], [rr("E"), t("+"), t("N")], [t("("), rr("E"), t(")")]])])
    corch_in = ["( N N".split(), "N + + N".split(), "( N".split(), "( ( N + N N ) + N N".split(), ") N".split()]

    def wide(k):
        return Gram(["a", "b", "c", "d", "x"], [("S", [[rr("A")] * k + [t("x")]]),
                                                ("A", [[t("a")], [t("b")], [t("c")], [t("d")]])])
    av1 = Gram(["x", "z", "p", "q", "r", "s", "A"], [("S", [[t("x"), rr("T"), t("z")]]),
                                                     ("T", [[t("p"), t("A")], [t("q"), t("r"), t("s")]])], avoid_insert=["A"])
    av2 = Gram(["x", "z", "q", "r", "A"], [("S", [[t("x"), rr("T"), t("z")]]),
                                           ("T", [[t("A")], [t("q"), t("r")]])], avoid_insert=["A"])
    # three openers: the missing opener has three equal-cost single-insert repairs reached on three different stacks
    openers = Gram(["o1", "o2", "o3", "b", "c", "e"],
                   [("S", [[rr("Item")], [rr("S"), rr("Item")]]),
                    ("Item", [[t("o1"), rr("Body"), t("c"), t("e")], [t("o2"), rr("Body"), t("c"), t("e")],
                              [t("o3"), rr("Body"), t("c"), t("e")]]),
                    ("Body", [[rr("Body"), t("b")], [t("b")]])])
    op_in = ["b b b c e".split(), "b b b b b b c e".split(),
             "b b c e o1 b b c e b c e o2 b c e b b b c e".split(), "o1 b b c".split()]
    from gen import repairgen
    java = repairgen.javaish()
    java_in = ["id eq id + semi while ( id ) { return num num semi }".split(),
               "if ( id { id eq num semi } return id ( id , ) semi".split()]
    return [(FAM + "calc", calc, "unit", {}, calc_in),
            (FAM + "corchuelo", corch, "unit", {}, corch_in),
            (FAM + "wide5", wide(5), "unit", {}, [[], ["x"], ["a", "x"]]),
            (FAM + "wide12", wide(12), "unit", {}, [[]]),
            (FAM + "avoid_pA_qrs", av1, "A2", {"A": 2}, ["x z".split(), ["x"]]),
            (FAM + "avoid_A_qr", av2, "A2", {"A": 2}, ["x z".split()]),
            (FAM + "openers", openers, "unit", {}, op_in),
            (FAM + "javaish", java, "unit", {}, java_in)]


def stall_line(src, costs, names, n=0, ms=0, trace=False):
    l = repair.case_line(src, costs, [names])
    head, rest = l.split(" ; ", 1)
    if n:
        head += " stall=%d:%d" % (n, ms)
    if trace:
        head += " trace=1"
    return head + " ; " + rest


def unrle(s):
    if s == "-":
        return ""
    return "".join(c * int(k or 1) for c, k in re.findall(r"([a-zA-Z])(\d*)", s))


class Run:
    """one parse by the stall harness"""

    def __init__(self, line, r_tnames):
        self.line = line
        self.returned = line.startswith("G ")
        self.errors, self.value, self.ms = [], None, 0
        self.nf, self.stalled, self.stalled_at, self.trace = 0, False, 0, None
        if not self.returned:
            self.value = line.split()[0].lower() if line else "crash"
            return
        k = line.find(" # I")
        for sec in line[k:].split(" # "):
            s = sec.split()
            if not s:
                continue
            if s[0] == "ER":
                self.errors.append([int(s[1]), int(s[2]), int(s[3]), []])
            elif s[0] == "RS" and self.errors:
                self.errors[-1][3].append(s[1:])
            elif s[0] == "VL":
                self.value = " ".join(s[1:])
            elif s[0] == "TM":
                self.ms = int(s[1])
            elif s[0] == "NF":
                self.nf, self.stalled, self.stalled_at = int(s[1]), s[2] == "1", int(s[3])
            elif s[0] == "TR":
                self.trace = unrle(s[1])

    def sets(self):
        return [(e[0], e[1], frozenset(" ".join(q) for q in e[3])) for e in self.errors]

    def firsts(self):
        return [" ".join(e[3][0]) if e[3] else None for e in self.errors]

    def short(self):
        return {"errors(lexeme,state,n_repairs)": [(e[0], e[1], e[2]) for e in self.errors[:12]],
                "first_sequences": self.firsts()[:12], "value": (self.value or "")[:200], "wall_ms": self.ms,
                "new_faulty_calls": self.nf, "stalled": self.stalled}


def shape_violations(errors, value, ntoks, plain):
    """the conclusions of the C07 theorems (arbitrary oracle), per clause -> {clause: text}"""
    N, n = 3, ntoks
    bad = {}
    pos = [e[0] for e in errors]
    val = (value or "").startswith("acc ")
    for i in range(len(pos) - 1):
        if not pos[i] < pos[i + 1]:
            bad.setdefault("spaced", "error %d at lexeme %d is not beyond error %d at lexeme %d" % (i + 1, pos[i + 1], i, pos[i]))
        elif pos[i + 1] < min(pos[i] + N, n):
            bad.setdefault("spaced", "error %d at lexeme %d lies fewer than %d real lexemes beyond error %d at lexeme %d (input has %d)"
                           % (i + 1, pos[i + 1], N, i, pos[i], n))
    if any(p > n for p in pos):
        bad.setdefault("spaced", "an error is reported beyond the end of the input")
    if len(pos) > n // N + 1:
        bad.setdefault("spaced", "%d errors for %d lexemes (bound %d)" % (len(pos), n, n // N + 1))
    for i, e in enumerate(errors[:-1]):
        if e[2] == 0:
            bad.setdefault("only_last_unrepaired", "error %d (not the last) carries no repair sequence" % i)
    allrep = all(e[2] > 0 for e in errors)
    if val != allrep:
        bad.setdefault("value_iff_all_repaired", "value returned = %s but every error carries a repair = %s" % (val, allrep))
    if not val and not errors:
        bad.setdefault("value_iff_all_repaired", "neither a value nor an error")
    if plain:
        if val and not errors and plain not in ("acc", "fuel"):
            bad.setdefault("first_error", "a value and no errors, but the plain LR interpreter does not accept the input: %s" % plain)
        if errors and plain.startswith("rej:"):
            k, st = plain.split(":")[1:3]
            if (int(k), int(st)) != (errors[0][0], errors[0][1]):
                bad.setdefault("first_error", "first error at lexeme %d state %d, the plain interpreter rejects at lexeme %s state %s"
                               % (errors[0][0], errors[0][1], k, st))
        if errors and plain == "acc":
            bad.setdefault("first_error", "errors reported for an input the plain LR interpreter accepts")
    return bad


def compare_with_base(run, base):
    """-> (outcome class, violation text or None).  With repair.REPAIR_ORDER_FIXED (/repo ca69cd1: the order of equal-rank
    sequences, hence the applied one, is a function of the input) the sequence LISTS are compared and a run that applies a
    different sequence than the undisturbed one is a violation.  Without it only the SETS are compared (a randomly seeded
    HashSet decided the order) and once the applied sequences differ the rest is not comparable."""
    E1, E0 = run.sets(), base.sets()
    F1, F0 = run.firsts(), base.firsts()
    L1, L0 = [[" ".join(q) for q in e[3]] for e in run.errors], [[" ".join(q) for q in e[3]] for e in base.errors]
    for i in range(len(E1)):
        if i >= len(E0):
            return "more_errors", "error %d reported after every error of the undisturbed run, same sequences applied so far" % i
        if E1[i][:2] != E0[i][:2]:
            return "differs", ("error %d at (lexeme %d, state %d), the undisturbed run has (lexeme %d, state %d), same sequences "
                               "applied so far" % ((i,) + E1[i][:2] + E0[i][:2]))
        if not E1[i][2]:
            # gave up here: must be the last (clause only_last_unrepaired decides that); fine whatever the reference had
            if i != len(E1) - 1:
                return "gave_up", None
            return ("identical" if (not E0[i][2] and len(E0) == len(E1)) else "gave_up_at_%s" % (i if i < 3 else "3+")), None
        if E1[i][2] != E0[i][2]:
            return "differs", ("error %d carries a different SET of repair sequences than in the undisturbed run (%d vs %d sequences): "
                               "a recovery cut short must report none" % (i, len(E1[i][2]), len(E0[i][2])))
        if F1[i] != F0[i]:
            if repair.REPAIR_ORDER_FIXED:
                return "order_differs", ("error %d: same set of %d sequences, but the APPLIED sequence (repairs()[0]) is [%s] and [%s] in the "
                                   "undisturbed run: the applied repair is not a function of the input" % (i, len(E1[i][2]), F1[i], F0[i]))
            return "diverged_by_hash_order(%s)" % ("gave_up_later" if not E1[-1][2] else "all_repaired"), None
        if repair.REPAIR_ORDER_FIXED and L1[i] != L0[i]:
            return "order_differs", ("error %d: same set of %d sequences and same applied sequence, but the reported LIST is in a different "
                               "order than in the undisturbed run" % (i, len(E1[i][2])))
    if len(E1) < len(E0):
        return "fewer_errors", ("every reported error carries repairs and the same sequences were applied, but the undisturbed run "
                                "goes on to report %d more error(s)" % (len(E0) - len(E1)))
    if (run.value or "") != (base.value or ""):
        return "differs", "same errors, same applied sequences, different value"
    return "identical", None


def phase_estimate(trace):
    """for the n-th new_faulty call (events f/e) of the undisturbed run: 'final' (the parser next asks the span of the inserted
    lexeme: only the final replay shifts onto the real stacks), 'search' (the token-cost callback, which only the search
    calls, comes before any sign of the final replay), else 'rank_or_tail' (ranking, the end-of-input lexeme of the error
    record, or the tail of a search at end of input)"""
    idx = [i for i, c in enumerate(trace) if c in "fe"]
    out = []
    for i in idx:
        nxt = trace[i + 1:i + 3]
        if (trace[i] == "f" and nxt[:1] == "S") or (trace[i] == "e" and nxt == "fS"):
            out.append("final")
            continue
        ph = "rank_or_tail"
        for c in trace[i + 1:]:
            if c == "c":
                ph = "search"
                break
            if c in "Sa":
                break
        out.append(ph)
    return out


def positions(T, phases, cap):
    if T <= cap:
        return list(range(1, T + 1))
    # beyond the cap: half the runs on the calls outside the search (ranking / final replay: the narrow windows), the rest even
    special = [i + 1 for i, p in enumerate(phases) if p != "search"]
    pick = set()
    h = cap // 2
    if special:
        step = max(1.0, len(special) / float(h))
        pick.update(special[int(k * step)] for k in range(h) if int(k * step) < len(special))
    k = 0
    step = T / float(cap)
    while len(pick) < cap and k < cap:
        pick.add(1 + int(k * step))
        k += 1
    pick.add(T)
    return sorted(pick)


MAX_REPORTS = 6            # replays written by this part (every failing run is still counted and fails its clause)


def report(ctx, d, **kw):
    if ctx.hist.get("stall_violation_reports", 0) < MAX_REPORTS:
        ctx.count("stall_violation_reports")
        ctx.violation(d, **kw)
    else:
        ctx.count("stall_violations_not_reported(cap)")


CLAUSES = ["returns", "spaced", "only_last_unrepaired", "value_iff_all_repaired", "first_error", "prefix_of_undisturbed"]


def run(ctx, pairs):
    """pairs: (RepResult, Inp) — reference runs (harness `repair`, DefaultLexeme, extracted model consulted) of corpus() and of
    whatever further inputs the caller wants swept"""
    exe = core.build_harness("stall")
    cap = ctx.n(60, 400)
    # 1. undisturbed runs over the stalling lexeme type (generous budget), with the event trace
    blines = [stall_line(r.src, r.costs, r.names(inp.toks), trace=True) for r, inp in pairs]
    benv = {"GRMTOOLS_VERIF_RECOVERY_BUDGET_MS": str(BASE_BUDGET_MS), "GVH_CASE_TIMEOUT_MS": str(repair.ONE_TIMEOUT_MS)}
    bouts = core.run_lines([exe], blines, env=benv, shards=min(core.NPROC, len(blines))) if blines else []
    failed = dict((c, 0) for c in CLAUSES)
    lexeme_type_ok, jobs = True, []
    for (r, inp), bl, bo in zip(pairs, blines, bouts):
        base = Run(bo, None)
        ident = {"grammar": r.src, "costs": r.costs, "input": r.names(inp.toks), "input_tidxs": inp.toks}
        plain = (inp.model or {}).get("plain")
        if not base.returned or (base.value or "").startswith("panic"):
            failed["returns"] += 1
            d = dict(ident)
            d.update({"what": "the undisturbed parse over the stalling lexeme type does not return (value, errors)", "impl": bo[:300],
                      "recovery_budget_ms": BASE_BUDGET_MS, "harness_case_line": bl})
            report(ctx, d)
            continue
        # the lexeme type is immaterial: same errors (sets) as the reference run of harness `repair`
        ref = Run("G", None)
        ref.errors, ref.value = inp.errors, inp.value
        cls, why = compare_with_base(base, ref)
        if inp.value in (None, "hang", "crash") or inp.value.startswith("panic"):
            ctx.count("stall_reference_did_not_return")      # reported by the main part of the check
            continue
        if why and cls == "order_differs":
            # two parses of one input (the lexeme type is immaterial) apply different sequences / list them in a different
            # order: the property's "function of the input" fails on this input
            failed["prefix_of_undisturbed"] += 1
            d = dict(ident)
            d.update({"what": "two parses of the same input (harness stall without a stall, harness repair) differ: " + why,
                      "stall_harness": base.short(), "repair_harness_first_sequences": ref.firsts()[:12], "harness_case_line": bl})
            report(ctx, d)
            continue
        if why and not (base.errors and not base.errors[-1][3]) and not (inp.errors and not inp.errors[-1][3]):
            lexeme_type_ok = False
            d = dict(ident)
            d.update({"what": "the parse over the stalling lexeme type (no stall) differs from the parse over DefaultLexeme: " + why,
                      "stall_harness": base.short(), "repair_harness_errors": [(e[0], e[1], e[2]) for e in inp.errors[:12]],
                      "broken_correspondence": "harness stall vs harness repair"})
            ctx.violation(d, no_input=True)
            continue
        bad = shape_violations(base.errors, base.value, len(inp.toks), plain)
        if bad:
            for c in bad:
                failed[c] += 1
            d = dict(ident)
            d.update({"what": "; ".join(bad.values()), "run": base.short(), "stall": None, "recovery_budget_ms": BASE_BUDGET_MS,
                      "plain_interpreter": plain, "harness_case_line": bl})
            report(ctx, d)
            continue
        T = base.nf
        ctx.count("stall_pairs")
        ctx.count("stall_pairs_with_%s_errors" % (len(base.errors) if len(base.errors) < 3 else "3+"))
        if T == 0:
            ctx.count("stall_pairs_without_new_faulty_call")
            continue
        phases = phase_estimate(base.trace or "")
        if len(phases) != T:
            phases = (phases + ["search"] * T)[:T]
        for n in positions(T, phases, cap):
            jobs.append((r, inp, base, plain, n, phases[n - 1], ident))
        ctx.count("stall_calls_total", T)
    # 2. one run per stall position
    lines = [stall_line(r.src, r.costs, r.names(inp.toks), n=n, ms=STALL_MS) for r, inp, _, _, n, _, _ in jobs]
    env = {"GRMTOOLS_VERIF_RECOVERY_BUDGET_MS": str(BUDGET_MS), "GVH_CASE_TIMEOUT_MS": str(WATCHDOG_MS)}
    outs = core.run_lines([exe], lines, env=env, shards=min(4 * core.NPROC, max(1, len(lines) // 3)), max_bad=4) if lines else []
    window = 0
    for (r, inp, base, plain, n, phase, ident), line, out in zip(jobs, lines, outs):
        if out == "SKIPPED":
            ctx.count("stall_runs_skipped_after_hangs")
            continue
        run_ = Run(out, None)
        ctx.count("stall_runs")
        d = dict(ident)
        d.update({"stall": {"at_new_faulty_call": n, "of_calls_in_undisturbed_run": base.nf, "sleep_ms": STALL_MS,
                            "estimated_phase": phase},
                  "recovery_budget_ms": BUDGET_MS, "watchdog_ms": WATCHDOG_MS, "undisturbed_run": base.short(),
                  "plain_interpreter": plain, "harness": "stall", "harness_case_line": line,
                  "replay": "echo '<harness_case_line>' | GRMTOOLS_VERIF_RECOVERY_BUDGET_MS=%d GVH_VERBOSE_PANIC=1 "
                            ".work/target/release/stall" % BUDGET_MS})
        if not run_.returned or (run_.value or "").startswith("panic"):
            failed["returns"] += 1
            ctx.count("stall_ALARM_does_not_return")
            d.update({"what": "the parse does not return (value, errors) when the recovery deadline passes at this point: %s"
                              % ("it panics" if run_.returned else "no answer within the watchdog / process died"),
                      "impl": (run_.value if run_.returned else out)[:300]})
            report(ctx, d)
            ctx.case("stall" + line, True)
            continue
        if not run_.stalled:
            ctx.count("stall_position_not_reached(earlier give-up)")
        bad = shape_violations(run_.errors, run_.value, len(inp.toks), plain)
        cls, why = compare_with_base(run_, base)
        if why:
            bad["prefix_of_undisturbed"] = "not a prefix-compatible variant of the undisturbed run: " + why
        ctx.count("stall_outcome_" + cls)
        ctx.count("stall_phase_%s:%s" % (phase, "gave_up" if cls.startswith("gave_up") else cls))
        if phase == "rank_or_tail" and cls.startswith("gave_up") and run_.stalled:
            window += 1
        if bad:
            for c in bad:
                failed[c] += 1
            ctx.count("stall_ALARM_shape")
            d.update({"what": "; ".join(bad.values()), "stalled_run": run_.short()})
            report(ctx, d)
        ctx.case("stall" + line, True,
                 {"grammar": r.src, "input": r.names(inp.toks), "stall_at_call": n, "of": base.nf, "phase": phase, "outcome": cls,
                  "errors(lexeme,state,n_repairs)": [(e[0], e[1], e[2]) for e in run_.errors[:8]], "value": (run_.value or "")[:80]})
    for c in CLAUSES:
        ctx.oblige(failed[c] == 0)
    ctx.oblige(lexeme_type_ok)
    # the technique must keep reaching what it was built for: the deadline passing between two candidates of rank_cnds
    ctx.count("stall_ranking_window_hits", window)
    reach = window > 0 or not jobs
    if jobs and not reach and not any(failed.values()):
        ctx.violation({"what": "no stall position made the recoverer give up after the search had finished: the ranking window is "
                               "no longer exercised (does the parser still call Lexeme::new_faulty in apply_repairs?)",
                       "broken_correspondence": "c07_stall: deadline position as input"}, no_input=True)
    ctx.oblige(reach or any(failed.values()))
    ctx.coverage["stall_rule"] = (
        "deadline position as input: %d (grammar, input) pairs (corpus + swept generated inputs), every new_faulty call position "
        "1..T (cap %d per pair, beyond it half on the calls outside the search); budget %d ms, one sleep of %d ms; clauses "
        "evaluated per run: %s; phases estimated from the undisturbed run's event trace (cost callback = search, span of an "
        "inserted lexeme = final replay)" % (len(pairs), cap, BUDGET_MS, STALL_MS, ", ".join(CLAUSES)))
