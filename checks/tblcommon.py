"""Helpers shared by C03 and C16: parsing of the table dumps of the `lr` / `c16`
harness binaries, mapping of an abstract grammar (gen.grammars.Gram) onto the
dumped indices, the declaration sections handed to the extracted model."""

KIND_CODE = {"left": 0, "right": 1, "nonassoc": 2}
KIND_NAME = {0: "%left", 1: "%right", 2: "%nonassoc"}


def dump_case(src, kind="O"):
    """harness case line that only asks for the dump (no input is parsed: a parser built from a
    grammar with a unit cycle would loop on it, which is C07's subject, not the table's)"""
    return "%s %s" % (kind, src.encode().hex())


def sections(line):
    return [s.split() for s in line.split(" # ")]


class TDump:
    def __init__(self, line):
        self.line = line
        self.ok = line.startswith("G ")
        self.prods = []
        self.tn, self.rn = {}, {}          # name -> index
        self.tname, self.rname = {}, {}    # index -> name
        self.tprec, self.pprec = {}, {}
        self.closed, self.core, self.edges = {}, {}, {}
        self.actions, self.gotos = {}, {}
        self.conflicts = None
        self.xs, self.xr = [], []
        self.va, self.vsh, self.vcr, self.vro = {}, {}, {}, {}
        self.nstates = 0
        self.start = 0
        if not self.ok:
            return
        for s in sections(line):
            if not s:
                continue
            k = s[0]
            if k == "G":
                self.ntoks, self.nrules, self.eof, self.start_prod = map(int, s[1:5])
            elif k == "P":
                self.prods.append((int(s[1]), [int(x) for x in s[2:]]))
            elif k == "TN":
                n = bytes.fromhex(s[2]).decode()
                self.tn[n] = int(s[1])
                self.tname[int(s[1])] = n
            elif k == "RN":
                n = bytes.fromhex(s[2]).decode()
                self.rn[n] = int(s[1])
                self.rname[int(s[1])] = n
            elif k == "TP":
                self.tprec[int(s[1])] = (int(s[2]), int(s[3]))
            elif k == "PP":
                self.pprec[int(s[1])] = (int(s[2]), int(s[3]))
            elif k == "N":
                self.nstates, self.start = int(s[1]), int(s[2])
            elif k == "C":
                self.closed.setdefault(int(s[1]), []).append((int(s[2]), int(s[3]), [int(x) for x in s[4:]]))
            elif k == "K":
                self.core.setdefault(int(s[1]), []).append((int(s[2]), int(s[3]), [int(x) for x in s[4:]]))
            elif k == "E":
                self.edges.setdefault(int(s[1]), []).append((int(s[2]), int(s[3])))
            elif k == "A":
                self.actions[(int(s[1]), int(s[2]))] = tuple([s[3]] + [int(x) for x in s[4:]])
            elif k == "T":
                self.gotos[(int(s[1]), int(s[2]))] = int(s[3])
            elif k == "X":
                self.conflicts = None if s[1] == "none" else (int(s[1]), int(s[2]))
            elif k == "XS":
                self.xs.append((int(s[1]), int(s[2]), int(s[3])))
            elif k == "XR":
                self.xr.append((int(s[1]), int(s[2]), int(s[3]), int(s[4])))
            elif k == "VA":
                self.va[int(s[1])] = [int(x) for x in s[2:]]
            elif k == "VSH":
                self.vsh[int(s[1])] = [int(x) for x in s[2:]]
            elif k == "VCR":
                self.vcr[int(s[1])] = [int(x) for x in s[2:]]
            elif k == "VRO":
                self.vro[int(s[1])] = s[2] == "1"

    # ---- pretty printing for witnesses ----
    def sym(self, code):
        return ("'%s'" % self.tname.get(code // 2, "$")) if code % 2 == 0 else self.rname.get(code // 2, "?")

    def pp_prod(self, p):
        l, rhs = self.prods[p]
        return "%s: %s" % (self.rname.get(l, "?"), " ".join(self.sym(x) for x in rhs))

    def pp_item(self, it):
        p, d, la = it
        l, rhs = self.prods[p]
        syms = [self.sym(x) for x in rhs]
        return "[%d] %s: %s . %s  {%s}" % (p, self.rname.get(l, "?"), " ".join(syms[:d]), " ".join(syms[d:]),
                                          ", ".join(self.tname.get(a, "$") for a in la))

    def pp_prec(self, pr):
        return None if pr is None else "level %d %s" % (pr[0], KIND_NAME[pr[1]])

    def cell_witness(self, s, a):
        """the items and edge that justify the cell (s, a)"""
        items = [it for it in self.closed.get(s, []) if it[1] == len(self.prods[it[0]][1]) and a in it[2]]
        edge = [t for (sy, t) in self.edges.get(s, []) if sy == 2 * a]
        return {"state": s, "token": self.tname.get(a, "$end"), "tidx": a,
                "complete_items_with_lookahead": [self.pp_item(it) for it in items],
                "shift_edge_to": edge[0] if edge else None,
                "token_precedence": self.pp_prec(self.tprec.get(a)),
                "production_precedences": {str(it[0]): self.pp_prec(self.pprec.get(it[0])) for it in items}}


def map_prods(g, d):
    """abstract production (rule index, alt index) -> pidx, by rule name and right-hand side"""
    used = set()
    res = {}
    for ri, (n, ps) in enumerate(g.rules):
        for ai, (syms, _) in enumerate(ps):
            try:
                rhs = [2 * d.tn[x] if k == 't' else 2 * d.rn[x] + 1 for k, x in syms]
                lhs = d.rn[n]
            except KeyError:
                continue
            for p, (l, r) in enumerate(d.prods):
                if p not in used and l == lhs and r == rhs:
                    used.add(p)
                    res[(ri, ai)] = p
                    break
    return res


class RawGram:
    """a grammar given only by its yacc source (replays): no abstract declarations to compare"""
    raw = True

    def __init__(self, src):
        self.src = src
        self.precs, self.rules = [], []
        self.expect = self.expectrr = None

    def render(self):
        return self.src


def decl_sections(g, d):
    """` # DL kind tidx…` per precedence line (in order; tokens that are not grammar tokens have
    no index and are left out, the line still counts) and ` # DP pidx tidx|-` per production"""
    if getattr(g, "raw", False):
        return ""
    o = [" # DN"]
    for kind, toks in g.precs:
        o.append(" # DL %d %s" % (KIND_CODE[kind], " ".join(str(d.tn[x]) for x in toks if x in d.tn)))
    pm = map_prods(g, d)
    for ri, (n, ps) in enumerate(g.rules):
        for ai, (syms, prec) in enumerate(ps):
            p = pm.get((ri, ai))
            if p is None:
                continue
            o.append(" # DP %d %s" % (p, d.tn[prec] if (prec and prec in d.tn) else "-"))
    return "".join(o)


def model_sections(line):
    """sections of a model output line grouped by tag"""
    r = {}
    for s in sections(line):
        if s:
            r.setdefault(s[0], []).append(s[1:])
    return r
