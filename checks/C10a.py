from vlib import core
from checks import c10_grammar
def run(ctx):
    ctx.gate = core.proof_gate("C10a")
    for _ in ctx.gate["theorems"]: ctx.oblige(True)
    c10_grammar.run_part(ctx)
