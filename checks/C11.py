"""C11 — a lexer definition is a faithful image of its .l source.

Proof: theories/C11 — character-level mirror of lrlex's LexParser (+ the header slicing of
`from_str`/`new_with_options`), `unescape_spec`, `trim_end_unescaped_spec`, totality of the mirror,
`spans_index_source` for the repaired variant and `spans_index_source_refuted` for today's code;
`unescape_iw_spec` (what is special to the regex engine follows ignore_whitespace: an escaped white-space
character stays escaped, `\\c` or `\\x{..}`) for the variant with the white-space repair, `unescape_iw_refuted` /
`lex_iw_refuted` for the code without it, `iw_off_irrelevant` (flag off: the repair is invisible).
`esc_table_spec` (the kept escapes are exactly the ones the regex engine gives a meaning: hexadecimal — fixed width or braced —,
digits, C escapes, classes, \\A \\z \\B), `declared_names_spec` (the names of a declaration are the maximal runs of non-white-space),
`trim_end_keeps` / `trim_end_split` (only spaces and tabs are trimmed from the end of a regex), with `esc_table_orig_refuted`,
`lex_esc_refuted`, `decl_blanks_refuted`, `trim_orig_refuted`, `lex_trim_refuted` for the code before those three repairs.
Second audit: the list of `esc_table_spec` has the OCTAL digits only (`\\8` `\\9` are escapes of neither side: they stand for 8, 9);
`esc_table_digit_refuted` / `lex_esc_digit_refuted` for the table that listed every digit (`a\\9b` kept, which the engine refuses).
The nest limit is not mirrored (regex compilation is an oracle of the mirror): the check carries it — for limits 0..5 and
written regexes of nesting depth 0..5 (and the default, depths 248..252) a rule is accepted iff the regex crate on its own builds
the written regex under that limit.
Likewise which builder limit `size_limit` / `dfa_size_limit` end on (family limits_in_force): the definition builds iff the regex crate
builds every rule's wrapped regex with size_limit(s) / dfa_size_limit(d) applied as given, same CompiledTooBig payload, same lexemes.
Oracle (independent of the mirror): abstract lexer specs are rendered to text in many layouts; the
implementation must report exactly the abstract rules (order, names, start states, targets, kinds),
spans that select the names in the text the user wrote, regexes equivalent (regex crate, battery of
strings) to what the generator meant, and must lex flag-sensitive probes as the flags in force say.
Tie: implementation vs extracted mirror, transcript equality (rules, spans, error kinds and spans)
on generated, mutated and truncated sources.
"""
import os
import re
from vlib import core
from gen import c11gen as G

# flipped by the coordinator when the corresponding `fix:` commit lands in /repo: the known_key is
# then no longer accepted (a remaining deviation alarms) and the mirror is run with that repair on
SPANS_FIXED = True      # lexer.rs: spans relative to the whole text (K_SPANS)
TARGET_FIXED = True     # parser.rs:476 name_span next to a <target> (K_TARGET)
PREFIX_FIXED = True     # parser.rs:641 unescape also behind a <A,B> prefix (K_PREFIX)
DANGLING_FIXED = True   # parser.rs:616 trailing copy when the scan ends on a lone backslash (K_DANGLING)
# parser.rs unescape: under ignore_whitespace the escape before a white-space character is kept (K_IW);
# notes/C11-iw-escape-fix.diff.  GV_C11_IW_FIXED=1 evaluates the check as it will run once the fix is committed.
IW_ESCAPE_FIXED = True
if os.environ.get("GV_C11_IW_FIXED") in ("0", "1"):
    IW_ESCAPE_FIXED = os.environ["GV_C11_IW_FIXED"] == "1"
# the five repairs after the audit of the unchanged code (/repo 1205854 20c9d3b 326ccca c002878 0905507).  The first three
# select the variant of the mirror the correspondence expects; all five decide whether a deviation of that class is still
# accepted as a known finding (False) or alarms (True).  GV_C11_AUDIT_FIXED=<5 digits> evaluates the check against a tree
# without some of them.
ESC_TABLE_FIXED = True     # parser.rs RE_LEX_ESC_LITERAL keeps \B and braced \x{ \u{ \U{ (K_ESC)
DECL_BLANKS_FIXED = True   # parser.rs declare_start_states: several blanks between names (K_BLANKS)
TRIM_BLANK_FIXED = True    # parser.rs trim_end_unescaped trims space and tab only (K_TRIM)
NUM_FLAGS_FIXED = True     # lexer.rs LexFlags::try_from: numeric flags out of range are refused, not wrapped (K_NUM)
PAREN_FIXED = True         # lexer.rs Rule::new: the written regex must be a regex on its own (K_PAREN)
if re.fullmatch("[01]{5}", os.environ.get("GV_C11_AUDIT_FIXED", "")):
    ESC_TABLE_FIXED, DECL_BLANKS_FIXED, TRIM_BLANK_FIXED, NUM_FLAGS_FIXED, PAREN_FIXED = (
        c == "1" for c in os.environ["GV_C11_AUDIT_FIXED"])

# the second audit (/repo a1aadcd, ff0cd55 + 0ffd98f).  ESC_OCTAL_FIXED selects the variant of the mirror (9th digit of fx=) and
# the known-key classification.  The nest limit took two commits: ff0cd55 raised the limit of the wrapped build by one, but the
# wrapper `\\A(?:..)` is a concatenation AND a group — two levels to regex-syntax's NestLimiter — so the limit in force was still
# one less than the one given (this check found that); 0ffd98f gives the wrapped build limit + 2, and 252 when no limit is given.
# NEST_LIMIT_FIXED (ff0cd55): a gap of TWO with a limit alarms; NEST_WRAPPER_FIXED (0ffd98f): a gap of exactly one with a limit,
# of two without one, alarms (while False: class K_NEST1).  GV_C11_AUDITB_FIXED=<3 digits> evaluates the check against a tree
# without some of them.
ESC_OCTAL_FIXED = True      # parser.rs RE_LEX_ESC_LITERAL lists [0-7] only (K_DIGIT)
NEST_LIMIT_FIXED = True     # lexer.rs Rule::new: the wrapped build gets nest_limit + 1 (K_NEST)
NEST_WRAPPER_FIXED = True   # lexer.rs Rule::new: ... + 2, and 252 when the flag is unset (K_NEST1)
if re.fullmatch("[01]{3}", os.environ.get("GV_C11_AUDITB_FIXED", "")):
    ESC_OCTAL_FIXED, NEST_LIMIT_FIXED, NEST_WRAPPER_FIXED = (c == "1" for c in os.environ["GV_C11_AUDITB_FIXED"])

K_SPANS = "spans of a lex spec with a %grmtools header are relative to the text after the header"
K_PREFIX = "lex escapes are not rewritten in a rule that has a start-state prefix"
K_DANGLING = "unescape drops the end of a regex that ends in a lone backslash"
K_TARGET = "name_span of a rule with a target state is computed as if the name followed the space directly"
K_BLANKS = "two blanks between start-state names in a declaration are rejected"
K_IW = "with ignore_whitespace on, the backslash before a white-space character is dropped and the regex engine then skips the character"
K_ESC = "the lex escapes \\B and braced \\x{..} \\u{..} \\U{..} lose their backslash"
K_TRIM = "a regex ending in a form feed, NEL, LRM or RLM character loses it"
K_NUM = "a numeric lex flag above its type's range wraps around"
K_PAREN = "a lex rule whose regex has an unbalanced parenthesis is accepted and lexes text it does not match"
K_DIGIT = "the escapes \\8 and \\9 (not octal) are handed to the regex engine escaped and the rule is rejected"
K_NEST = "the nest_limit in force is two less than the one given (the wrapper \\A(?:..) counts against it)"
K_NEST1 = "the nest_limit in force is one less than the one given, two less than the default when none is given (the wrapper \\A(?:..) is a concatenation and a group)"
KNOWN_KEYS = [K_SPANS, K_PREFIX, K_DANGLING, K_TARGET, K_BLANKS, K_IW, K_ESC, K_TRIM, K_NUM, K_PAREN, K_DIGIT, K_NEST, K_NEST1]


# classes of the second audit whose repair is switched off through GV_C11_AUDITB_FIXED (evaluation against a tree without the
# commit): deviations of exactly that class are counted, not reported (their known_findings entries are `fixed`)
TOLERATED = set(([] if ESC_OCTAL_FIXED else [K_DIGIT]) + ([] if NEST_LIMIT_FIXED else [K_NEST]) + ([] if NEST_WRAPPER_FIXED else [K_NEST1]))


def hx(s):
    return s.encode("utf-8").hex() or "-"


def unhx(h):
    return "" if h == "-" else bytes.fromhex(h).decode("utf-8")


def hlist(xs):
    return ";".join(hx(x) for x in xs)


# ------------------------------------------------------------------ parsing harness output
def sections(out):
    d = {}
    for s in out.split(" | "):
        s = s.strip()
        if not s:
            continue
        k = s.split(" ", 1)[0]
        d[k] = s
    return d


def parse_ok(sec):
    parts = sec.split(" ; ")
    rules, states = [], []
    for p in parts[1:]:
        t = p.split()
        if t[0] == "r":
            rules.append({"name": None if t[1] == "-" else unhx(t[1][1:]), "span": (int(t[2]), int(t[3])),
                          "re": unhx(t[4][1:]), "pre": [] if t[5] == "-" else [int(x) for x in t[5].split(",")],
                          "target": None if t[6] == "-" else (int(t[6].split(":")[0]), t[6].split(":")[1])})
        elif t[0] == "s":
            states.append({"id": int(t[1]), "name": unhx(t[2][1:]), "excl": t[3] == "1", "span": (int(t[4]), int(t[5]))})
    return rules, states


def parse_errs(sec):
    errs = []
    for p in sec.split(" ; ")[1:]:
        t = p.split()
        n = int(t[2])
        errs.append((t[1], [(int(t[3 + 2 * i]), int(t[4 + 2 * i])) for i in range(n)]))
    return errs


def bsel(src_b, s, e):
    """text selected by byte span (s,e) in src, or None"""
    if not (0 <= s <= e <= len(src_b)):
        return None
    try:
        return src_b[s:e].decode("utf-8")
    except UnicodeDecodeError:
        return None


def battery(rng, exp):
    alpha = list("abcxyz019AZ<>\"',;%!=@_/:` \t\n\x08-+.#") + G.MULTI + ["q", "h", "g", "k", "5", "B"] + G.RX_WS_COMMON[2:]
    b = set([""])
    for _ in range(40):
        b.add("".join(rng.choice(alpha) for _ in range(rng.randint(1, 4))))
    for a in alpha:
        b.add(a)
    for r in exp["rules"]:
        # strings close to what the rule is meant to match: the characters named by its atoms
        s = re.sub(r"\\x\{([0-9A-F]+)\}", lambda m: chr(int(m.group(1), 16)), r["meant"])
        s = re.sub(r"\\[dDwWsSntafrvbpux]", "5", s)
        s = re.sub(r"[\\()\[\]|?*+^]", "", s)
        b.add(s)
        b.add(s[:-1])
        b.add(s + "a")
        # ... and the same without its white space: tells `a b` from `ab` (what ignore_whitespace makes of a bare blank)
        b.add("".join(c for c in s if c not in G.RX_WS_ALL))
    return sorted(b)


# ------------------------------------------------------------------ part A: oracle on the implementation
def fx_string():
    return "".join("1" if b else "0" for b in (SPANS_FIXED, TARGET_FIXED, PREFIX_FIXED, DANGLING_FIXED, IW_ESCAPE_FIXED,
                                                ESC_TABLE_FIXED, DECL_BLANKS_FIXED, TRIM_BLANK_FIXED, ESC_OCTAL_FIXED))


def audit_class(rec, rule=None):
    """known key of a deviation on this case (on this rule) that falls in the class of one of the repairs that is NOT yet in
    the tree (all None once the five flags are True)"""
    rules = rec["exp"]["rules"] if rule is None else [rule]
    if not ESC_TABLE_FIXED and any(G.has_new_escape(r["written"]) for r in rules):
        return K_ESC
    if not ESC_OCTAL_FIXED and any(G.has_nonoctal_escape(r["written"]) for r in rules):
        return K_DIGIT
    if not TRIM_BLANK_FIXED and any(G.ends_in_trail_ws(r["written"]) for r in rules):
        return K_TRIM
    if not DECL_BLANKS_FIXED and rule is None and rec["exp"].get("multi_blank"):
        return K_BLANKS
    return None


def iw_class(rec, rule=None):
    """is a deviation on this case (on this rule) in the class of the ignore_whitespace finding: the flag is in force
    and the rule was written with a backslash before a character the regex engine skips in that mode"""
    if IW_ESCAPE_FIXED or not rec["flags"].get("iw"):
        return False
    rules = rec["exp"]["rules"] if rule is None else [rule]
    return any(r.get("iw_esc", G.has_escaped_ws(r["written"])) for r in rules)


def lex_inputs(exp):
    """inputs whose lexing tells the rules apart: for every rule a string it is meant to match, with and without
    its white space (only for specifications without start states: the reference lexer does not model them)"""
    if len(exp["states"]) > 1 or any(r["pre"] or r["target"] for r in exp["rules"]):
        return None
    out = []
    for r in exp["rules"]:
        s = re.sub(r"\\x\{([0-9A-F]+)\}", lambda m: chr(int(m.group(1), 16)), r["meant"])
        s = re.sub(r"\\[dDwWsSntafrvbpux]", "5", s)
        s = re.sub(r"\[\^?(.)[^\]]*\]", lambda m: m.group(1), s)         # a class: its first member
        s = re.sub(r"\((.)[^)]*\)", lambda m: m.group(1), s)              # a group: its first character
        s = re.sub(r"[\\()\[\]|?*+^]", "", s)
        for t in (s, "".join(c for c in s if c not in G.RX_WS_ALL), s + s):
            if t and "\x00" not in t and t not in out:
                out.append(t)
    out = out[:8]
    # text no rule matches in front of text a rule matches: no lexeme may cover it (ANCH section)
    for t in out[:2]:
        out.append("\x01\x02" + t)
    return out or None


def needs_rewrite(rule):
    return rule["written"] != rule["meant"] or "\\b" in rule["written"]


def case_line(text, flags, route, exp, bat, inputs=None, lim=False):
    line = "src=%s f=%s w=%s wn=%s" % (hx(text), G.flag_str(flags), hlist([r["meant"] for r in exp["rules"]]),
                                      ";".join("1" if r["name"] is not None else "0" for r in exp["rules"]))
    if lim:
        line += " lim=1"
    if bat:
        line += " b=%s" % hlist(bat)
    if inputs:
        line += " in=%s" % hlist(inputs)
    if route == "opt":
        line += " opt=%s" % G.flag_str(flags)
    return line


def oracle_case(rng, route):
    """one generated abstract spec, rendered; `flags` are the flags in force:
    route "str": from_str, flags written in the %grmtools section;
    route "opt": new_with_options(flags) — a %grmtools section, if any, carries OTHER flags that must be ignored"""
    flags = G.gen_flags(rng, allow_iw=True)
    if rng.random() < 0.15:
        flags["iw"] = True
    if route == "str":
        hstyle = None if (not flags and rng.random() < 0.5) else 1
        hflags = flags
    else:
        hstyle = None if rng.random() < 0.5 else 1
        hflags = {} if rng.random() < 0.5 else G.gen_flags(rng, allow_iw=True)
        hflags.pop("awc", None)
    states, rules = G.gen_spec(rng, flags, prefix_escapes=rng.random() < 0.4)
    text, exp = G.render(rng, states, rules, hflags if hstyle else {}, hstyle, comments=flags.get("awc", False) and rng.random() < 0.7)
    bat = battery(rng, exp)
    inputs = lex_inputs(exp) if (flags.get("iw") or rng.random() < 0.1) else None
    return {"text": text, "exp": exp, "flags": flags, "route": route, "has_header": hstyle is not None,
            "line": case_line(text, flags, route, exp, bat, inputs)}


def corpus_cases():
    """hand-written cases: the witnesses of the _refuted theorems and of DESIGN §9, replayed on the implementation"""
    def rule(name, written, meant=None, pre=(), target=None, has_prefix=False):
        return {"name": name, "pre": list(pre), "target": target, "written": written,
                "meant": written if meant is None else meant, "has_prefix": has_prefix}
    I = ("INITIAL", False)
    cs = [
        ("%grmtools{}\n%%\na 'ID'\n", {}, {"rules": [rule("ID", "a")], "states": [I]}),                       # spans_index_source_refuted
        ("%x A\n%%\na <A>'TOK'\n", {}, {"rules": [rule("TOK", "a", target=(1, "R"))], "states": [I, ("A", True)]}),  # target_span_refuted
        ("%%\n[a-z]+ 'ID'\n[ \\t]+ ;\n", {}, {"rules": [rule("ID", "[a-z]+"), rule(None, "[ \\t]+")], "states": [I]}),
        ("%grmtools{posix_escapes}\n%x A\n%%\n<A>\\b 'Q'\n\\b 'R'\n", {"pe": True},
         {"rules": [rule("Q", "\\b", "\\x08", pre=[1], has_prefix=True), rule("R", "\\b", "\\x08")], "states": [I, ("A", True)]}),
        ("%s A\n%%\n<A>\\< 'LT'\n\\< 'LT2'\n", {},
         {"rules": [rule("LT", "\\<", "\\x{3C}", pre=[1], has_prefix=True), rule("LT2", "\\<", "\\x{3C}")], "states": [I, ("A", False)]}),
    ]
    out = []
    for text, flags, exp in cs:
        bat = ["", "a", "<", "\x08", "ab", "a<", "b", " ", "\t", "az"]
        out.append({"text": text, "exp": exp, "flags": flags, "route": "str", "has_header": text.startswith("%grmtools"),
                    "line": case_line(text, flags, "str", exp, bat), "corpus": True})
    return out


def iw_cases():
    """escaped white space (and `\\#`) TOGETHER with ignore_whitespace on / off / unspecified, through both routes
    (%grmtools section, new_with_options with a section that is absent or says the opposite): every character the
    regex engine skips in that mode and that can stand in a rule line x {plain, in a class, trailing, behind a prefix}"""
    I = ("INITIAL", False)

    def rule(name, written, meant, pre=(), has_prefix=False):
        return {"name": name, "pre": list(pre), "target": None, "written": written, "meant": meant,
                "has_prefix": has_prefix, "iw_esc": G.has_escaped_ws(written)}
    shapes = []
    for c in G.RX_WS:
        L = G.lit(c)
        tag = "U+%04X" % ord(c)
        shapes.append(("plain/" + tag, "", [rule("T", "a\\" + c + "b", "a" + L + "b"), rule("U", "ab", "ab")], [I],
                       ["a" + c + "b", "ab", "a" + c + c + "b"]))
        shapes.append(("class/" + tag, "", [rule("T", "[\\" + c + "x]+", "[" + L + "x]+"), rule("U", "y", "y")], [I],
                       [c + "x" + c, "xx", c, "y" + c]))
        shapes.append(("trailing/" + tag, "", [rule("T", "a\\" + c, "a" + L), rule("U", "a", "a")], [I],
                       ["a" + c, "a", "aa" + c]))
        shapes.append(("prefix/" + tag, "%s A\n", [rule("T", "a\\" + c + "b", "a" + L + "b", pre=[1], has_prefix=True), rule("U", "ab", "ab")],
                       [I, ("A", False)], None))
    shapes.append(("hash", "", [rule("T", "a\\#b", "a\\#b"), rule("U", "[\\#x]+", "[\\#x]+"), rule("V", "ab", "ab")], [I],
                   ["a#b", "ab", "#x#", "a#"]))
    out = []
    for tag, decl, rules, states, inputs in shapes:
        body = decl + "%%\n" + "".join("%s%s '%s'\n" % ("<A>" if r["pre"] else "", r["written"], r["name"]) for r in rules)
        exp = {"rules": rules, "states": states}
        bat = sorted(set(["", "a", "ab", "b", "x", "y", "#", "a#b", "xx"] + (inputs or []) +
                         [t for r in rules for t in [re.sub(r"\\x\{([0-9A-F]+)\}", lambda m: chr(int(m.group(1), 16)), r["meant"])]
                          if not set(t) & set("[]+\\")]))
        for val in (True, False, None):
            flags = {} if val is None else {"iw": val}
            for route, hdr in (("str", None if val is None else "%grmtools{" + ("" if val else "!") + "ignore_whitespace}\n"),
                               ("opt", None),
                               ("opt", None if val is None else "%grmtools{" + ("!" if val else "") + "ignore_whitespace}\n")):
                if route == "opt" and hdr is None and val is None:
                    continue
                text = (hdr or "") + body
                out.append({"text": text, "exp": exp, "flags": flags, "route": route, "has_header": bool(hdr),
                            "iwcase": tag, "line": case_line(text, flags, route, exp, bat, inputs)})
                if inputs:
                    out[-1]["probe"] = "iw-escape/" + tag          # all routes of one flag setting must lex alike
    # the witness of C11_lex_iw_refuted / C11_unescape_iw_refuted, as it stands in Spec.v
    text = "%grmtools{ignore_whitespace}\n%%\na\\ b 'T'\n"
    exp = {"rules": [rule("T", "a\\ b", "a\\x{20}b")], "states": [I]}
    out.insert(0, {"text": text, "exp": exp, "flags": {"iw": True}, "route": "str", "has_header": True, "iwcase": "witness",
                   "line": case_line(text, {"iw": True}, "str", exp, ["a b", "ab", "a", ""], ["a b", "ab"])})
    return out


def audit_cases():
    """the inputs of the audit of the unchanged code (C11 audit 1, 2, 3, 7) and their neighbourhood, on every run:
    \\B and braced hexadecimal escapes in and outside classes; start-state declarations whose names are separated by several
    blanks / tabs / other in-line white space; regexes ending in FF, NEL, LRM, RLM (bare and escaped) — each plain, behind a
    <A> prefix, with posix_escapes / ignore_whitespace, through from_str and new_with_options"""
    I = ("INITIAL", False)

    def rule(name, written, meant=None, pre=(), has_prefix=False):
        return {"name": name, "pre": list(pre), "target": None, "written": written, "meant": written if meant is None else meant,
                "has_prefix": has_prefix, "iw_esc": G.has_escaped_ws(written)}
    shapes = []          # (tag, declarations, rules, states, inputs, multi_blank)
    esc = [("a\\Bb", ["ab", "aBb", "a b"]), ("\\Ba", ["a", "Ba", "ba"]), ("\\x{41}", ["A", "x" * 41, "x{41}"]), ("\\x{2}", ["\x02", "xx"]),
           ("\\u{e9}", ["é", "u"]), ("\\U{1F600}", ["😀", "U"]), ("[\\x{41}-\\x{43}]+", ["ABC", "x", "AxB"]), ("[^\\u{e9}]", ["a", "é"]),
           ("[\\U{1F600}a]+", ["a😀", "U"]), ("\\x{41}\\Bb\\u{e9}", ["Abé"]), ("q\\x{7a}+", ["qzz", "qx"])]
    for w, inputs in esc:
        shapes.append(("escape/" + w, "", [rule("T", w), rule("U", "[a-zA-Z]", "[a-zA-Z]")], [I], inputs, False))
        shapes.append(("escape-prefix/" + w, "%s A\n", [rule("T", w, pre=[1], has_prefix=True), rule("U", "y")], [I, ("A", False)], None, False))
    for c in G.TRAIL_WS:
        tag = "U+%04X" % ord(c)
        L = G.lit(c)
        shapes.append(("trailing/" + tag, "", [rule("T", "a" + c), rule("U", "a")], [I], ["a" + c, "a", "aa" + c], False))
        shapes.append(("trailing-escaped/" + tag, "", [rule("T", "a\\" + c, "a" + L), rule("U", "a")], [I], ["a" + c, "a"], False))
        shapes.append(("trailing-class/" + tag, "", [rule("T", "[x" + c + "]+" + c), rule("U", "x")], [I], ["x" + c + c, "x"], False))
        shapes.append(("trailing-inner-blank/" + tag, "", [rule("T", "a" + c + " " + c), rule("U", "a")], [I], ["a" + c + " " + c, "a" + c], False))
        shapes.append(("trailing-prefix/" + tag, "%x A\n", [rule("T", "b" + c, pre=[1], has_prefix=True), rule("U", "b")], [I, ("A", True)], None, False))
    decls = [("%s A  B\n", [("A", False), ("B", False)]), ("%x C \t D\n", [("C", True), ("D", True)]),
             ("%s A\t\tB   Cc\n", [("A", False), ("B", False), ("Cc", False)]), ("%X    k9\t \tX.y  \n", [("k9", True), ("X.y", True)]),
             ("%s A\x0c\x0cB\n%x  C\x85 D\u200e\u200fE\n", [("A", False), ("B", False), ("C", True), ("D", True), ("E", True)]),
             ("%start  s_1   Str\t\n", [("s_1", False), ("Str", False)])]
    for d, sts in decls:
        ids = list(range(1, len(sts) + 1))
        shapes.append(("decl/" + d.strip(), d, [rule("T", "a", pre=ids, has_prefix=True), rule("U", "b")], [I] + sts, None, True))
    out = []
    for tag, decl, rules, states, inputs, mb in shapes:
        names = [n for n, _ in states]
        body = decl + "%%\n" + "".join("%s%s %s'%s'\n" % (("<" + ",".join(names[i] for i in r["pre"]) + ">") if r["pre"] else "", r["written"],
                                                         "\t" if k else "", r["name"]) for k, r in enumerate(rules))
        exp = {"rules": rules, "states": states, "multi_blank": mb}
        bat = sorted(set(["", "a", "ab", "b", "x", "y", "A", "B", "aBb", "é", "u", "\x0c", "\x85", "xx"] + (inputs or [])))
        variants = [({}, "str", None), ({"pe": True}, "str", "%grmtools{posix_escapes}\n"), ({"iw": True}, "opt", None),
                    ({"iw": False}, "str", "%grmtools{!ignore_whitespace}\n")]
        for flags, route, hdr in variants:
            text = (hdr or "") + body
            out.append({"text": text, "exp": exp, "flags": flags, "route": route, "has_header": bool(hdr), "audit": tag,
                        "line": case_line(text, flags, route, exp, bat, inputs)})
    return out


def auditb_cases():
    """the inputs of the second audit (C11b audit 4) and their neighbourhood, on every run: `\\8` `\\9` outside and inside
    classes, next to octal escapes (`\\18` = `\\1` then 8, `\\78`, `\\1019`), behind a <A> prefix, with posix_escapes on / off,
    ignore_whitespace, through from_str and new_with_options"""
    I = ("INITIAL", False)

    def rule(name, written, meant=None, pre=(), has_prefix=False):
        return {"name": name, "pre": list(pre), "target": None, "written": written, "meant": written if meant is None else meant,
                "has_prefix": has_prefix, "iw_esc": G.has_escaped_ws(written)}
    L8, L9 = G.lit("8"), G.lit("9")
    esc = [("\\8", L8, ["8", "\\8", "9"]), ("a\\9b", "a" + L9 + "b", ["a9b", "ab", "a\\9b"]), ("[\\8\\9]+", "[89]+", ["98", "8", "7"]),
           ("\\9+", L9 + "+", ["999", "9"]), ("[^\\8]", "[^8]", ["8", "7"]), ("[0-\\9]+", "[0-9]+", ["0189", "a"]),
           ("\\18", "\\1" + L8, ["\x018", "18", "\x01"]), ("\\78", "\\7" + L8, ["\x078", "78"]), ("\\1019", "\\101" + L9, ["A9", "1019"]),
           ("\\8\\7", L8 + "\\7", ["8\x07", "87"]), ("\\09", "\\0" + L9, ["\x009", "09"]), ("(\\8|\\9)\\x{38}", "(8|9)8", ["98", "88", "8"]),
           ("q\\8\\é\\9", "q" + L8 + "é" + L9, ["q8é9"]), ("\\x38\\9", "\\x38" + L9, ["89"])]
    out = []
    for w, m, inputs in esc:
        shapes = [("digit/" + w, "", [rule("T", w, m), rule("U", "[a-zA-Z]")], [I], [x for x in inputs if "\x00" not in x]),
                  ("digit-prefix/" + w, "%s A\n", [rule("T", w, m, pre=[1], has_prefix=True), rule("U", "y")], [I, ("A", False)], None)]
        for tag, decl, rules, states, inp in shapes:
            body = decl + "%%\n" + "".join("%s%s %s'%s'\n" % ("<A>" if r["pre"] else "", r["written"], "\t" if k else "", r["name"])
                                           for k, r in enumerate(rules))
            exp = {"rules": rules, "states": states}
            bat = sorted(set(["", "8", "9", "89", "a9b", "ab", "7", "\x01", "\x018", "\x07", "\\", "\\8", "A", "A9"] + (inp or [])))
            variants = [({}, "str", None), ({"pe": True}, "str", "%grmtools{posix_escapes}\n"), ({"pe": False}, "opt", None),
                        ({"pe": True}, "opt", "%grmtools{!posix_escapes}\n"), ({"iw": True}, "opt", None), ({"oct": True}, "str", "%grmtools{octal}\n")]
            for flags, route, hdr in variants:
                text = (hdr or "") + body
                out.append({"text": text, "exp": exp, "flags": flags, "route": route, "has_header": bool(hdr), "audit": tag,
                            "line": case_line(text, flags, route, exp, bat, inp)})
    return out


# written regexes of known nesting depth to regex-syntax's NestLimiter (groups, classes, repetitions, alternations and
# concatenations each count one level); the family `(`^d a `)`^d has depth exactly d
def nest_regexes():
    out = [("(" * d + "a" + ")" * d, None, d) for d in range(0, 6)]
    out += [("(?:" * d + "a" + ")" * d, None, d) for d in range(1, 6)]
    out += [("(\\8)", "(8)", 1), ("((\\9)\\é)", "((9)é)", None)]           # (written, meant): the limit is about the regex after unescape
    out += [(w, None, None) for w in ["ab", "a|b", "a*", "[a]", "[ab]", "[[a]b]", "(ab)", "(a|b)", "(a)*", "((a)|b)", "(a(b(c)))", "((a)(b))+",
                                "[a[b[c]]]", "(a|(b|(c|d)))", "a*?", "((((a))))b", "((\\x{41}))"]]
    return out


def obs_cases():
    """behaviour recorded as OBSERVATIONS (second audit, c11b/1, c09b/1, c11b/3), never a verdict: alternation inside ONE rule is the
    regex crate's leftmost-first choice, not POSIX leftmost-longest (the property's longest match is across rules; a rule's own
    match is what the regex crate reports); `from_str` does not report unknown %grmtools keys (the builders do)"""
    return [{"obs": "alternation inside a rule is leftmost-first (`if|iffy` on `iffy` matches `if`; the longest-match rule is across rules)",
             "line": "src=%s in=%s" % (hx("%%\nif|iffy 'KW'\n[a-z]+ 'ID'\n"), hx("iffy")), "seen": lambda o: "x69666679=1:0:4" in o},
            {"obs": "alternation inside a rule is leftmost-first (`a|ab` on `ab` gives KW(a) B(b))",
             "line": "src=%s in=%s" % (hx("%%\na|ab 'KW'\nb 'B'\n"), hx("ab")), "seen": lambda o: "x6162=0:0:1,1:1:1" in o},
            {"obs": "from_str accepts an unknown %grmtools key (`case_insensitiv`) and the default stays in force; CTLexerBuilder reports it",
             "line": "src=%s in=%s" % (hx("%grmtools{case_insensitiv}\n%%\na 'x'\n"), hx("A")), "seen": lambda o: " | OK 1 1" in o and "x41=E0" in o},
            {"obs": "the book's flag table spells `allow_wholeline_comment`; the code reads `allow_wholeline_comments` (the book's spelling is an unknown key to from_str)",
             "line": "src=%s" % hx("%grmtools{allow_wholeline_comment}\n%%\n// c\na 'x'\n"), "seen": lambda o: " | ERRS" in o}]


def nest_cases():
    """small nest limits x nesting depths (C11b audit 2): the limit given — in the %grmtools section, through new_with_options (with
    no section or one that says otherwise), or none at all (the regex crate's default, 250) — is the one in force for the regex
    the user wrote: the rule is accepted iff the regex crate, on its own, builds the written regex under that limit"""
    out = []
    for w, meant, depth in nest_regexes():
        for lim in (0, 1, 2, 3, 4, 5):
            for route, hdr in (("str", "%%grmtools{nest_limit: %d}\n" % lim), ("opt", ""), ("opt", "%%grmtools{nest_limit: %d}\n" % (5 - lim))):
                if depth is None and hdr and route == "opt":
                    continue
                text = hdr + "%%\n" + w + " 'T'\n"
                line = "src=%s w=%s nl=%d in=%s" % (hx(text), hx(meant or w), lim, hlist(["a", "ab"])) + (" opt=nest:%d" % lim if route == "opt" else "")
                out.append({"text": text, "written": w, "depth": depth, "limit": lim, "route": route, "line": line,
                            "offset": len((hdr + "%%\n").encode("utf-8"))})
    for d in (5, 100, 248, 249, 250, 251, 252, 300):         # no flag: the default of the regex crate
        w = "(" * d + "a" + ")" * d
        for route in ("str", "opt"):
            text = "%%\n" + w + " 'T'\n"
            out.append({"text": text, "written": w, "depth": d, "limit": None, "route": route, "offset": 3,
                        "line": "src=%s w=%s nl=d in=%s" % (hx(text), hx(w), hx("a")) + (" opt=-" if route == "opt" else "")})
    return out


def judge_nest(rec, out):
    sec = sections(out)
    devs = []
    nl = sec.get("NL", "NL").split()[1:]
    lim, depth = rec["limit"], rec["depth"]
    info = {"written_regex": rec["written"] if len(rec["written"]) < 60 else rec["written"][:20] + "…", "depth": depth,
            "nest_limit_given": "none (default 250)" if lim is None else lim, "route": rec["route"]}
    if len(nl) != 1 or len(nl[0].split(":")) != 4:
        return [("the nest-limit case was not understood", None, dict(info, harness=out[:300]))]
    alone, less, less2 = (x == "1" for x in nl[0].split(":")[1:])
    if depth is not None and alone != (depth <= (250 if lim is None else lim)):
        devs.append(("the regex crate's own verdict on a regex of known depth is not `depth <= limit` (the reference is off)", None, dict(info, alone=alone)))
    if "OK" in sec:
        if not alone:
            devs.append(("a rule whose regex exceeds the nest limit given is accepted", None, dict(info, impl=sec["OK"][:200])))
        return devs
    errs = parse_errs(sec["ERRS"]) if "ERRS" in sec else None
    if not errs or [e[0] for e in errs] != ["RegexError"] or errs[0][1] != [(rec["offset"], rec["offset"])]:
        devs.append(("a rule rejected for its nesting is not reported as one RegexError at its line", None,
                     dict(info, impl=(sec.get("ERRS") or sec.get("PANIC") or out)[:300])))
        return devs
    if alone:
        # rejected although the regex crate builds the written regex under the limit given: the limit in force is smaller.
        # `less` / `less2` (it also builds under limit - 1 / limit - 2) measure the gap.  The wrapper costs two levels; the code
        # gives the wrapped build limit + 1 (since ff0cd55; limit before) and the default itself when no limit is given:
        # gap 1 with a limit (2 before ff0cd55), gap 2 without
        if less2:
            key = None
            cls = "the nest limit in force is at least three less than the one given: a regex the regex crate builds even under limit - 2 is rejected"
        elif less:
            key = (None if NEST_WRAPPER_FIXED else K_NEST1) if lim is None else (None if NEST_LIMIT_FIXED else K_NEST)
            cls = "the nest limit in force is two less than the one given: a regex the regex crate builds even under limit - 1 is rejected"
        else:
            key = None if (NEST_WRAPPER_FIXED and NEST_LIMIT_FIXED) else K_NEST1 if NEST_LIMIT_FIXED else K_NEST
            cls = "the nest limit in force is one less than the one given: a regex the regex crate builds under that limit is rejected"
        if not ESC_OCTAL_FIXED and G.has_nonoctal_escape(rec["written"]):
            key = K_DIGIT          # rejected for its `\\8` / `\\9`, not for its nesting
        devs.append((cls, key, dict(info, impl=sec["ERRS"][:200])))
    return devs


NUM_KEYS = [("nest_limit", "nest", 2 ** 32 - 1), ("size_limit", "size", None), ("dfa_size_limit", "dfa", None)]
NUM_VALUES = [2 ** 32 - 1, 2 ** 32, 2 ** 32 + 1, 2 ** 32 + 2, 2 ** 33, 2 ** 64 - 1]


def num_cases():
    """numeric flags of the %grmtools section at the edges of their types (C11 audit 4): the value in force is the value
    written, or the section is refused with an error located at the setting; never another value"""
    out = []
    for key, short, _ in NUM_KEYS:
        for v in NUM_VALUES:
            for spelling in (key, key.upper()):
                text = "%%grmtools{%s: %d}\n%%%%\n((a)|b) 'T'\n" % (spelling, v)
                out.append({"text": text, "key": key, "short": short, "value": v, "line": "src=%s lim=1 in=%s" % (hx(text), hlist(["ab", "xyb"]))})
    return out


def judge_num(rec, out):
    """deviations of a numeric-flag case: list of (class, known_key, detail)"""
    sec = sections(out)
    text, v, key = rec["text"], rec["value"], rec["key"]
    src_b = text.encode("utf-8")
    devs = []
    known = None if NUM_FLAGS_FIXED else K_NUM
    lim = sec.get("LIM", "LIM ?").split()
    located = lambda s, e: (bsel(src_b, s, e) or "").lower() in (key, str(v), "%s: %d" % (key, v))
    if lim[1:2] == ["E"]:
        spans = [(int(lim[i]), int(lim[i + 1])) for i in range(3, len(lim) - 1, 2)]
        if v < 2 ** 32:
            devs.append(("a numeric flag that fits every integer type is refused", None, {"flag": key, "value": v, "harness": sec.get("LIM")}))
        elif not spans or not all(located(s, e) for s, e in spans):
            devs.append(("the conversion error of a numeric flag out of range is not located at the setting", None,
                         {"flag": key, "value": v, "spans": spans, "selected": [bsel(src_b, s, e) for s, e in spans]}))
        # ... and from_str reports it: one Header error whose span indexes the setting
        errs = parse_errs(sec["ERRS"]) if "ERRS" in sec else None
        if not errs or [e[0] for e in errs] != ["Header"] or not all(located(s, e) for s, e in errs[0][1]) or not errs[0][1]:
            devs.append(("from_str does not report the refused numeric flag as one located Header error", None,
                         {"flag": key, "value": v, "impl": (sec.get("ERRS") or sec.get("OK") or out)[:300]}))
        return devs
    if lim[1:2] and ":" in lim[1]:
        inforce = dict(x.split(":") for x in lim[1:])
        got = inforce.get(rec["short"])
        if got != str(v):
            devs.append(("the numeric flag in force is not the one written in the %grmtools section", known if v >= 2 ** 32 else None,
                         {"flag": key, "written": v, "in_force": got}))
        others = {k: x for k, x in inforce.items() if k != rec["short"] and x != "-"}
        if others:
            devs.append(("a numeric flag that was not written is in force", None, {"flag": key, "others": others}))
        # a limit this large cannot be what rejects `((a)|b)`: the definition must build and lex
        if "OK" not in sec:
            devs.append(("valid specification rejected: the numeric flag in force is not the large one written", known if v >= 2 ** 32 else None,
                         {"flag": key, "written": v, "impl": (sec.get("ERRS") or sec.get("PANIC") or out)[:300]}))
        elif sec.get("LX", "").split()[1:] != ["x6162=0:0:1,0:1:1", "x787962=E0"]:
            devs.append(("lexing with a large numeric limit differs from lexing without", None, {"flag": key, "impl": sec.get("LX")}))
        return devs
    devs.append(("the %grmtools section with a numeric flag was not understood", None, {"flag": key, "value": v, "harness": out[:300]}))
    return devs


# regexes that are not regexes on their own (unbalanced parentheses): spliced into `\A(?:..)` some of them give a well-formed
# text with an UNANCHORED alternative (C11 audit 6 (1))
PAREN_REGEXES = ["a)|(b", ")", "(a))|((b", "a)", "(a", "a)(b", ")|(", "x)|(y)|(z", "[a-c])|([x-z]", "a))|((b", "\\x{41})|(b", "a)|(b\x0c"]


def paren_cases():
    out = []
    for w in PAREN_REGEXES:
        for decl, pre in (("", ""), ("%s A\n", "<A>")):
            for hdr, opt in (("", None), ("%grmtools{ignore_whitespace}\n", None), ("", "iw:0,pe:1")):
                text = hdr + decl + "%%\n" + pre + w + " 'T'\nq 'Q'\n"
                inputs = ["xyb", "b", "ab", "a", "xy", "qb", "q"]
                line = "src=%s in=%s" % (hx(text), hlist(inputs)) + ("" if opt is None else " opt=%s f=%s" % (opt, opt)) + \
                       ("" if not hdr else " f=iw:1")
                out.append({"text": text, "written": w, "line": line, "offset": len((hdr + decl + "%%\n").encode("utf-8"))})
    return out


def judge_paren(rec, out):
    sec = sections(out)
    devs = []
    known = None if PAREN_FIXED else K_PAREN
    if "ERRS" in sec:
        errs = parse_errs(sec["ERRS"])
        if [e[0] for e in errs] != ["RegexError"] or errs[0][1] != [(rec["offset"], rec["offset"])]:
            devs.append(("a rule whose regex has an unbalanced parenthesis is not reported as one RegexError at its line", None,
                         {"written_regex": rec["written"], "impl": sec["ERRS"][:300], "expected_offset": rec["offset"]}))
        return devs
    devs.append(("a rule whose regex is not a regular expression (unbalanced parenthesis) is accepted", known,
                 {"written_regex": rec["written"], "impl": (sec.get("OK") or out)[:300]}))
    if sec.get("ANCH", "ANCH ok") != "ANCH ok":
        devs.append(("a lexeme covers text that no rule matches at the lexeme's start", known,
                     {"written_regex": rec["written"], "lexemes (input:tok:start:len)": sec["ANCH"], "lexing": sec.get("LX")}))
    return devs


def judge_oracle(rec, out):
    """compare the implementation's observations with the abstract spec.
    returns the list of deviations (class, known_key, detail); empty = conforms"""
    text, exp = rec["text"], rec["exp"]
    src_b = text.encode("utf-8")
    sec = sections(out)
    devs = []
    prefix_rw = (not PREFIX_FIXED) and any(r["has_prefix"] and needs_rewrite(r) for r in exp["rules"])
    hdr = sec.get("HDR", "HDR E").split()
    pos = int(hdr[1]) if len(hdr) > 1 and hdr[1].isdigit() else 0
    if "OK" not in sec:
        what = sec.get("ERRS") or sec.get("PANIC") or out[:200]
        key = None
        if "ERRS" in sec:
            errs = parse_errs(sec["ERRS"])
            if len(errs) == 1 and errs[0][0] == "RegexError" and any(x.endswith(":0") for x in sec.get("WC", "").split()[1:]):
                # the regex crate rejects what the generator meant under the flags in force (e.g. \101 with octal off):
                # rejecting is the faithful answer
                rec["rejected_as_meant"] = True
                return devs
            if prefix_rw and len(errs) == 1 and errs[0][0] == "RegexError":
                key = K_PREFIX
            elif iw_class(rec) and len(errs) == 1 and errs[0][0] == "RegexError":
                key = K_IW          # e.g. `[\ ]` rewritten to `[ ]`: an empty, hence unclosed, class in that mode
            elif len(errs) == 1 and errs[0][0] == "RegexError" and audit_class(rec) in (K_ESC, K_TRIM, K_DIGIT):
                key = audit_class(rec)   # e.g. `\u{e9}` rewritten to `u{e9}`: not a repetition
            elif len(errs) == 1 and errs[0][0] == "InvalidStartStateName" and audit_class(rec) == K_BLANKS:
                key = K_BLANKS
        devs.append(("valid specification rejected", key, what))
        return devs
    # flags written in the %grmtools section are the ones in force (route from_str: LexFlags::try_from of the parsed header)
    if rec.get("route") == "str" and rec.get("has_header") and len(hdr) > 2 and hdr[2] != "E" and "iwcase" not in rec:
        inforce = dict(x.split(":") for x in hdr[2].split(",")) if hdr[2] != "-" else {}
        want_f = {k: ("1" if v else "0") for k, v in rec["flags"].items()}
        if inforce != want_f:
            devs.append(("flags in force differ from the flags written in the %grmtools section", None,
                         {"in_force": inforce, "written": want_f}))
    rules, states = parse_ok(sec["OK"])
    got = [(r["name"], r["pre"], r["target"]) for r in rules]
    want = [(r["name"], r["pre"], r["target"]) for r in exp["rules"]]
    if got != want:
        devs.append(("rules (order, name, start states, target) differ", None, {"got": got, "want": want}))
    gs = [(s["id"], s["name"], s["excl"]) for s in states]
    ws = [(i, n, e) for i, (n, e) in enumerate(exp["states"])]
    if gs != ws:
        devs.append(("declared start states (id, name, kind) differ", None, {"got": gs, "want": ws}))
    # spans index the text the user wrote
    span_items = [("rule %d" % k, r["span"], r["name"] or "", r["target"] is not None) for k, r in enumerate(rules)]
    span_items += [("state %d" % s["id"], s["span"], s["name"], False) for s in states]
    by_class = {}
    for what, (s, e), name, has_target in span_items:
        if what == "state 0":
            if (s, e) != (0, 0):      # INITIAL is not written by the user: the empty span (0,0)
                by_class.setdefault(None, []).append((what, (s, e), None, name))
            continue
        got_t = bsel(src_b, s, e)
        if got_t == name:
            continue
        if pos > 0 and not SPANS_FIXED and bsel(src_b, s + pos, e + pos) == name:
            key = K_SPANS
        elif has_target and not TARGET_FIXED and name != "" and (e - s) == len(name.encode("utf-8")):
            key = K_TARGET      # right length, wrong place: computed as if the name followed the space directly
        else:
            key = None
        by_class.setdefault(key, []).append((what, (s, e), got_t, name))
    for key, items in by_class.items():
        devs.append(("a span does not select the name it denotes in the source text", key,
                     {"header_end": pos, "wrong (what, span, selected, expected)": items[:4]}))
    # regex equivalence (regex crate, same flags, battery)
    for item in sec.get("RX", "RX").split()[1:]:
        f = item.split(":")
        k = int(f[0])
        er = exp["rules"][k] if k < len(exp["rules"]) else None
        key = K_PREFIX if (er and er["has_prefix"] and needs_rewrite(er) and not PREFIX_FIXED) else None
        if key is None and er and iw_class(rec, er):
            key = K_IW
        if key is None and er:
            key = audit_class(rec, er)
        if f[1] == "WRITTENERR":
            rec["generator_invalid"] = True       # the generator produced a regex the regex crate rejects: no verdict
        elif f[1] == "IMPLERR":
            devs.append(("re_str does not compile although the written regex does", key, {"rule": k}))
        elif int(f[2]) > 0:
            devs.append(("re_str is not equivalent to the written regex", key,
                         {"rule": k, "written": er and er["written"], "meant": er and er["meant"],
                          "re_str": rules[k]["re"] if k < len(rules) else None,
                          "battery_string": unhx(f[3][1:]) if len(f) > 3 else None,
                          "impl_match_end": f[4] if len(f) > 4 else None, "written_match_end": f[5] if len(f) > 5 else None}))
    # flags in force: lexing vs the reference lexer
    if "LX" in sec and "RL" in sec and sec["LX"][3:] != sec["RL"][3:]:
        key = K_PREFIX if prefix_rw else (K_IW if iw_class(rec) else audit_class(rec))
        devs.append(("lexing differs from the reference lexer under the flags in force", key, {"impl": sec["LX"], "reference": sec["RL"]}))
    # every emitted lexeme is text its rule's regex matches AT the lexeme's start (the regex compiled on its own)
    if sec.get("ANCH", "ANCH ok") != "ANCH ok" and not rec.get("generator_invalid"):
        devs.append(("a lexeme covers text that its rule's regex does not match at the lexeme's start", None,
                     {"lexemes (input:tok:start:len)": sec["ANCH"], "lexing": sec.get("LX")}))
    return devs


def report(ctx, rec, devs, out, what):
    for cls, key, detail in devs:
        if key in TOLERATED:
            ctx.count("tolerated (repair switched off): " + key)
            continue
        ctx.count("deviation: " + (key or cls))
        ctx.violation({"what": what, "class": cls, "detail": detail, "source_text": rec.get("text"),
                       "flags": rec.get("flags"), "route": rec.get("route"), "impl_output": out[:1500],
                       "replay_cmd": "echo '%s' | .work/target/release/c11" % rec["line"][:6000]}, known_key=key)


# ------------------------------------------------------------------ limits on the compiled regex: size_limit / dfa_size_limit in force
# regexes of graded compiled size: (template, a text the regex with count k matches, drawn with rng)
LF_FAMS = [("[a-z]{%d}", lambda rng, k: "".join(rng.choice("abcxyz") for _ in range(k))),
           ("\\pL{%d}", lambda rng, k: "".join(rng.choice(["a", "é", "ж", "Z", "ß"]) for _ in range(k))),
           ("(?:ab|cd){%d}", lambda rng, k: "".join(rng.choice(["ab", "cd"]) for _ in range(k)))]
LF_KS = [1, 2, 3, 5, 8, 12, 20, 30, 50, 80, 120, 200, 300, 500]
LF_CLASSES = ["neither", "size_limit only", "dfa_size_limit only", "both, size_limit < dfa_size_limit", "both, size_limit > dfa_size_limit"]


def lf_config(s, d):
    if s is None:
        return LF_CLASSES[0] if d is None else LF_CLASSES[2]
    return LF_CLASSES[1] if d is None else (LF_CLASSES[3] if s < d else LF_CLASSES[4])


def lf_case(rng, fam, k, s, d, route, big=False):
    """one case: rule `<graded regex> 'T'` + skip rule `_`, the limits s / d (None = not given) given on `route`:
    str = %grmtools section + from_str; opt = new_with_options, no section; opt_x = new_with_options with a section that
    gives the two values the other way round (it must be ignored)"""
    tmpl, gen = LF_FAMS[fam]
    if fam == 1 and not big:
        k = min(k, 50)                  # \pL{k}: ~25 kB per repetition
    w = tmpl % k
    items = lambda fmt_s, a, fmt_d, b: ([fmt_s % a] if a is not None else []) + ([fmt_d % b] if b is not None else [])
    sec = lambda a, b: "%%grmtools{%s}\n" % ", ".join(items("size_limit: %d", a, "dfa_size_limit: %d", b)) if (a is not None or b is not None) else ""
    if s is None and d is None and route == "opt_x":
        route = "opt"
    hdr = sec(s, d) if route == "str" else (sec(d, s) if route == "opt_x" else "")
    text = hdr + "%%\n" + w + " 'T'\n_ ;\n"
    off0 = len((hdr + "%%\n").encode("utf-8"))
    offs = [off0, off0 + len((w + " 'T'\n").encode("utf-8"))]
    m = gen(rng, k)
    inputs = [m + "_" + gen(rng, k), m[:-1] + "_"]
    sh = lambda x: "-" if x is None else str(x)
    line = "lf=%s:%s src=%s w=%s wn=1;0 in=%s" % (sh(s), sh(d), hx(text), hlist([w, "_"]), hlist(inputs))
    if route != "str":
        line += " opt=%s" % (",".join(items("size:%d", s, "dfa:%d", d)) or "-")
    return {"text": text, "written": w, "size_limit": s, "dfa_size_limit": d, "route": route, "offsets": offs, "line": line,
            "config": lf_config(s, d)}


def limits_cases(rng, n):
    """a deterministic grid (every class of the coverage table is met whatever the seed) + n random cases"""
    out = []
    routes = ["str", "opt", "opt_x"]
    nxt = lambda: routes[len(out) % 3]
    for fam in range(3):
        for k in (3, 40):
            out.append(lf_case(rng, fam, k, None, None, nxt()))
        for s_ in (1000, 100000):
            for k in (1, 2, 5, 20, 100):
                out.append(lf_case(rng, fam, k, s_, None, nxt()))
        for d_ in (10, 64, 1000):
            for k in (1, 20, 100):
                out.append(lf_case(rng, fam, k, None, d_, nxt()))
        for s_, d_ in ((1000, 100000), (100000, 50), (1000, 50), (100000, 10 ** 6), (3000, 2999), (2999, 3000)):
            for k in (2, 50):
                out.append(lf_case(rng, fam, k, s_, d_, nxt()))
    # larger than the regex crate's default size_limit (10 MiB): refused with or without a dfa_size_limit
    out.append(lf_case(rng, 1, 300, None, None, "str", big=True))
    out.append(lf_case(rng, 1, 300, None, 100, "str", big=True))
    out.append(lf_case(rng, 1, 300, None, 777, "opt", big=True))
    for _ in range(n):
        fam = rng.randrange(3)
        k = rng.choice(LF_KS)
        c = rng.random()
        logu = lambda a, b: int(10 ** rng.uniform(a, b))
        if c < 0.08:
            s_, d_ = None, None
        elif c < 0.36:
            s_, d_ = logu(2, 6.5), None
        elif c < 0.66:
            s_, d_ = None, rng.randint(10, 1000)
        elif c < 0.83:
            s_, d_ = logu(2, 4.5), logu(5, 7)                 # size_limit < dfa_size_limit
        else:
            s_, d_ = logu(3.1, 6.5), rng.randint(10, 1000)   # size_limit > dfa_size_limit
        out.append(lf_case(rng, fam, k, s_, d_, rng.choice(routes)))
    return out


def judge_limits(rec, out):
    """(deviations, reference verdict 'built' | 'too-big' | None, compiled size above dfa_size_limit?)"""
    sec = sections(out)
    s_, d_ = rec["size_limit"], rec["dfa_size_limit"]
    info = {"written_regex": rec["written"], "size_limit_given": s_, "dfa_size_limit_given": d_, "route": rec["route"]}
    lfi, lfr = sec.get("LFI", "").split()[1:], [x.split(":") for x in sec.get("LFR", "").split()[1:]]
    if not lfi or len(lfr) != 2 or any(x[1] not in ("built", "toobig") for x in lfr):
        return [("the limits case was not understood (or the reference failed for another reason than size)", None, dict(info, harness=out[:300]))], None, False
    failing = [(rec["offsets"][int(x[0])], x[2]) for x in lfr if x[1] == "toobig"]
    ref = "too-big" if failing else "built"
    above_d = d_ is not None and lfr[0][-1] == "0"
    devs = []
    if s_ is not None and any(n != str(s_) for _, n in failing):
        devs.append(("the reference is off: CompiledTooBig does not carry the size_limit given", None, dict(info, reference=sec["LFR"])))
    only_dfa_small = d_ is not None and (s_ is None or s_ > d_)
    if lfi[0] == "PANIC":
        devs.append(("building the definition panics", None, dict(info, impl=out[:300])))
    elif lfi[0] == "built":
        if failing:
            devs.append(("a specification is accepted although the size_limit in force (given, or the default) rejects a rule's regex: "
                         "the size_limit given is not the one in force", None, dict(info, reference=sec["LFR"])))
        else:
            lx = sec.get("LFX", "").split()[1:]
            bad = [x for x in lx if x.split("=", 1)[1].split("/")[0] != x.split("=", 1)[1].split("/")[1]]
            if len(lx) != 2 or bad:
                devs.append(("lexing under the limits given differs from the reference lexer built with the same limits", None,
                             dict(info, lexing=(bad or lx)[:2])))
    else:
        got = [tuple(x.split(":")) for x in lfi[1:]]
        exp = [("RegexError", str(o), n) for o, n in failing]
        if not failing:
            toobig = [g for g in got if g[0] == "RegexError" and g[2] != "-"]
            if toobig and only_dfa_small and above_d and all(g[2] == str(d_) for g in toobig):
                cls = ("valid specification refused with CompiledTooBig(dfa_size_limit): the dfa_size_limit given (a bound on the lazy DFA's cache) "
                       "is in force as size_limit")
            elif toobig:
                cls = "valid specification refused with CompiledTooBig although the regex crate builds every rule under the limits given"
            else:
                cls = "valid specification refused although the regex crate builds every rule under the limits given"
            devs.append((cls, None, dict(info, impl=sec["LFI"][:300], reference=sec["LFR"])))
        elif got != exp and got != exp[:1]:
            devs.append(("a rule refused for its compiled size is not reported as RegexError(CompiledTooBig(n)) at its line with the n of the "
                         "limit in force", None, dict(info, impl=sec["LFI"][:300], expected=exp)))
    return devs, ref, above_d


# ------------------------------------------------------------------ flag probes
def flag_probe_cases():
    cases = []
    for flag, rules, inputs in G.FLAG_PROBES:
        for val in (True, False, None):
            flags = {} if val is None else {flag: val}
            for route in ("str", "opt"):
                hdr = ""
                if route == "str" and flags:
                    hdr = "%grmtools{" + ("" if val else "!") + G.FLAG_NAMES[flag] + "}\n"
                if route == "opt" and val is not None:
                    # a section saying the opposite: new_with_options must ignore it
                    hdr = "%grmtools{" + ("!" if val else "") + G.FLAG_NAMES[flag] + "}\n"
                body = "%%\n" + "".join("%s %s\n" % (r, "'R%d'" % k if named else ";") for k, (r, named) in enumerate(rules))
                exp = {"rules": [{"name": ("R%d" % k) if named else None, "pre": [], "target": None, "written": r,
                                  "meant": ("\\x08" if (r == "\\b" and flags.get("pe")) else r), "has_prefix": False}
                                 for k, (r, named) in enumerate(rules)], "states": [("INITIAL", False)]}
                text = hdr + body
                cases.append({"text": text, "exp": exp, "flags": flags, "route": route, "has_header": bool(hdr),
                              "probe": flag, "line": case_line(text, flags, route, exp, [], inputs)})
    return cases


# ------------------------------------------------------------------ part B: implementation vs mirror
# incl. the white-space class boundaries: FF, NEL, LRM, RLM, LS, PS are Pattern_White_Space; NBSP, U+3000 are Zs but not
MUT_CHARS = list("<>'\"; \t\n\\%,+-é \x0c\x85/AINITIAL\x0b\r") + ["‎", "‏", " ", " ", " ", "　"]


def mutate(rng, t):
    b = list(t)
    k = rng.random()
    lines = t.split("\n")
    if k < 0.15 and b:
        del b[rng.randrange(len(b))]
    elif k < 0.35:
        b.insert(rng.randrange(len(b) + 1), rng.choice(MUT_CHARS))
    elif k < 0.50 and b:
        b = b[:rng.randrange(len(b))]                                     # truncation
    elif k < 0.60 and b:
        b[rng.randrange(len(b))] = rng.choice(MUT_CHARS)
    elif k < 0.75 and len(lines) > 1:
        i = rng.randrange(len(lines))                                     # duplicate a line (duplicate names / states)
        lines.insert(rng.randrange(len(lines) + 1), lines[i])
        return "\n".join(lines)
    elif k < 0.82 and len(lines) > 1:
        i = rng.randrange(len(lines))
        lines[i] = rng.choice([" ", "\t", "\x0c"]) + lines[i]              # verbatim line
        return "\n".join(lines)
    elif k < 0.90:
        return t + rng.choice(["%%\n", "%%\nfn main(){}\n", "\n%%", "%% x", "<", "\\"])
    elif len(lines) > 2:
        i, j = rng.randrange(len(lines)), rng.randrange(len(lines))      # swap lines (use before declaration, ...)
        lines[i], lines[j] = lines[j], lines[i]
        return "\n".join(lines)
    return "".join(b)


def mirror_line(text, out, opt_flags):
    """the mirror's case for an implementation run: header end, flags and regex verdicts are inputs of the mirror"""
    sec = sections(out)
    h = sec.get("HDR", "HDR E").split()
    if len(h) < 3 or h[2] == "E" or not h[1].isdigit():
        return None
    if opt_flags is None:
        fl = dict(x.split(":") for x in h[2].split(",")) if h[2] != "-" else {}
        awc, pe, iw = fl.get("awc", "0"), fl.get("pe", "0"), fl.get("iw", "0")
    else:
        awc, pe, iw = ("1" if opt_flags.get("awc") else "0"), ("1" if opt_flags.get("pe") else "0"), ("1" if opt_flags.get("iw") else "0")
    bad = "-"
    if "ERRS" in sec:
        es = parse_errs(sec["ERRS"])
        if es and es[-1][0] == "RegexError":
            off = es[-1][1][0][0]
            bad = str(off)
    return "src=%s pos=%s awc=%s pe=%s iw=%s bad=%s fx=%s" % (hx(text), h[1], awc, pe, iw, bad, fx_string())


# a specification parser answers in milliseconds: a case still running after 4 s is a hang
FAST_WATCHDOG = {"GVH_CASE_TIMEOUT_MS": "4000"}


def run(ctx):
    ctx.gate = core.proof_gate("C11")
    for _ in ctx.gate["theorems"]:
        ctx.oblige(True)
    exe = core.build_harness("c11")
    mexe = core.build_model("c11")
    rng = ctx.rng

    # ---------------- A: oracle (abstract spec -> text -> implementation), corpus first
    recs = corpus_cases()
    recs += audit_cases()
    recs += auditb_cases()
    for i in range(ctx.n(8000, 60000)):
        recs.append(oracle_case(rng, "str" if i % 3 else "opt"))
    probes = flag_probe_cases()
    recs += probes
    recs += iw_cases()
    outs = core.run_lines([exe], [r["line"] for r in recs], env=FAST_WATCHDOG, max_bad=12)
    nconf = ninvalid = 0
    for rec, out in zip(recs, outs):
        if out == "SKIPPED":
            ctx.count("skipped_after_repeated_hangs")
            continue
        devs = judge_oracle(rec, out)
        if rec.get("generator_invalid"):
            ninvalid += 1
            continue
        nontriv = any(needs_rewrite(r) for r in rec["exp"]["rules"]) or rec["has_header"] or len(rec["exp"]["states"]) > 1
        ctx.case("A " + rec["line"], nontriv, {"text": rec["text"], "flags_in_force": rec["flags"], "route": rec["route"],
                                              "impl": out[:300]})
        ctx.count("oracle_" + rec["route"] + ("_hdr" if rec["has_header"] else "") + ("_probe" if "probe" in rec else ""))
        if not devs:
            nconf += 1
        report(ctx, rec, devs, out, "oracle: abstract spec vs implementation")
    # the two routes of a flag probe must lex alike
    by_probe = {}
    for rec, out in zip(recs, outs):
        if "probe" in rec:
            by_probe.setdefault((rec["probe"], G.flag_str(rec["flags"])), []).append((rec, sections(out).get("LX")))
    nprobe_diff = 0
    for key, lst in by_probe.items():
        if len(set(x[1] for x in lst)) != 1:
            nprobe_diff += 1
            ctx.violation({"what": "a flag given in the %grmtools section and the same flag given through new_with_options lex differently",
                           "flag": key, "runs": [(r["text"], lx) for r, lx in lst]})
    ctx.oblige(nprobe_diff == 0, "flag routes agree")
    ctx.coverage["oracle_conforming"] = nconf
    ctx.coverage["oracle_generator_invalid_skipped"] = ninvalid

    # ---------------- A': regexes ending in a lone backslash must be rejected (the written regex is invalid)
    dang = []
    for _ in range(ctx.n(150, 1500)):
        pre = "".join(rng.choice(["\\q", "\\\"", "a", "é", "\\é", "\\.", "x", "\\b", "\\ "]) for _ in range(rng.randint(0, 3)))
        mid = rng.choice(["\\q", "\\\"", "\\é", "\\b", "\\ "]) if rng.random() < 0.7 else ""
        tail = "".join(rng.choice(["a", "x", "é", "0"]) for _ in range(rng.randint(0, 2)))
        re_w = (pre + mid + tail) or "a"
        if re_w[0] in " <":
            re_w = "a" + re_w
        text = "%%\n" + re_w + "\\ 'T'\n"
        dang.append({"text": text, "line": "src=%s" % hx(text), "re": re_w + "\\"})
    douts = core.run_lines([exe], [d["line"] for d in dang])
    for d, out in zip(dang, douts):
        sec = sections(out)
        ok = "ERRS" in sec and [e[0] for e in parse_errs(sec["ERRS"])] == ["RegexError"]
        ctx.case("D " + d["line"], True, None)
        ctx.count("dangling_backslash_" + ("rejected" if ok else "accepted"))
        if not ok:
            ctx.violation({"what": "a rule whose regex ends in a lone backslash (an invalid regex) is accepted; part of the text is dropped",
                           "source_text": d["text"], "written_regex": d["re"], "impl_output": out[:600],
                           "replay_cmd": "echo '%s' | .work/target/release/c11" % d["line"]},
                          known_key=None if DANGLING_FIXED else K_DANGLING)

    # ---------------- A'': numeric flags at the edges of their types; regexes that are not regexes on their own
    nums, parens, nests = num_cases(), paren_cases(), nest_cases()
    nouts = core.run_lines([exe], [r["line"] for r in nums + parens + nests], env=FAST_WATCHDOG)
    nbad = nbad_nest = 0
    for rec, out in zip(nums + parens + nests, nouts):
        fam = "N" if "value" in rec else ("L" if "limit" in rec else "P")
        devs = judge_num(rec, out) if fam == "N" else (judge_nest(rec, out) if fam == "L" else judge_paren(rec, out))
        ctx.case(fam + " " + rec["line"], True, {"text": rec["text"][:300], "impl": out[:300]})
        ctx.count("numeric_flag_" + ("in_force" if " | LIM nest" in out else "refused") if fam == "N" else
                  ("nest_limit_rule_" if fam == "L" else "unbalanced_regex_") + ("rejected" if " | ERRS" in out else "accepted"))
        devs = [d for d in devs if d[1] not in TOLERATED or ctx.count("tolerated (repair switched off): " + d[1])]
        if fam == "L":
            nbad_nest += len(devs)
        else:
            nbad += len([d for d in devs if d[1] is None])
        for cls, key, detail in devs:
            ctx.count("deviation: " + (key or cls))
            ctx.violation({"what": {"N": "numeric flags in force", "P": "a rule's regex must be a regular expression on its own",
                                    "L": "the nest limit given is the one in force for the written regex"}[fam],
                           "class": cls, "detail": detail, "source_text": rec["text"][:600], "impl_output": out[:1500],
                           "replay_cmd": "echo '%s' | .work/target/release/c11" % rec["line"][:3000]}, known_key=key)
    ctx.oblige(nbad == 0, "numeric flags in force / unbalanced regexes rejected")
    ctx.oblige(nbad_nest == 0, "nest limit in force = nest limit given, on the written regex")
    obs = obs_cases()
    for rec, out in zip(obs, core.run_lines([exe], [r["line"] for r in obs], env=FAST_WATCHDOG)):
        ctx.count(("observation: " if rec["seen"](out) else "observation no longer reproduces: ") + rec["obs"])

    # ---------------- A3: the limits on the compiled regex; size_limit and dfa_size_limit in force are the ones given, each on its own
    # (own random stream: the cases of the other families do not depend on this one)
    import random
    lrng = random.Random("C11 limits_in_force %d" % ctx.seed)
    lims = limits_cases(lrng, ctx.n(60, 2900))
    louts = core.run_lines([exe], [r["line"] for r in lims], env=FAST_WATCHDOG)
    nbad_lim = n_dfa_below = 0
    table = {}
    for rec, out in zip(lims, louts):
        devs, ref, above_d = judge_limits(rec, out)
        ctx.case("LF " + rec["line"], True, {"text": rec["text"][:300], "impl": out[:300]})
        cls = "limits_in_force: %s x %s" % (ref or "?", rec["config"])
        ctx.count(cls)
        table[cls] = table.get(cls, 0) + 1
        if ref == "built" and above_d and not devs:
            n_dfa_below += 1
        nbad_lim += len(devs)
        for c, key, detail in devs:
            ctx.count("deviation: " + c)
            ctx.violation({"what": "the limits on the compiled regex in force (size_limit, dfa_size_limit) are the ones given",
                           "class": c, "detail": detail, "source_text": rec["text"], "route": rec["route"], "impl_output": out[:1500],
                           "replay_cmd": "echo '%s' | .work/target/release/c11" % rec["line"][:6000]}, known_key=key)
    ctx.oblige(nbad_lim == 0, "limits in force: builds iff the regex crate builds under the limits given, same CompiledTooBig payload, same lexemes")
    missing = [c for c in ["limits_in_force: %s x %s" % (r, k) for r in ("built", "too-big") for k in LF_CLASSES] if not table.get(c)]
    ctx.oblige(not missing and (n_dfa_below >= 10 or nbad_lim > 0), "limits in force: every class met; >= 10 built specs whose dfa_size_limit is below the compiled size")
    ctx.coverage["limits_in_force"] = dict(table, cases=len(lims), built_with_dfa_size_limit_below_compiled_size=n_dfa_below, classes_missing=missing)

    # ---------------- B: implementation vs mirror on generated, mutated and truncated sources
    srcs = []          # (text, opt flags | None)
    for rec in recs[:ctx.n(5000, 40000)]:
        opt = rec["flags"] if rec["route"] == "opt" else None
        srcs.append((rec["text"], opt))
        for _ in range(ctx.n(3, 4)):
            srcs.append((mutate(rng, rec["text"]), opt))
    for d in dang:
        srcs.append((d["text"], None))
    for d in parens[::3]:
        srcs.append((d["text"], None))
    for d in nests[::7]:
        if d["route"] == "str":
            srcs.append((d["text"], None))
    # every truncation of a few sources
    for rec in recs[5:5 + ctx.n(25, 120)]:
        t = rec["text"]
        for k in range(len(t)):
            srcs.append((t[:k], None))
    srcs = [(t, o) for t, o in srcs if "\x00" not in t]
    ilines = ["src=%s" % hx(t) + ("" if o is None else " opt=%s" % G.flag_str(o)) for t, o in srcs]
    iouts = core.run_lines([exe], ilines, env=FAST_WATCHDOG, max_bad=12)
    mlines, idx = [], []
    nskip_hdr = 0
    for k, ((t, o), out) in enumerate(zip(srcs, iouts)):
        if out == "SKIPPED":
            ctx.count("skipped_after_repeated_hangs")
            continue
        ml = mirror_line(t, out, o)
        if ml is None:
            nskip_hdr += 1       # header errors / header panics belong to the header mirror (C12)
            if o is not None and "PANIC" in out:
                ctx.count("observation: new_with_options panics (unwrap) on a malformed %grmtools section [C12]")
            continue
        mlines.append(ml)
        idx.append(k)
    mouts = core.run_lines([mexe], mlines)
    ndiff = 0
    kinds = {}
    for k, ml, mo in zip(idx, mlines, mouts):
        sec = sections(iouts[k])
        got = (sec.get("OK") or sec.get("ERRS") or sec.get("PANIC") or iouts[k]).strip()
        if got.startswith("PANIC"):
            got = "PANIC"
        cls = got.split()[0]
        if cls == "ERRS":
            for e in parse_errs(got):
                kinds[e[0]] = kinds.get(e[0], 0) + 1
        ctx.case("B " + ml, cls == "ERRS" or " ; r " in got, None)
        ctx.count("mirror_" + cls)
        if got != mo.strip():
            ndiff += 1
            t, o = srcs[k]
            # a difference is first of all a broken correspondence; an impl panic is directly a witness (C12)
            ctx.violation({"what": "implementation and mirror disagree", "source_text": t, "opt": o, "impl": got[:800], "mirror": mo[:800],
                           "note": "theorems of Properties/C11.v speak about the mirror; they no longer transfer to the code on this input",
                           "replay_cmd": "echo '%s' | .work/target/release/c11 ; echo '%s' | .work/ocaml/c11/gvm_c11" % (ilines[k][:3000], ml[:3000])},
                          no_input=(cls != "PANIC"))
    ctx.oblige(ndiff == 0, "correspondence")
    ctx.coverage["mirror_compared"] = len(idx)
    ctx.coverage["mirror_skipped_header_error"] = nskip_hdr
    ctx.coverage["mirror_error_kinds"] = kinds
    ctx.coverage["known_keys"] = KNOWN_KEYS
    ctx.coverage["rule"] = (
        "A: seeded random abstract lexer specs (0-3 start states incl. exclusive, 1-5 rules with names/skip forms, <A,B> prefixes, "
        "<S>/<+S>/<-S> targets, regex atoms: literals, multi-byte chars, lex escapes of non-special chars incl. multi-byte and space, regex "
        "escapes incl. \\B and braced \\x{..} \\u{..} \\U{..} in and outside classes, \\b, classes, bare and trailing-escaped spaces, "
        "a bare or escaped FF/NEL/LRM/RLM as the last character; declarations with one or several blanks between names) x renderings (with/without %grmtools section with random flags, "
        "'n'/\"n\"/;/''/\"\" forms, blanks/tabs, LF/CRLF/VT/CR/U+2028 separators, // comments when allowed, closing %%) x route "
        "(from_str / new_with_options with a contradicting section); ignore_whitespace drawn like the other flags (and forced "
        "on in 15% of the cases) TOGETHER with escaped white space / \\# atoms (plain, in classes [\\ x] [^\\ ] [x\\ \\#], in groups, "
        "trailing; every character the regex engine skips in that mode that can stand in a rule line), such cases also lexed "
        "(inputs: what each rule is meant to match, with and without its white space) against the reference lexer; a "
        "deterministic family iw_cases: 20 skipped characters x {plain, class, trailing, behind a <A> prefix} + \\# x "
        "ignore_whitespace {on, off, unspecified} x {section, new_with_options, new_with_options with a contradicting section}; "
        "a deterministic family audit_cases (the auditors' inputs and neighbours: 11 escape shapes, 4 trailing characters x 5 shapes, "
        "6 multi-blank declarations, each x 4 flag/route variants); num_cases: nest_limit/size_limit/dfa_size_limit x {2^32-1, 2^32, "
        "2^32+1, 2^32+2, 2^33, 2^64-1} x key spelling (value in force = value written, or one Header error located at the setting; the "
        "definition builds and lexes); paren_cases: 12 regexes with unbalanced parentheses x {plain, <A> prefix} x 3 flag routes "
        "(exactly one RegexError at the rule line); auditb_cases: 14 shapes with \\8 / \\9 (plain, in classes and ranges, in groups, next to "
        "octal escapes \\18 \\78 \\1019 \\09, beside multi-byte characters) x {plain, <A> prefix} x 6 flag/route variants (posix_escapes on/off, "
        "ignore_whitespace, octal; section / new_with_options / contradicting section), and \\8 \\9 atoms in the random specs; nest_cases: "
        "29 written regexes (groups of depth 0..5, capturing or not, classes, repetitions, alternations, concatenations, escapes that "
        "unescape rewrites) x nest_limit 0..5 x {section, new_with_options, new_with_options with a section that says otherwise} + no "
        "limit at all x depths {5, 100, 248..252, 300}: accepted iff the regex crate on its own builds the written regex under the limit "
        "given (for the pure group family also: iff depth <= limit), a rejection is one RegexError at the rule line; for every case with lexing inputs, incl. inputs that begin with text no rule "
        "matches: every emitted lexeme is matched by its rule's regex — compiled on its own — at offset 0 of the remaining input (ANCH); "
        "limits_in_force (own random stream): regexes of graded compiled size ([a-z]{k}, \\pL{k}, (?:ab|cd){k}, k 1..500) x {size_limit only, "
        "dfa_size_limit only (10..1000), both with size_limit < and > dfa_size_limit, neither} x {section, new_with_options, new_with_options with a "
        "section giving the two values the other way round}: the definition builds iff the regex crate, on its own, builds every rule's "
        "wrapped regex with size_limit(s) if given and dfa_size_limit(d) if given; a refusal is RegexError(CompiledTooBig(n)) at the rule line "
        "with the reference's n; when built the lexemes of two inputs equal those of a reference lexer with the same limits; "
        "judged against the abstract spec (rules, states, span texts, "
        "regex equivalence on a battery of ~90 strings per case, flag probes lexed against a reference lexer). "
        "B: the same texts plus 3 mutations each (char delete/insert/replace, truncation, duplicated/swapped/indented lines, "
        "routine sections) and every truncation of some, implementation vs extracted mirror transcript equality. "
        "non-trivial = A: needs escape rewriting or has a header or start states; B: the result has rules or errors; distinct by case line")
    ctx.coverage["exhaustive"] = False
    # the PROVED round trip (C11/Round.v): the formal printer's text goes through the real parser
    rule_ab = ctx.coverage["rule"]
    from checks import c11_round
    c11_round.run_part(ctx)
    ctx.coverage["rule"] = rule_ab + " || round trip: " + str(ctx.coverage.get("rule", ""))
    ctx.assumptions += [
        "the %grmtools section parser is not mirrored here (theories/C12): its end position and the flags it yields are inputs of the mirror, taken from the public GrmtoolsSectionParser/LexFlags::try_from",
        "Rule::new (regex compilation) is opaque to the mirror: which rule line fails to compile is an input of the mirror (taken from the implementation's RegexError); regex semantics are decided by the regex crate in the harness",
        "'what the written regex denotes' is the generator's own definition of lex escaping (gen/c11gen.py), compiled by the regex crate with the flags in force and compared on a finite battery",
        "effective flags are observed through behaviour (lex_flags() is pub(crate)); the numeric limits are observed through the public LexFlags::try_from on the parsed section (the conversion from_str itself uses) and through the definition building: large values must not reject a small regex, small nest limits (0..5, and the default) must admit exactly the written regexes the regex crate admits on its own under that limit (regex-syntax's NestLimiter is the reference for 'nesting depth')",
        "a rule's own match is what the regex crate reports (leftmost-first: `if|iffy` on `iffy` matches `if`); the property's longest match is across rules — the reference lexer of the harness is built directly on the regex crate (observation, audit c11b/1 and c09b/1)",
        "from_str / new_with_options do not report unknown %grmtools keys (CTLexerBuilder and the lrlex binary do); the book spells `allow_wholeline_comment` where the code reads `allow_wholeline_comments` (observations, audit c11b/3): the property speaks about flags GIVEN, an unknown key gives none",
        "StorageT::try_from(rules_len) (documented panic past u32::MAX rules) is not mirrored (C20)",
        "which builder limit a numeric flag ends on is not in the Coq model (Rule::new is opaque to it): limits_in_force decides it by behaviour: the regex crate's RegexBuilder with size_limit(s) / dfa_size_limit(d) applied as given, on the same wrapped text, is the reference for 'the limit in force' (compiled sizes are the regex crate's own accounting; a dfa_size_limit never makes a build fail)",
    ]
