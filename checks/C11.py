"""C11 — a lexer definition is a faithful image of its .l source.

Proof: theories/C11 — character-level mirror of lrlex's LexParser (+ the header slicing of
`from_str`/`new_with_options`), `unescape_spec`, `trim_end_unescaped_spec`, totality of the mirror,
`spans_index_source` for the repaired variant and `spans_index_source_refuted` for today's code.
Oracle (independent of the mirror): abstract lexer specs are rendered to text in many layouts; the
implementation must report exactly the abstract rules (order, names, start states, targets, kinds),
spans that select the names in the text the user wrote, regexes equivalent (regex crate, battery of
strings) to what the generator meant, and must lex flag-sensitive probes as the flags in force say.
Tie: implementation vs extracted mirror, transcript equality (rules, spans, error kinds and spans)
on generated, mutated and truncated sources.
"""
import re
from vlib import core
from gen import c11gen as G

SPANS_FIXED = False      # True once lexer.rs adds the header offset to the spans (see K_SPANS)

K_SPANS = "spans of a lex spec with a %grmtools header are relative to the text after the header"
K_PREFIX = "lex escapes are not rewritten in a rule that has a start-state prefix"
K_DANGLING = "unescape drops the end of a regex that ends in a lone backslash"
K_TARGET = "name_span of a rule with a target state is computed as if the name followed the space directly"
K_BLANKS = "two blanks between start-state names in a declaration are rejected"
KNOWN_KEYS = [K_SPANS, K_PREFIX, K_DANGLING, K_TARGET, K_BLANKS]


def hx(s):
    return s.encode("utf-8").hex() or "-"


def unhx(h):
    return "" if h == "-" else bytes.fromhex(h).decode("utf-8")


def hlist(xs):
    return ";".join(hx(x) for x in xs)


# ------------------------------------------------------------------ parsing harness output
def sections(out):
    d = {}
    for s in out.split(" | "):
        s = s.strip()
        if not s:
            continue
        k = s.split(" ", 1)[0]
        d[k] = s
    return d


def parse_ok(sec):
    parts = sec.split(" ; ")
    rules, states = [], []
    for p in parts[1:]:
        t = p.split()
        if t[0] == "r":
            rules.append({"name": None if t[1] == "-" else unhx(t[1][1:]), "span": (int(t[2]), int(t[3])),
                          "re": unhx(t[4][1:]), "pre": [] if t[5] == "-" else [int(x) for x in t[5].split(",")],
                          "target": None if t[6] == "-" else (int(t[6].split(":")[0]), t[6].split(":")[1])})
        elif t[0] == "s":
            states.append({"id": int(t[1]), "name": unhx(t[2][1:]), "excl": t[3] == "1", "span": (int(t[4]), int(t[5]))})
    return rules, states


def parse_errs(sec):
    errs = []
    for p in sec.split(" ; ")[1:]:
        t = p.split()
        n = int(t[2])
        errs.append((t[1], [(int(t[3 + 2 * i]), int(t[4 + 2 * i])) for i in range(n)]))
    return errs


def bsel(src_b, s, e):
    """text selected by byte span (s,e) in src, or None"""
    if not (0 <= s <= e <= len(src_b)):
        return None
    try:
        return src_b[s:e].decode("utf-8")
    except UnicodeDecodeError:
        return None


def battery(rng, exp):
    alpha = list("abcxyz019AZ<>\"',;%!=@_/:` \t\n\x08-+.") + G.MULTI + ["q", "h", "g", "k", "5", "B"]
    b = set([""])
    for _ in range(40):
        b.add("".join(rng.choice(alpha) for _ in range(rng.randint(1, 4))))
    for a in alpha:
        b.add(a)
    for r in exp["rules"]:
        # strings close to what the rule is meant to match: the characters named by its atoms
        s = re.sub(r"\\x\{([0-9A-F]+)\}", lambda m: chr(int(m.group(1), 16)), r["meant"])
        s = re.sub(r"\\[dDwWsSntafrvbpux]", "5", s)
        s = re.sub(r"[\\()\[\]|?*+^]", "", s)
        b.add(s)
        b.add(s[:-1])
        b.add(s + "a")
    return sorted(b)


# ------------------------------------------------------------------ part A: oracle on the implementation
def needs_rewrite(rule):
    return rule["written"] != rule["meant"] or "\\b" in rule["written"]


def oracle_case(ctx, rng, route, stats):
    """one generated spec; returns (line, expectation record)"""
    flags = G.gen_flags(rng)
    hstyle = None if (route == "opt" and rng.random() < 0.5) or (route == "str" and not flags and rng.random() < 0.5) else 1
    states, rules = G.gen_spec(rng, flags, prefix_escapes=rng.random() < 0.4)
    hflags = flags if route == "str" else ({} if rng.random() < 0.5 else G.gen_flags(rng))   # opt: header flags are ignored
    if route == "opt" and "awc" in hflags:
        del hflags["awc"]
    text, exp = G.render(rng, states, rules, dict(hflags, **({} if route == "str" else {})) if hstyle else {}, hstyle,
                         comments=None if route == "str" else flags.get("awc", False))
    if route == "opt" and flags.get("awc") is not True:
        pass
    bat = battery(rng, exp)
    inputs = [b for b in bat if b][:0]
    line = "src=%s f=%s w=%s wn=%s b=%s" % (hx(text), G.flag_str(flags), hlist([r["meant"] for r in exp["rules"]]),
                                           ";".join("1" if r["name"] is not None else "0" for r in exp["rules"]), hlist(bat))
    if route == "opt":
        line += " opt=%s" % G.flag_str(flags)
    rec = {"text": text, "exp": exp, "flags": flags, "route": route, "line": line, "has_header": hstyle is not None}
    return line, rec


def judge_oracle(ctx, rec, out):
    """compare the implementation's observations with the abstract spec; report deviations.
    returns the list of deviation classes (empty = conforms)"""
    text, exp = rec["text"], rec["exp"]
    src_b = text.encode("utf-8")
    sec = sections(out)
    devs = []        # (class, known_key, detail)
    prefix_rw = any(r["has_prefix"] and needs_rewrite(r) for r in exp["rules"])
    hdr = sec.get("HDR", "HDR E").split()
    pos = int(hdr[1]) if len(hdr) > 1 and hdr[1].isdigit() else 0
    if "OK" not in sec:
        what = sec.get("ERRS") or sec.get("PANIC") or out[:200]
        key = None
        if "ERRS" in sec:
            errs = parse_errs(sec["ERRS"])
            if prefix_rw and len(errs) == 1 and errs[0][0] == "RegexError":
                key = K_PREFIX
        devs.append(("valid specification rejected", key, what))
        return devs
    rules, states = parse_ok(sec["OK"])
    # rules in order: names, start states, targets
    got = [(r["name"], r["pre"], r["target"]) for r in rules]
    want = [(r["name"], r["pre"], r["target"]) for r in exp["rules"]]
    if got != want:
        devs.append(("rules (name, start states, target) differ", None, {"got": got, "want": want}))
    gs = [(s["id"], s["name"], s["excl"]) for s in states]
    ws = [(i, n, e) for i, (n, e) in enumerate(exp["states"])]
    if gs != ws:
        devs.append(("start states differ", None, {"got": gs, "want": ws}))
    # spans index the text the user wrote
    span_items = [("rule %d" % k, r["span"], r["name"] or "", r["target"] is not None) for k, r in enumerate(rules)]
    span_items += [("state %d" % s["id"], s["span"], s["name"], False) for s in states]
    by_class = {}
    for what, (s, e), name, has_target in span_items:
        if what == "state 0":
            # INITIAL is not written by the user: its span is the empty (0,0)
            if (s, e) != (0, 0):
                by_class.setdefault(None, []).append((what, (s, e), None, name))
            continue
        got = bsel(src_b, s, e)
        if got == name:
            continue
        rel = bsel(src_b, s + pos, e + pos)
        if pos > 0 and rel == name and not SPANS_FIXED:
            key = K_SPANS
        elif has_target and name != "" and (e - s) == len(name.encode("utf-8")):
            key = K_TARGET      # right length, wrong place: computed as if the name followed the space directly
        else:
            key = None
        by_class.setdefault(key, []).append((what, (s, e), got, name))
    for key, items in by_class.items():
        devs.append(("a span does not select the name it denotes in the source text", key,
                     {"header_end": pos, "wrong (what, span, selected, expected)": items[:4]}))
    # regex equivalence
    if "RX" in sec:
        for item in sec["RX"].split()[1:]:
            f = item.split(":")
            k = int(f[0])
            er = exp["rules"][k] if k < len(exp["rules"]) else None
            key = K_PREFIX if (er and er["has_prefix"] and needs_rewrite(er)) else None
            if f[1] == "WRITTENERR":
                rec["generator_invalid"] = True       # the generator produced a regex the regex crate rejects: not a verdict
            elif f[1] == "IMPLERR":
                devs.append(("re_str does not compile although the written regex does", key, {"rule": k}))
            elif int(f[2]) > 0:
                devs.append(("re_str is not equivalent to the written regex", key,
                             {"rule": k, "written": er and er["written"], "meant": er and er["meant"], "re_str": rules[k]["re"] if k < len(rules) else None,
                              "battery_string": unhx(f[3][1:]) if len(f) > 3 else None, "impl_match_end": f[4] if len(f) > 4 else None,
                              "written_match_end": f[5] if len(f) > 5 else None}))
    return devs


def report(ctx, rec, devs, out, what):
    for cls, key, detail in devs:
        ctx.count("deviation: " + (key or cls))
        ctx.violation({"what": what, "class": cls, "detail": detail, "source_text": rec.get("text"),
                       "flags": rec.get("flags"), "route": rec.get("route"), "impl_output": out[:1500],
                       "replay_cmd": "echo '%s' | .work/target/release/c11" % rec["line"][:6000]}, known_key=key)


def run(ctx):
    ctx.gate = core.proof_gate("C11")
    for _ in ctx.gate["theorems"]:
        ctx.oblige(True)
    exe = core.build_harness("c11")
    rng = ctx.rng
    # ---------------- A: oracle
    recs = []
    for i in range(ctx.n(3000, 30000)):
        route = "str" if i % 3 else "opt"
        line, rec = oracle_case(ctx, rng, route, None)
        recs.append(rec)
    outs = core.run_lines([exe], [r["line"] for r in recs])
    nconf = 0
    for rec, out in zip(recs, outs):
        devs = judge_oracle(ctx, rec, out)
        ctx.case(rec["line"], bool(rec["exp"]["rules"]) and any(needs_rewrite(r) for r in rec["exp"]["rules"]),
                 {"text": rec["text"], "flags": rec["flags"], "route": rec["route"], "impl": out[:300]})
        ctx.count("oracle_" + rec["route"] + ("_hdr" if rec["has_header"] else ""))
        if not devs:
            nconf += 1
        report(ctx, rec, devs, out, "oracle: abstract spec vs implementation")
    ctx.coverage["oracle_conforming"] = nconf
