"""C11, round trip (print-then-parse on the printer of the theorem lex_roundtrip) — stand-alone runner;
the coordinator merges it into checks/C11.py."""
from vlib import core
from checks import c11_round


def run(ctx):
    ctx.gate = core.proof_gate("C11round")
    for _ in ctx.gate["theorems"]:
        ctx.oblige(True)
    c11_round.run_part(ctx)
