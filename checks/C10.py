"""C10 — a grammar object is a faithful, well-formed image of its .y source.

Two halves, each a mirror model proved in Coq and tied to the code by
correspondence: (b) text -> AST (checks/c10_parser.py: character-level mirror of
YaccParser + print-then-parse oracle over layouts) and (a) AST -> indexed grammar
(checks/c10_grammar.py: mirror of new_from_ast_with_validity_info + accessor
transcript).  Known findings are matched under property "C10"."""
from vlib import core
from checks import c10_grammar, c10_parser


def run(ctx):
    ctx.gate = core.proof_gate("C10")
    for _ in ctx.gate["theorems"]:
        ctx.oblige(True)
    import time
    t0 = time.time()
    timing = {"proof_gate": round(t0 - ctx.t0, 1)}
    c10_parser.run_part(ctx)
    timing["text_to_ast"] = round(time.time() - t0, 1)
    t0 = time.time()
    rule_b = ctx.coverage.get("rule", "")
    c10_grammar.run_part(ctx)
    timing["ast_to_grammar"] = round(time.time() - t0, 1)
    t0 = time.time()
    rule_a = ctx.coverage.get("rule", "")
    # the PROVED round trip (C10/YpRound.v): the formal printer's text goes through the real parser
    from checks import c10_round
    c10_round.run_part(ctx)
    timing["round_trip"] = round(time.time() - t0, 1)
    t0 = time.time()
    ctx.coverage["rule"] = rule_a + " || round trip: " + str(ctx.coverage.get("rule", ""))
    ctx.coverage["rule"] = "(b) text->AST: %s || (a) AST->grammar: %s" % (rule_b, ctx.coverage.get("rule", ""))
    # the FromStr entry points (yacc kind read from the text's own %grmtools header): metamorphic tie to `new`
    from checks import c10_header
    c10_header.run_part(ctx)
    ctx.coverage["rule"] += " || FromStr entry points: " + ctx.coverage.pop("header_rule", "")
    timing["from_str"] = round(time.time() - t0, 1)
    ctx.coverage["wall_s_by_part"] = timing
    # the KNOWN-FINDING lines of the two classes found by the print-then-parse oracle carry the number of cases of
    # this run and the first of them
    notes = getattr(ctx, "c10_known_notes", {})
    for i, k in enumerate(ctx.known_hits):
        if k.get("match") in notes:
            k = dict(k)
            k["note"] = notes[k["match"]]
            ctx.known_hits[i] = k
