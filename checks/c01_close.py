"""C01 (table construction) — Itemset::close / Itemset::goto against their proved mirror.

Proof (theories/LR/Close{Mirror,Spec,Proofs}.v, Properties/C01close.v): for every well-formed
grammar, exact FIRST/epsilon tables, every map K of items in range and EVERY order of its keys, the
mirror of `Itemset::close` (same work list: initial keys, then the `zero_todos` bit field scanned
for its first set bit; same `new_ctx`; same changed-flag re-queueing) returns — never Panic, never
OutOfFuel with fuel |keys| + prods_len*(1+tokens_len) + 1 — exactly the declarative LR(1) closure
of K (close_mirror_sound + close_mirror_complete + close_mirror_result_ok), independently of the
key order (close_mirror_order_insensitive); the mirror of `Itemset::goto` returns exactly the
advanced items with their contexts copied (goto_mirror_spec).

Tie (this file): for every state s of every generated grammar's StateGraph
  * close_mirror(core(s)) under 3 orders of the keys (and of the association list) must equal the
    implementation's closed(s) as a set of (production, dot, lookahead SET) — FIRST/epsilon being
    the proved-exact first_ref (C17 ties YaccFirsts to it);
  * for every edge s --X--> t: goto_mirror(closed(s), X) must have exactly the (production, dot)
    pairs of core(t) and, item by item, a lookahead set INCLUDED in core(t)'s (Pager's merging of
    weakly compatible states only ever adds lookaheads to a core; equality is not demanded);
  * the theorems' hypothesis items_ok is evaluated on every core and closed state.
Failing-input search on a mismatch: the generated inputs of that grammar are decided by the
independent Earley recogniser; an input on which the parser's verdict is wrong is reported.
"""
from vlib import core, cfg

CORR_CLOSE = "close_mirror (proved = the declarative LR(1) closure) vs StateGraph::closed_state on core_state"
CORR_GOTO = "goto_mirror (proved = the advanced items, contexts copied) vs StateGraph::core_state of the edge target"
KEEP = ("G", "P", "N", "C", "K", "E")


def _items(secs, tag):
    """{state: {(p, dot): frozenset(la)}} from sections `tag st p dot la…`"""
    out = {}
    for s in secs:
        if s and s[0] == tag:
            out.setdefault(int(s[1]), {})[(int(s[2]), int(s[3]))] = frozenset(int(x) for x in s[4:])
    return out


def _show(m):
    return ["%d %d : %s" % (p, d, " ".join(str(a) for a in sorted(la))) for (p, d), la in sorted(m.items())]


def _failing_input(r):
    """an input of this grammar on which the real parser is wrong according to the Earley oracle"""
    try:
        g = cfg.DGram(r.secs)
    except Exception:
        return None
    conflict_free = r.conflicts is None and r.verdict.get("single", False)
    for toks, io in zip(r.inputs, r.impl_out):
        sent, _ = g.earley(toks)
        acc = io.startswith("acc ")
        if acc and not sent:
            return {"input_tidxs": toks, "impl": io, "why": "accepted a non-sentence (Earley)"}
        if conflict_free and sent and not acc and io not in ("hang", "crash"):
            return {"input_tidxs": toks, "impl": io, "why": "conflict-free table rejects a sentence (Earley)"}
    return None


def run_part(ctx, results, count_cases=False):
    """results: list of vlib.lr.LRResult (as produced in checks/C01.py).  One obligation per grammar."""
    mexe = core.build_model("close")
    oks = [r for r in results if r.ok]
    lines = [" # ".join(" ".join(s) for s in r.secs if s and s[0] in KEEP) for r in oks]
    outs = core.run_lines([mexe], lines)
    tot = {"states": 0, "closed_items": 0, "closed_lookaheads": 0, "edges": 0, "goto_items": 0,
           "merged_edges": 0, "multi_key_states": 0, "grammars": 0}
    for r, out in zip(oks, outs):
        base = {"grammar": r.src, "replay_cmd": "harness lr dump of the grammar | .work/ocaml/close/gvm_close"}
        if not out.startswith("CL "):
            ctx.oblige(False)
            ctx.violation(dict(base, what="the close/goto model runner did not answer", model=out[:300],
                               broken_correspondence=CORR_CLOSE), no_input=True)
            continue
        msecs = [s.split() for s in out.split(" # ")]
        head = dict(kv.split("=") for kv in msecs[0][1:])
        closed, corei = _items(r.secs, "C"), _items(r.secs, "K")
        edges = [(int(s[1]), int(s[2]), int(s[3])) for s in r.secs if s and s[0] == "E"]
        bad = []
        if head.get("wf") != "1" or head.get("first") != "1":
            bad.append({"what": "the dumped grammar is not well formed / first_ref returned None (hypotheses of the closure theorems)",
                        "model": " ".join(msecs[0])})
        mc = _items(msecs, "MC")
        mn = {int(s[1]): int(s[2]) for s in msecs if s and s[0] == "MN"}
        for s in msecs:
            if not s:
                continue
            if s[0] == "KB":
                bad.append({"what": "items_ok is false of core/closed state %s (duplicate key, production/dot/token out of range)" % s[1]})
            elif s[0] == "MP":
                bad.append({"what": "close_mirror returned %s on core state %s under key order %s — excluded by close_mirror_terminates / "
                                    "close_mirror_never_panics for well-formed inputs" % (s[3], s[1], s[2])})
            elif s[0] == "MON":
                bad.append({"what": "close_mirror's result on core state %s depends on the key order (order %s) — excluded by "
                                    "close_mirror_order_insensitive" % (s[1], s[2])})
            elif s[0] == "MGO":
                bad.append({"what": "goto_mirror's result on closed state %s, symbol %s depends on the traversal order" % (s[1], s[2])})
            elif s[0] == "MGP":
                bad.append({"what": "goto_mirror panicked on closed state %s, symbol %s" % (s[1], s[2])})
        # --- close: mirror(core(s)) = closed(s) as sets of (p, dot, lookahead set) ---
        for st in range(r.nstates):
            want = mc.get(st, {})
            got = closed.get(st, {})
            if st not in mn:
                continue                    # MP reported above
            tot["states"] += 1
            tot["closed_items"] += len(got)
            tot["closed_lookaheads"] += sum(len(v) for v in got.values())
            if len(corei.get(st, {})) > 1:
                tot["multi_key_states"] += 1
            if want != got:
                diff = []
                for k in sorted(set(want) | set(got)):
                    if want.get(k) != got.get(k):
                        diff.append({"item": "production %d, dot %d" % k,
                                     "lr1_closure": None if k not in want else sorted(want[k]),
                                     "implementation": None if k not in got else sorted(got[k])})
                bad.append({"what": "closed_state(%d) is not the LR(1) closure of core_state(%d)" % (st, st),
                            "state": st, "core": _show(corei.get(st, {})), "differences": diff[:12],
                            "broken_correspondence": CORR_CLOSE})
        # --- goto: goto(closed(s), X) vs core(t): same (p, dot), lookaheads included ---
        mg = {}
        for s in msecs:
            if s and s[0] == "MG":
                mg.setdefault((int(s[1]), int(s[2]), int(s[3])), {})[(int(s[4]), int(s[5]))] = frozenset(int(x) for x in s[6:])
        mgn = {(int(s[1]), int(s[2]), int(s[3])): int(s[4]) for s in msecs if s and s[0] == "MGN"}
        for e in edges:
            if e not in mgn:
                if not any(b["what"].startswith("goto_mirror panicked") for b in bad):
                    bad.append({"what": "no goto result for edge %d --%d--> %d" % e})
                continue
            tot["edges"] += 1
            want = mg.get(e, {})
            tgt = corei.get(e[2], {})
            tot["goto_items"] += len(want)
            if set(want) != set(tgt) or any(not want[k] <= tgt[k] for k in want):
                bad.append({"what": "core_state(%d) is not goto(closed_state(%d), symbol %d) up to added lookaheads: the (production, dot) "
                                    "pairs must be equal and every lookahead of the goto present" % (e[2], e[0], e[1]),
                            "edge": list(e), "goto_of_closed": _show(want), "core_of_target": _show(tgt),
                            "broken_correspondence": CORR_GOTO})
            elif want != tgt:
                tot["merged_edges"] += 1
        tot["grammars"] += 1
        ctx.oblige(not bad)
        if bad:
            fi = _failing_input(r)
            for b in bad[:3]:
                data = dict(base, **b)
                if fi:
                    data.update(fi)
                data.setdefault("theorems", "C01_close_mirror_sound / _complete / _order_insensitive, C01_goto_mirror_spec")
                ctx.violation(data, no_input=fi is None)
        if count_cases:
            ctx.case(r.src, r.nstates >= 4 and any(len(v) > 1 for v in corei.values()),
                     {"grammar": r.src, "states": r.nstates, "edges": len(edges)})
    for k, v in tot.items():
        ctx.count("close_tie_" + k, v)
    ctx.coverage["close_tie"] = dict(tot, key_orders_per_state=3,
                                     rule="every state of every generated grammar: close_mirror(core) = closed as sets of "
                                          "(production, dot, lookahead set) under 3 key orders; every edge: goto_mirror(closed(s), X) "
                                          "has the (production, dot) pairs of core(target) with included lookahead sets")
    return tot
