"""C19 — offsets -> lines/columns; lines-of-span never fails.

Proof: theories/C19 (mirror of NewlineCache proved against a declarative
spec for all texts/chunkings/offsets/spans).  Tie: the extracted mirror and the
implementation are run on the same chunked texts and must print identical
answers for every byte offset, every boundary and every boundary span.
"""
import itertools
from vlib import core

ALPHA = [97, 233, 9824, 10, 13]          # a é ♠ \n \r
EXTRA = [0x1F600, 32, 0x2028, 98, 88, 89]   # 4-byte char, space, LS, b, X, Y (= lexing errors in the lexer-level queries)


def chunkings(rng, text, k):
    res = [[text]]
    for _ in range(k):
        cuts = sorted(rng.sample(range(len(text) + 1), min(len(text) + 1, rng.randint(0, 3))))
        ch, prev = [], 0
        for c in cuts:
            ch.append(text[prev:c])
            prev = c
        ch.append(text[prev:])
        res.append(ch)
    return res


def line_of(chunks):
    return "T " + " ; ".join(" ".join(str(c) for c in ch) for ch in chunks)


def run(ctx):
    ctx.gate = core.proof_gate("C19")
    for _ in ctx.gate["theorems"]:
        ctx.oblige(True)
    exe = core.build_harness("c19")
    mexe = core.build_model("c19")
    rng = ctx.rng
    cases = []
    # corpus first
    corpus = [[[97, 10, 98, 10, 99]], [[97, 10, 98], [10, 99]], [[97, 13], [10, 98]], [[13, 10, 10]], [[]], [[], []]]
    for c in corpus:
        cases.append(c)
    maxlen = ctx.n(5, 7)
    nchunk = ctx.n(1, 2)
    for n in range(0, maxlen + 1):
        for t in itertools.product(ALPHA, repeat=n):
            for ch in chunkings(rng, list(t), nchunk):
                cases.append(ch)
    for _ in range(ctx.n(1500, 20000)):
        n = rng.randint(6, 40)
        t = [rng.choice(ALPHA + EXTRA + [10, 10]) for _ in range(n)]
        for ch in chunkings(rng, t, 1)[1:]:
            cases.append(ch)
    lines = [line_of(c) for c in cases]
    impl = core.run_lines([exe], lines)
    model = core.run_lines([mexe], lines)
    ndiff = 0
    # the lexer-level queries (NonStreamingLexer::line_col / span_lines_str, LexParseError::pp)
    # are derived from the model's cache-level answers: line_col(s,e) = (L s, L e),
    # span_lines_str(s,e) = text[st..en] with (st,en) = S s e, pp = "Lexing error at line l column c."
    impl_full = impl
    impl = []
    for c, a, b in zip(cases, impl_full, model):
        parts = a.split(" | ")
        base = [x for x in parts if not x[:3] in ("LC ", "SL ", "PP ")]
        lexq = [x for x in parts if x[:3] in ("LC ", "SL ", "PP ")]
        impl.append(" | ".join(base))
        text = [x for ch in c for x in ch]
        tb = "".join(map(chr, text)).encode()
        L, S = {}, {}
        for x in b.split(" | "):
            f = x.split()
            if f[0] == "L":
                L[int(f[1])] = (f[2], f[3])
            elif f[0] == "S" and len(f) == 5:
                S[(int(f[1]), int(f[2]))] = (int(f[3]), int(f[4]))
        bad = []
        for x in lexq:
            f = x.split()
            if f[0] == "LC":
                s_, e_ = int(f[1]), int(f[2])
                exp = [L.get(s_, ("?", "?"))[0], L.get(s_, ("?", "?"))[1], L.get(e_, ("?", "?"))[0], L.get(e_, ("?", "?"))[1]]
                if f[3:] != exp:
                    bad.append((x, "expected " + " ".join(exp)))
            elif f[0] == "SL":
                s_, e_ = int(f[1]), int(f[2])
                if (s_, e_) in S:
                    st, en = S[(s_, e_)]
                    if f[3:] != ([tb[st:en].hex()] if en > st else []):
                        bad.append((x, "expected " + tb[st:en].hex()))
            elif f[0] == "PP":
                off = int(f[1])
                exp = ("Lexing error at line %s column %s." % L.get(off, ("?", "?"))).encode().hex()
                if f[2:] != [exp]:
                    bad.append((x, "expected " + bytes.fromhex(exp).decode()))
        ctx.coverage["lexer_queries"] = ctx.coverage.get("lexer_queries", 0) + len(lexq)
        if bad:
            ndiff += 1
            ctx.violation({"chunks": c, "text": "".join(map(chr, text)), "lexer_level_differences": bad[:5],
                           "authority": "C19_line_col_spec, C19_span_lines_spec applied through NonStreamingLexer::line_col/span_lines_str/LexParseError::pp"})
    for c, l, a, b in zip(cases, lines, impl, model):
        text = [x for ch in c for x in ch]
        nontriv = (10 in text) and any(x > 127 or x == 13 for x in text)
        ctx.case(l, nontriv, {"chunks": c, "impl_equals_model": a == b, "result": a[:160]})
        ctx.count("len_%d" % min(len(text), 8))
        ctx.count("chunks_%d" % len(c))
        if a != b:
            ndiff += 1
            fa, fb = a.split(" | "), b.split(" | ")
            d = [(x, y) for x, y in zip(fa, fb) if x != y][:5]
            # the model is proved to meet the declarative spec (Properties/C19.v), so a
            # difference is a concrete text/offset on which the implementation is wrong
            ctx.violation({"chunks": c, "text": "".join(map(chr, text)),
                           "differences_impl_vs_model": d,
                           "impl": a if len(d) == 0 else None,
                           "authority": "C19_line_num_spec, C19_line_col_spec, C19_span_lines_spec (model = spec for all inputs)",
                           "replay_cmd": "echo '%s' | .work/target/release/c19" % l})
    ctx.oblige(ndiff == 0, "correspondence")
    ctx.coverage["rule"] = ("all texts over {a,é,♠,\\n,\\r} up to length %d with the whole-text feed and %d random chunking(s), "
                            "plus random longer texts incl. 4-byte chars; every byte offset (line), every char boundary "
                            "(line,col), every boundary span; non-trivial = text has a newline and a multi-byte char or CR; "
                            "distinct by canonical case line" % (maxlen, nchunk))
    ctx.coverage["exhaustive"] = False
    ctx.coverage["queries"] = sum(a.count("|") for a in impl)
    ctx.assumptions += ["[T]::binary_search returns the unique index / insertion point on strictly increasing slices",
                        "reading: 'end of the line containing the last byte' is taken as the suite pins it (offset e, an offset at a line start belongs to the line it starts)"]
