"""C19 — offsets -> lines/columns; lines-of-span never fails; error pretty-printing reports these positions.

Proof: theories/C19 (mirror of NewlineCache proved against a declarative
spec for all texts/chunkings/offsets/spans; mirror of SpannedDiagnosticFormatter
— file_location_msg, prefixed_underline_span_with_text, format_spanned,
underline_spans_on_line_with_text — proved against a declarative row
specification for all texts, spans on character boundaries and width functions
(Diag.v / DiagSpec.v / DiagProofs.v); the pinned row printer is refuted
(C19_underline_orig_*_refuted), the repaired one (notes/C19-diag-fix.diff) proved).
Tie: the extracted mirror and the implementation are run on the same chunked texts
and must print identical answers for every byte offset, every boundary and every
boundary span; the formatter is run (release and overflow-checked debug harness) on
every small text x every boundary span and compared with the mirror's rendered rows.
Extension (checks/c19_ext.py; theories/C19/Fed*.v): format_conflicts on Eco grammars whose conflicts
name productions the grammar adds (no panic, positions and rows = mirror at the spans the grammar
reports); the precondition of the lexer-level queries (LRNonStreamingLexer::new with a cache fed
another text: C19_lexer_line_col_unfed_panics, tied by the N/P cases); the in-tree example programs
built from /repo's working tree and fed erroneous stdin (no panic, printed positions = model).
"""
import concurrent.futures
import itertools
import os
from vlib import core
from checks import c19_ext

# Which variant of the SpannedDiagnosticFormatter mirror (coq/theories/C19/Diag.v) the code in
# /repo is expected to be: False = the pinned prefixed_underline_span_with_text (iterates
# str::lines()), whose deviations from the proved row specification are the known finding
# DIAG_KNOWN; True = the repaired one (notes/C19-diag-fix.diff), proved to meet the
# specification (C19_underline_rows_spec) — then every deviation alarms.
DIAG_FIXED = True
if os.environ.get("GV_C19_DIAG_FIXED") in ("0", "1"):
    DIAG_FIXED = os.environ["GV_C19_DIAG_FIXED"] == "1"
DIAG_KNOWN = ("prefixed_underline_span_with_text iterates str::lines() of the span's lines: rows after a CRLF "
              "line get the wrong start (wrong line number or panic), nothing is printed for a span on an empty "
              "last line, the last row keeps the CR of its CRLF")

ALPHA = [97, 233, 9824, 10, 13]          # a é ♠ \n \r
EXTRA = [0x1F600, 32, 0x2028, 98, 88, 89]   # 4-byte char, space, LS, b, X, Y (= lexing errors in the lexer-level queries)


def chunkings(rng, text, k):
    res = [[text]]
    for _ in range(k):
        cuts = sorted(rng.sample(range(len(text) + 1), min(len(text) + 1, rng.randint(0, 3))))
        ch, prev = [], 0
        for c in cuts:
            ch.append(text[prev:c])
            prev = c
        ch.append(text[prev:])
        res.append(ch)
    return res


def line_of(chunks):
    return "T " + " ; ".join(" ".join(str(c) for c in ch) for ch in chunks)


def dec(field):
    """a harness/model answer field: 'P' (panic) or 'x<hex of the string>'"""
    if field == "P":
        return "PANIC"
    try:
        return bytes.fromhex(field[1:]).decode()
    except Exception:
        return field


def entries(res):
    """'N len | U s e v | ... | F off v' -> {('U',s,e): v, ('F',off): v}"""
    out = {}
    for part in res.split(" | "):
        f = part.split()
        if f and f[0] in ("U", "F", "W"):
            out[tuple(f[:-1])] = f[-1]
    return out


def diag_part(ctx, exe, mexe):
    """SpannedDiagnosticFormatter: prefixed_underline_span_with_text / underline_span_with_text,
    file_location_msg (D cases) and format_spanned through format_warning (G cases), release and
    debug builds of the harness, against the extracted mirror (pinned and repaired variants)."""
    rng = ctx.rng
    exe_dbg = core.build_harness("c19", "debug")
    WIDE = [0x4E2D, 0x1F600, 32, 9, 98]           # 中 (width 2), 4-byte emoji (width 2), space, tab, b
    texts = [([97, 13, 10, 98], 0), ([97, 13, 10, 98, 99], 0), ([97, 10], 0), ([97, 13, 10], 0), ([], 0),
             ([97, 13, 10, 98, 13, 10, 99], 0), ([97, 10, 10, 98, 10], 0), ([97, 13], 0), ([97, 10], 4),
             ([10] * 11 + [97, 98, 10, 99], 3),
             # more than 64 line starts (every boundary span: the model's cost allows one short text of that kind)
             ([10] * 64 + [97, 10, 98], 0)]
    maxlen = ctx.n(5, 6)
    for n in range(0, maxlen + 1):
        for t in itertools.product(ALPHA, repeat=n):
            texts.append((list(t), 0))
    for _ in range(ctx.n(1200, 12000)):
        n = rng.randint(4, 16)
        t = [rng.choice(ALPHA + WIDE + [10, 10, 13]) for _ in range(n)]
        texts.append((t, rng.choice([0, 0, 3, 3, 4])))
    dl = ["D0 %d ; %s" % (pl, " ".join(map(str, t))) for t, pl in texts]
    # format_spanned: spans on boundaries with non-decreasing starts (the domain of
    # C19_format_spanned_spec); G<fixed><checked>
    gcases = []
    for _ in range(ctx.n(1500, 15000)):
        n = rng.randint(1, 14)
        t = [rng.choice(ALPHA + WIDE + [10, 10, 10]) for _ in range(n)]
        bs, off = [0], 0
        for cp in t:
            off += len(chr(cp).encode())
            bs.append(off)
        k = rng.randint(1, 3)
        starts = sorted(rng.choice(bs) for _ in range(k))
        spans = []
        for st in starts:
            later = [b for b in bs if b >= st]
            spans.append((st, rng.choice(later[:4])))
        gcases.append((t, spans))
    # long texts (65..120 lines): spans that begin at line starts / line ends / random boundaries
    for _ in range(ctx.n(120, 1200)):
        style = rng.choice(["lf", "lf", "crlf", "mixed"])
        t = long_text(rng, rng.choice([65, 66, 70, 90, 120]), style, rng.choice([1, 2, 3]), rng.random() < 0.5, [97, 233, 0x4E2D, 98])
        bs, off, marks = [0], 0, [0]
        for cp in t:
            off += len(chr(cp).encode())
            bs.append(off)
            if cp == 10:
                marks += [bs[-2], bs[-1]]
        starts = sorted(rng.choice(marks if rng.random() < 0.8 else bs) for _ in range(rng.randint(1, 3)))
        spans = []
        for st in starts:
            later = [b for b in bs if b >= st]
            spans.append((st, rng.choice(later[:6])))
        gcases.append((t, spans))
    def gl(flags, t, spans):
        return "G%s %s ; %s" % (flags, " ".join(map(str, t)), " ".join("%d %d" % sp for sp in spans))
    lines_h = dl + [gl("", t, sp) for t, sp in gcases]
    rel = core.run_lines([exe], lines_h)
    dbg = core.run_lines([exe_dbg], lines_h)
    m_orig = core.run_lines([mexe], dl + [gl("00", t, sp) for t, sp in gcases] + [gl("01", t, sp) for t, sp in gcases])
    m_fix = core.run_lines([mexe], [l.replace("D0", "D1", 1) for l in dl]
                           + [gl("10", t, sp) for t, sp in gcases] + [gl("11", t, sp) for t, sp in gcases])
    nd, ng = len(dl), len(gcases)
    # per case: (description, impl release, impl debug, pinned model rel/dbg, repaired model rel/dbg)
    rows = []
    for i, (t, pl) in enumerate(texts):
        rows.append(({"text": t, "prefix_len": pl}, dl[i], rel[i], dbg[i], m_orig[i], m_orig[i], m_fix[i], m_fix[i]))
    for j, (t, sp) in enumerate(gcases):
        rows.append(({"text": t, "spans": sp, "via": "format_warning"}, lines_h[nd + j], rel[nd + j], dbg[nd + j],
                     m_orig[nd + j], m_orig[nd + ng + j], m_fix[nd + j], m_fix[nd + ng + j]))
    unknown = known = nent = 0
    for desc, line, a_rel, a_dbg, o_rel, o_dbg, f_rel, f_dbg in rows:
        t = desc["text"]
        nontriv = (10 in t) and any(x > 127 or x == 13 for x in t)
        ctx.case(line, nontriv, {"case": desc, "impl": a_rel[:160]})
        ctx.count("diag_len_%d" % min(len(t), 8))
        for prof, a, o, f in (("release", a_rel, o_rel, f_rel), ("debug", a_dbg, o_dbg, f_dbg)):
            if a == f:
                nent += a.count("|")
                continue
            ea, eo, ef = entries(a), entries(o), entries(f)
            if set(ea) != set(ef):
                unknown += 1
                ctx.violation(dict(desc, profile=prof, impl=a[:400], model=f[:400], note="result shapes differ",
                                   replay_cmd="echo '%s' | .work/target/%s/c19" % (line, prof)), no_input=True)
                continue
            for k in ea:
                nent += 1
                if ea[k] == ef[k]:
                    continue
                data = dict(desc, profile=prof, query=" ".join(k),
                            impl_prints=dec(ea[k]), proved_rows_print=dec(ef[k]),
                            text_str="".join(map(chr, t)),
                            authority="C19_underline_rows_spec / C19_format_spanned_spec / C19_file_location_spec "
                                      "(the repaired mirror meets the row specification for every text and span)",
                            replay_cmd="echo '%s' | .work/target/%s/c19" % (line, prof))
                if (not DIAG_FIXED) and ea[k] == eo.get(k):
                    # exactly what the mirror of the pinned code computes: the known defect class
                    # (C19_underline_orig_*_refuted), confirmed here on the real code
                    known += 1
                    ctx.violation(data, known_key=DIAG_KNOWN)
                else:
                    unknown += 1
                    ctx.violation(data)
    ctx.oblige(unknown == 0 and known == 0, "diagnostics correspondence")
    ctx.coverage["diag_queries"] = nent
    ctx.coverage["diag_known_defect_entries"] = known
    ctx.coverage["diag_rule"] = ("SpannedDiagnosticFormatter over the whole text: every text over {a,é,♠,\\n,\\r} up to length %d "
                                 "x every boundary span (underline_span_with_text) and every boundary (file_location_msg), random "
                                 "longer texts incl. width-2 and 4-byte chars with prefixes of 0/3/4 bytes, %d random format_warning "
                                 "cases (1-3 spans with non-decreasing starts; 120 (quick) of them on texts of 65..120 lines, spans beginning at line starts / ends), "
                                 "one 67-line text with every boundary span; release and debug (overflow-checked) harness builds; "
                                 "compared entry by entry with the repaired mirror, deviations tolerated only when DIAG_FIXED is off "
                                 "and they equal the pinned mirror" % (maxlen, ng))
    ctx.assumptions += ["UnicodeWidthStr::width (unicode-width 0.1.14) is abstract in the theorems; the correspondence renders with "
                        "corpus_width, valid only for the characters used (ASCII, U+00E9, U+2660, U+4E2D, U+1F600; CR LF = 0)",
                        "str::lines()/split('\\n')/strip_suffix are modelled from their documented behaviour (Rust 1.95: a bare final CR is kept by lines())",
                        "underline_spans_on_line_with_text is private: tied only on the spans format_conflicts hands it (symbols of "
                        "reduced productions of generated conflict grammars), not on all spans"]


def conflicts_part(ctx, exe, mexe):
    """underline_spans_on_line_with_text is private: it is reached through format_conflicts on
    grammars with shift/reduce conflicts.  The harness returns the formatted text and the spans of
    each reduced production; the mirror (spans_on_line) renders the two lines printed for the spans
    of each source line, which must occur, in order, in the formatted text."""
    rng = ctx.rng
    SEPS = [" ", " ", "  ", "\n", "\r\n", "\t", " /* 中 */ ", " /* é♠ */ ", "\n\n  ", " /* a\n b */ ", "\n  "]
    TEMPLATES = [["E", ":", "E", "'+'", "E", "|", "E", "'*'", "E", "|", "'n'", ";"],
                 ["S", ":", "'if'", "E", "'then'", "S", "|", "'if'", "E", "'then'", "S", "'else'", "S", "|", "'o'", ";",
                  "E", ":", "'e'", ";"],
                 ["A", ":", "A", "A", "|", "'a'", "|", ";"]]
    srcs = ["%start E\n%%\nE: E '+' E\n | 'n'\n ;\n"]
    for _ in range(ctx.n(150, 1500)):
        tpl = rng.choice(TEMPLATES)
        nl = rng.choice(["\n", "\n", "\r\n"])
        src = "%start " + tpl[0] + nl + "%%" + nl
        for tok in tpl:
            src += tok + rng.choice(SEPS)
        srcs.append(src)
    res = core.run_lines([exe], ["C " + s_.encode().hex() for s_ in srcs])
    qlines, meta = [], []
    for src, r in zip(srcs, res):
        parts = r.split(" | ")
        if not parts[0].startswith("K "):
            continue
        tb = src.encode()
        cps = " ".join(str(ord(ch)) for ch in src)
        for q in parts[1:]:
            nums = list(map(int, q.split()[1:]))
            spans = list(zip(nums[0::2], nums[1::2]))
            groups = {}
            for sp in spans:
                groups.setdefault(tb[:sp[0]].count(b"\n"), []).append(sp)
            keys = sorted(groups)
            for gi, k in enumerate(keys):
                qlines.append("O %s ; %s" % (cps, " ".join("%d %d" % sp for sp in groups[k])))
                meta.append((src, parts[0], gi == len(keys) - 1, groups[k]))
    mres = core.run_lines([mexe], qlines) if qlines else []
    bad = 0
    cursor = {}
    for (src, k, last, spans), m in zip(meta, mres):
        ctx.case("C " + src + repr(spans), "\n" in src and len(spans) > 1, {"grammar": src, "spans": spans})
        kv, mv = k.split()[-1], m.split()[-1]
        ok = True
        if kv == "P" or mv == "P":
            ok = kv == mv
        else:
            out = bytes.fromhex(kv[1:]).decode()
            exp = bytes.fromhex(mv[1:]).decode() + " " + ("Reduced productions" if last else "") + "\n"
            pos = out.find(exp, cursor.get(src, 0))
            ok = pos >= 0
            if ok:
                cursor[src] = pos + len(exp)
        if not ok:
            bad += 1
            ctx.violation({"grammar": src, "spans_on_one_line": spans, "mirror_rows": dec(mv), "format_conflicts": dec(kv),
                           "authority": "C19_spans_on_line_spec (mirror of underline_spans_on_line_with_text)",
                           "replay_cmd": "echo 'C %s' | .work/target/release/c19" % src.encode().hex()}, no_input=True)
    ctx.oblige(bad == 0, "underline_spans_on_line_with_text through format_conflicts")
    ctx.coverage["conflict_rows"] = len(meta)
    ctx.coverage["conflict_rule"] = ("%d grammars with shift/reduce conflicts (3 templates, random separators incl. CRLF, tabs, comments with "
                                     "wide chars, line breaks inside productions); every (reduced production, source line) group of spans "
                                     "rendered by the mirror must occur in order in format_conflicts' output" % len(srcs))


def errpp_part(ctx, exe, mexe):
    """LexParseError::pp for errors that COVER text: lrlex's own lexing errors are zero-length, a hand-written lexer
    (public LRNonStreamingLexer::new + LRLexError::new) may report an error over a span (a, b), b > a (an
    unterminated comment running to the end of the input).  For every text and every boundary span a <= b the
    harness builds such a lexer with ONE lexing error of span (a, b) (PE: pp of LexParseError::LexError; PR: the
    same error handed back by RTParserBuilder::parse_map) resp. ONE unexpected lexeme of span (a, b) (PQ: pp of the
    resulting LexParseError::ParseError, no recovery); the extracted model prints the message with
    byte_to_line_col of the span's START (C19_line_col_spec applied at a)."""
    rng = ctx.rng
    texts = [[97, 98, 32, 47, 42, 32, 120], [97, 10, 47, 42, 10, 98, 10, 99, 10],
             [233, 252, 13, 10, 97, 98, 32, 47, 42, 32, 241, 13, 10, 246], []]
    maxlen = ctx.n(5, 6)
    for n in range(0, maxlen + 1):
        for t in itertools.product(ALPHA, repeat=n):
            texts.append(list(t))
    for _ in range(ctx.n(600, 6000)):
        n = rng.randint(6, 24)
        texts.append([rng.choice(ALPHA + EXTRA + [10, 10]) for _ in range(n)])
    # more than 64 line starts (every boundary span is asked: short lines)
    for nl, style in ((65, "lf"), (66, "lf"), (70, "crlf"), (80, "mixed"), (100, "lf"), (129, "lf"))[:ctx.n(6, 6)]:
        texts.append(long_text(rng, nl, style, 1, nl % 2 == 0, [97, 233]))
    lines = ["E " + " ".join(map(str, t)) for t in texts]
    impl = core.run_lines([exe], lines)
    model = core.run_lines([mexe], lines)
    nbad = nq = nspan_nonempty = ncross = 0
    for t, l, a, b in zip(texts, lines, impl, model):
        tb = "".join(map(chr, t)).encode()
        nontriv = (10 in t) and any(x > 127 or x == 13 for x in t)
        ctx.case(l, nontriv, {"text": t, "impl_equals_model": a == b, "result": a[:160]})
        ctx.count("errpp_len_%d" % min(len(t), 8))
        fa, fb = a.split(" | "), b.split(" | ")
        nq += len(fb) - 1
        for x in fb[1:]:
            f = x.split()
            if f[0] == "PE" and int(f[2]) > int(f[1]):
                nspan_nonempty += 1
                if b"\n" in tb[int(f[1]):int(f[2])]:
                    ncross += 1
        if a == b:
            continue
        nbad += 1
        if nbad > 40:
            continue
        if len(fa) != len(fb) or any(x.split()[:3] != y.split()[:3] for x, y in zip(fa[1:], fb[1:])):
            ctx.violation({"text": t, "impl": a[:400], "model": b[:400], "note": "result shapes differ",
                           "replay_cmd": "echo '%s' | .work/target/release/c19" % l}, no_input=True)
            continue
        d = []
        for x, y in zip(fa, fb):
            if x != y:
                fx, fy = x.split(), y.split()
                d.append({"error": {"PE": "lexing error (LRLexError) with span", "PR": "lexing error with span, handed back by parse_map",
                                    "PQ": "parse error at a lexeme with span"}.get(fx[0], fx[0]),
                          "span": [int(fx[1]), int(fx[2])] if len(fx) > 2 else None,
                          "covered_text": tb[int(fx[1]):int(fx[2])].decode(errors="replace") if len(fx) > 2 else None,
                          "pp_prints": dec(fx[-1]), "expected(position of the span start)": dec(fy[-1])})
        ctx.violation({"text": t, "text_str": "".join(map(chr, t)), "differences": d[:5], "n_differences": len(d),
                       "how": "LRNonStreamingLexer::new(text, vec![Err(LRLexError::new(Span::new(a, b)))] resp. "
                              "vec![Ok(DefaultLexeme::new('B', a, b - a))] for the grammar S: 'A' 'B';, NewlineCache of text); "
                              "LexParseError::pp(&lexer, ..)",
                       "authority": "C19_line_col_spec at the start offset of the error's span (line = 1 + newlines before it, "
                                    "column = 1 + characters since the line began)",
                       "replay_cmd": "echo '%s' | .work/target/release/c19" % l})
    ctx.oblige(nbad == 0, "error pretty-printing of errors covering text")
    ctx.coverage["errpp_queries"] = nq
    ctx.coverage["errpp_texts_differing"] = nbad
    ctx.coverage["errpp_lexing_errors_with_nonempty_span"] = nspan_nonempty
    ctx.coverage["errpp_lexing_errors_with_span_crossing_a_newline"] = ncross
    ctx.coverage["errpp_rule"] = ("every text over {a,é,♠,\\n,\\r} up to length %d plus %d random longer texts (incl. 4-byte chars) x "
                                  "every boundary span a <= b: pp of a lexing error of that span (direct and through parse_map) and of a "
                                  "parse error at a lexeme of that span (no recovery), lexer built with LRNonStreamingLexer::new; compared "
                                  "with the message the extracted model prints for the span's start" % (maxlen, ctx.n(600, 6000)))


# ---- long texts: more than 64 line starts (a size-dependent code path of NewlineCache must give the same answers) ----

def long_text(rng, nlines, style, maxlen, trailing, chars):
    """nlines lines of 0..maxlen characters; style: 'lf' | 'crlf' | 'mixed' (also a bare CR now and then)"""
    t = []
    for i in range(nlines):
        t += [rng.choice(chars) for _ in range(rng.randint(0, maxlen))]
        if i == nlines - 1 and not trailing:
            break
        if style == "lf":
            t.append(10)
        elif style == "crlf":
            t += [13, 10]
        else:
            t += rng.choice([[10], [10], [13, 10], [13, 10], [13, 13, 10]])
    return t


def long_texts(rng, n, budget):
    """texts with 63..300 lines of at most `budget` code points (the extracted model answers EVERY boundary span
    of a T line: its cost grows with the cube of the length)"""
    out = []
    # around the number of line starts at which a cache may change its search: 63..67 lines, with / without trailing newline
    for nl in (63, 64, 65, 66, 67, 70):
        for trailing in (False, True):
            out.append(("lf", long_text(rng, nl, "lf", 1, trailing, [97, 233])))
    out.append(("lf-empty-lines", [10] * 65))
    out.append(("lf-empty-lines", [10] * 130 + [97]))
    out.append(("crlf", long_text(rng, 66, "crlf", 1, True, [97, 9824])))
    out.append(("lf", long_text(rng, 300, "lf", 0, True, [97])[:330]))
    out.append(("lf", long_text(rng, 290, "lf", 1, False, [97, 233] + [10] * 6)[:330]))
    while len(out) < n:
        style = rng.choice(["lf", "lf", "crlf", "mixed", "mixed"])
        nl = rng.choice([65, 66, 70, 80, 100, 128, 129, 150, 200, 250])
        per = 2 if style == "crlf" else 1.4 if style == "mixed" else 1
        room = budget / nl - per                      # characters per line the budget leaves
        if room < 0:
            continue
        maxlen = min(3, int(2 * room))
        t = long_text(rng, nl, style, maxlen, rng.random() < 0.5, [97, 97, 233, 9824, 0x1F600, 88, 98])
        if len(t) > budget or t.count(10) < 64:
            continue
        out.append((style, t))
    return out


def long_queries(rng, text):
    """boundary spans to ask about: every line start, every line end (the offset of the newline, of its CR, of the
    character before), random boundaries; each alone, paired with its neighbours in that list and with random others"""
    bs, off = [0], 0
    for cp in text:
        off += len(chr(cp).encode())
        bs.append(off)
    marks = {0, bs[-1]}
    for i, cp in enumerate(text):
        if cp == 10:
            marks |= {bs[i], bs[i + 1]}
            if i > 0:
                marks.add(bs[i - 1])
    marks |= set(rng.choice(bs) for _ in range(24))
    marks = sorted(marks)
    pairs = set()
    for i, m in enumerate(marks):
        for j in (0, 1, 2, 5):
            if i + j < len(marks):
                pairs.add((m, marks[i + j]))
    for _ in range(60):
        a, b = sorted((rng.choice(marks), rng.choice(bs)))
        pairs.add((a, b))
    return sorted(pairs)


def entries_of(res):
    d = {}
    for x in res.split(" | "):
        f = x.split()
        if not f:
            continue
        if f[0] in ("B", "Y", "L"):
            d[(f[0], f[1])] = f[2:]
        elif f[0] in ("S", "LC", "SL"):
            d[(f[0], f[1], f[2])] = f[3:]
        elif f[0] == "PP":
            d[(f[0], f[1])] = f[2:]
        else:
            d[(f[0],)] = f[1:]
    return d


def long_part(ctx, exe, mexe):
    """texts of 63..300 lines (LF, CRLF, mixed; lines of 0..3 characters incl. multi-byte; with / without trailing
    newline; random chunkings): the four NewlineCache queries + NonStreamingLexer::line_col / span_lines_str +
    LexParseError::pp, at every byte offset (line, line byte), every boundary (line, column) and at spans between
    line starts / line ends / random boundaries, against the extracted model's answers for the same chunks."""
    rng = ctx.rng
    budget = 260
    texts = long_texts(rng, ctx.n(40, 400), budget)
    cases = []
    for style, t in texts:
        k = rng.choice([0, 1, 3, 6, 12])
        cuts = sorted(rng.sample(range(len(t) + 1), min(len(t) + 1, k)))
        # a cut between CR and LF when there is one
        crlf = [i + 1 for i in range(len(t) - 1) if t[i] == 13 and t[i + 1] == 10]
        if crlf and k:
            cuts = sorted(set(cuts + [rng.choice(crlf)]))
        ch, prev = [], 0
        for c in cuts:
            ch.append(t[prev:c])
            prev = c
        ch.append(t[prev:])
        cases.append((style, t, ch, long_queries(rng, t)))
    tl = [line_of(ch) for _, _, ch, _ in cases]
    ql = ["Q" + l[1:] + " @ " + " ".join("%d %d" % p for p in q) for l, (_, _, _, q) in zip(tl, cases)]
    impl = core.run_lines([exe], ql, shards=min(16, len(ql)))
    model = core.run_lines([mexe], tl, shards=min(16, len(tl)))
    nbad = nq = 0
    for (style, t, ch, q), l, a, b in zip(cases, ql, impl, model):
        tb = "".join(map(chr, t)).encode()
        nlines = t.count(10) + 1
        ctx.case(l, True, {"lines": nlines, "newlines": style, "chunks": len(ch), "spans_asked": len(q), "result": a[:120]})
        ctx.count("long_%s" % style)
        ctx.count("long_lines_%s" % ("63-64" if nlines < 65 else "65-99" if nlines < 100 else "100-199" if nlines < 200 else "200-301"))
        ea, eb = entries_of(a), entries_of(b)
        if not b.startswith("N ") or ("N",) not in ea or ea.get(("N",)) != eb.get(("N",)):
            nbad += 1
            ctx.violation({"text": t, "chunks": ch, "impl": a[:300], "model": b[:300], "note": "no comparable answers",
                           "replay_cmd": "echo '%s' | .work/target/release/c19" % l[:100000]}, no_input=not a.startswith("FEEDPANIC"))
            continue
        L = {int(k[1]): tuple(v) for k, v in eb.items() if k[0] == "L"}
        bad = []
        for k, v in ea.items():
            nq += 1
            if k[0] in ("B", "Y", "L", "S"):
                if eb.get(k) != v:
                    bad.append({"query": {"B": "byte_to_line_num", "Y": "byte_to_line_byte", "L": "byte_to_line_num_and_col_num",
                                          "S": "span_line_bytes"}[k[0]], "at": list(map(int, k[1:])), "impl": " ".join(v),
                                "model": " ".join(eb.get(k, ["(no answer)"]))})
            elif k[0] == "LC":
                s_, e_ = int(k[1]), int(k[2])
                exp = list(L.get(s_, ("?", "?"))) + list(L.get(e_, ("?", "?")))
                if v != exp:
                    bad.append({"query": "NonStreamingLexer::line_col", "at": [s_, e_], "impl": " ".join(v), "model": " ".join(exp)})
            elif k[0] == "SL":
                se = eb.get(("S", k[1], k[2]))
                if se and len(se) == 2:
                    st, en = int(se[0]), int(se[1])
                    if v != ([tb[st:en].hex()] if en > st else []):
                        bad.append({"query": "NonStreamingLexer::span_lines_str", "at": [int(k[1]), int(k[2])],
                                    "impl": " ".join(v), "model": tb[st:en].hex()})
            elif k[0] == "PP":
                exp = "Lexing error at line %s column %s." % L.get(int(k[1]), ("?", "?"))
                if v != [exp.encode().hex()]:
                    bad.append({"query": "LexParseError::pp of the lexing error at", "at": [int(k[1])], "impl": dec("x" + v[0]) if v else "", "model": exp})
        if bad:
            nbad += 1
            if nbad <= 6:
                ctx.violation({"text": t, "text_str": "".join(map(chr, t)), "lines": nlines, "chunks": ch, "differences": bad[:6],
                               "n_differences": len(bad),
                               "authority": "C19_line_num_spec, C19_line_col_spec, C19_span_lines_spec (model = spec for all inputs)",
                               "replay_cmd": "echo '%s' | .work/target/release/c19" % l})
    ctx.oblige(nbad == 0, "correspondence on long texts")
    ctx.coverage["long_texts"] = len(cases)
    ctx.coverage["long_queries"] = nq
    ctx.coverage["long_rule"] = ("%d texts of 63..300 lines (at most %d code points, two 300-line texts 330: the model answers every boundary span), LF / CRLF / mixed "
                                 "(incl. CR CR LF) line ends, lines of 0..3 characters over {a,é,♠,4-byte,X,b}, with and without trailing "
                                 "newline, 0..13 random chunk cuts (one between a CR and its LF); byte_to_line_num / byte_to_line_byte at "
                                 "every byte offset and one past the end, line/column at every boundary, span_line_bytes + lexer-level "
                                 "line_col / span_lines_str at spans between every line start, line end, their neighbours and random "
                                 "boundaries, pp of the lexing errors" % (len(cases), budget))


def run(ctx):
    ctx.gate = core.proof_gate("C19")
    for _ in ctx.gate["theorems"]:
        ctx.oblige(True)
    exe = core.build_harness("c19")
    mexe = core.build_model("c19")
    # the in-tree example programs are built in the background (own target directory; a cold build takes 1-2 min)
    pool = concurrent.futures.ThreadPoolExecutor(max_workers=1)
    ex_pkgs = ["calc_manual_lex"] if ctx.quick else sorted(c19_ext.EXAMPLES)
    ex_limit = int(os.environ.get("GV_C19_EXAMPLES_BUILD_LIMIT", "240" if ctx.quick else "2400"))
    ex_fut = pool.submit(c19_ext.build_examples, ex_pkgs, ex_limit)
    rng = ctx.rng
    cases = []
    # corpus first
    corpus = [[[97, 10, 98, 10, 99]], [[97, 10, 98], [10, 99]], [[97, 13], [10, 98]], [[13, 10, 10]], [[]], [[], []]]
    for c in corpus:
        cases.append(c)
    maxlen = ctx.n(5, 7)
    nchunk = ctx.n(1, 2)
    for n in range(0, maxlen + 1):
        for t in itertools.product(ALPHA, repeat=n):
            for ch in chunkings(rng, list(t), nchunk):
                cases.append(ch)
    for _ in range(ctx.n(1500, 20000)):
        n = rng.randint(6, 40)
        t = [rng.choice(ALPHA + EXTRA + [10, 10]) for _ in range(n)]
        for ch in chunkings(rng, t, 1)[1:]:
            cases.append(ch)
    lines = [line_of(c) for c in cases]
    impl = core.run_lines([exe], lines)
    model = core.run_lines([mexe], lines)
    ndiff = 0
    # the lexer-level queries (NonStreamingLexer::line_col / span_lines_str, LexParseError::pp)
    # are derived from the model's cache-level answers: line_col(s,e) = (L s, L e),
    # span_lines_str(s,e) = text[st..en] with (st,en) = S s e, pp = "Lexing error at line l column c."
    impl_full = impl
    impl = []
    for c, a, b in zip(cases, impl_full, model):
        parts = a.split(" | ")
        base = [x for x in parts if not x[:3] in ("LC ", "SL ", "PP ")]
        lexq = [x for x in parts if x[:3] in ("LC ", "SL ", "PP ")]
        impl.append(" | ".join(base))
        text = [x for ch in c for x in ch]
        tb = "".join(map(chr, text)).encode()
        L, S = {}, {}
        for x in b.split(" | "):
            f = x.split()
            if f[0] == "L":
                L[int(f[1])] = (f[2], f[3])
            elif f[0] == "S" and len(f) == 5:
                S[(int(f[1]), int(f[2]))] = (int(f[3]), int(f[4]))
        bad = []
        for x in lexq:
            f = x.split()
            if f[0] == "LC":
                s_, e_ = int(f[1]), int(f[2])
                exp = [L.get(s_, ("?", "?"))[0], L.get(s_, ("?", "?"))[1], L.get(e_, ("?", "?"))[0], L.get(e_, ("?", "?"))[1]]
                if f[3:] != exp:
                    bad.append((x, "expected " + " ".join(exp)))
            elif f[0] == "SL":
                s_, e_ = int(f[1]), int(f[2])
                if (s_, e_) in S:
                    st, en = S[(s_, e_)]
                    if f[3:] != ([tb[st:en].hex()] if en > st else []):
                        bad.append((x, "expected " + tb[st:en].hex()))
            elif f[0] == "PP":
                off = int(f[1])
                exp = ("Lexing error at line %s column %s." % L.get(off, ("?", "?"))).encode().hex()
                if f[2:] != [exp]:
                    bad.append((x, "expected " + bytes.fromhex(exp).decode()))
        ctx.coverage["lexer_queries"] = ctx.coverage.get("lexer_queries", 0) + len(lexq)
        if bad:
            ndiff += 1
            ctx.violation({"chunks": c, "text": "".join(map(chr, text)), "lexer_level_differences": bad[:5],
                           "authority": "C19_line_col_spec, C19_span_lines_spec applied through NonStreamingLexer::line_col/span_lines_str/LexParseError::pp"})
    for c, l, a, b in zip(cases, lines, impl, model):
        text = [x for ch in c for x in ch]
        nontriv = (10 in text) and any(x > 127 or x == 13 for x in text)
        ctx.case(l, nontriv, {"chunks": c, "impl_equals_model": a == b, "result": a[:160]})
        ctx.count("len_%d" % min(len(text), 8))
        ctx.count("chunks_%d" % len(c))
        if a != b:
            ndiff += 1
            fa, fb = a.split(" | "), b.split(" | ")
            d = [(x, y) for x, y in zip(fa, fb) if x != y][:5]
            # the model is proved to meet the declarative spec (Properties/C19.v), so a
            # difference is a concrete text/offset on which the implementation is wrong
            ctx.violation({"chunks": c, "text": "".join(map(chr, text)),
                           "differences_impl_vs_model": d,
                           "impl": a if len(d) == 0 else None,
                           "authority": "C19_line_num_spec, C19_line_col_spec, C19_span_lines_spec (model = spec for all inputs)",
                           "replay_cmd": "echo '%s' | .work/target/release/c19" % l})
    ctx.oblige(ndiff == 0, "correspondence")
    long_part(ctx, exe, mexe)
    diag_part(ctx, exe, mexe)
    conflicts_part(ctx, exe, mexe)
    errpp_part(ctx, exe, mexe)
    c19_ext.added_conflicts_part(ctx, exe, core.build_harness("c19", "debug"), mexe)
    c19_ext.unfed_part(ctx, exe, core.build_harness("c19", "debug"), mexe)
    c19_ext.examples_part(ctx, mexe, ex_fut)
    pool.shutdown(wait=False)
    ctx.coverage["rule"] = ("all texts over {a,é,♠,\\n,\\r} up to length %d with the whole-text feed and %d random chunking(s), "
                            "plus random longer texts incl. 4-byte chars; every byte offset (line), every char boundary "
                            "(line,col), every boundary span; non-trivial = text has a newline and a multi-byte char or CR; "
                            "distinct by canonical case line" % (maxlen, nchunk))
    ctx.coverage["exhaustive"] = False
    ctx.coverage["queries"] = sum(a.count("|") for a in impl)
    ctx.assumptions += ["[T]::binary_search returns the unique index / insertion point on strictly increasing slices",
                        "reading: 'end of the line containing the last byte' is taken as the suite pins it (offset e, an offset at a line start belongs to the line it starts)"]
