"""C19 — offsets -> lines/columns; lines-of-span never fails.

Proof: theories/C19 (mirror of NewlineCache proved against a declarative
spec for all texts/chunkings/offsets/spans).  Tie: the extracted mirror and the
implementation are run on the same chunked texts and must print identical
answers for every byte offset, every boundary and every boundary span.
"""
import itertools
from vlib import core

ALPHA = [97, 233, 9824, 10, 13]          # a é ♠ \n \r
EXTRA = [0x1F600, 32, 0x2028, 98]         # 4-byte char, space, LS, b


def chunkings(rng, text, k):
    res = [[text]]
    for _ in range(k):
        cuts = sorted(rng.sample(range(len(text) + 1), min(len(text) + 1, rng.randint(0, 3))))
        ch, prev = [], 0
        for c in cuts:
            ch.append(text[prev:c])
            prev = c
        ch.append(text[prev:])
        res.append(ch)
    return res


def line_of(chunks):
    return " ; ".join(" ".join(str(c) for c in ch) for ch in chunks)


def run(ctx):
    ctx.gate = core.proof_gate("C19")
    for _ in ctx.gate["theorems"]:
        ctx.oblige(True)
    exe = core.build_harness("c19")
    mexe = core.build_model("c19")
    rng = ctx.rng
    cases = []
    # corpus first
    corpus = [[[97, 10, 98, 10, 99]], [[97, 10, 98], [10, 99]], [[97, 13], [10, 98]], [[13, 10, 10]], [[]], [[], []]]
    for c in corpus:
        cases.append(c)
    maxlen = ctx.n(5, 7)
    nchunk = ctx.n(1, 2)
    for n in range(0, maxlen + 1):
        for t in itertools.product(ALPHA, repeat=n):
            for ch in chunkings(rng, list(t), nchunk):
                cases.append(ch)
    for _ in range(ctx.n(1500, 20000)):
        n = rng.randint(6, 40)
        t = [rng.choice(ALPHA + EXTRA + [10, 10]) for _ in range(n)]
        for ch in chunkings(rng, t, 1)[1:]:
            cases.append(ch)
    lines = [line_of(c) for c in cases]
    impl = core.run_lines([exe], lines)
    model = core.run_lines([mexe], lines)
    ndiff = 0
    for c, l, a, b in zip(cases, lines, impl, model):
        text = [x for ch in c for x in ch]
        nontriv = (10 in text) and any(x > 127 or x == 13 for x in text)
        ctx.case(l, nontriv, {"chunks": c, "impl_equals_model": a == b, "result": a[:160]})
        ctx.count("len_%d" % min(len(text), 8))
        ctx.count("chunks_%d" % len(c))
        if a != b:
            ndiff += 1
            fa, fb = a.split(" | "), b.split(" | ")
            d = [(x, y) for x, y in zip(fa, fb) if x != y][:5]
            # the model is proved to meet the declarative spec (Properties/C19.v), so a
            # difference is a concrete text/offset on which the implementation is wrong
            ctx.violation({"chunks": c, "text": "".join(map(chr, text)),
                           "differences_impl_vs_model": d,
                           "impl": a if len(d) == 0 else None,
                           "authority": "C19_line_num_spec, C19_line_col_spec, C19_span_lines_spec (model = spec for all inputs)",
                           "replay_cmd": "echo '%s' | .work/target/release/c19" % l})
    ctx.oblige(ndiff == 0, "correspondence")
    ctx.coverage["rule"] = ("all texts over {a,é,♠,\\n,\\r} up to length %d with the whole-text feed and %d random chunking(s), "
                            "plus random longer texts incl. 4-byte chars; every byte offset (line), every char boundary "
                            "(line,col), every boundary span; non-trivial = text has a newline and a multi-byte char or CR; "
                            "distinct by canonical case line" % (maxlen, nchunk))
    ctx.coverage["exhaustive"] = False
    ctx.coverage["queries"] = sum(a.count("|") for a in impl)
    ctx.assumptions += ["[T]::binary_search returns the unique index / insertion point on strictly increasing slices",
                        "reading: 'end of the line containing the last byte' is taken as the suite pins it (offset e, an offset at a line start belongs to the line it starts)"]
