"""C02 — state minimisation never costs an LR(1) grammar its determinism.

Proofs (Properties/C02.v).
 * validated_automata_agree (theories/LR/Agree.v): two automata for one productive grammar that both pass
   validS/validC/validE give, for ALL inputs, the same tree or the same first-error position.
 * Pager's weak compatibility (theories/C02/{Model,Spec,Proofs}.v): the mirror of Itemset::weakly_compatible decides
   Pager's definition for every hash order; the mirror of weakly_merge is the item-by-item union with an exact flag.
 * Pager's merge-safety theorem (theories/C02/Pager*.v) on the declarative LR(1) closure/goto of LR/CloseSpec.v:
   closure/goto/continuations are linear in the contexts; merging weakly compatible kernels whose canonical
   continuations are conflict-free gives a kernel whose continuation is conflict-free (weak_merge_safe); every kernel
   reachable by goto + weak merges from the start kernel of an LR(1) grammar is conflict-free
   (pager_reachable_conflict_free).
 * lr1_check (theories/C02/Lr1*.v): a proved-sound executable certificate checker for "the grammar is LR(1)".
 * pager_mirror (theories/C02/Loop*.v): mirror of pager_stategraph + gc, the only result-relevant hash order (key order of
   the closed set being processed) an oracle input.  For EVERY oracle: the loop terminates (pager_mirror_terminates), no
   indexing/unwrap panic site is reachable (pager_mirror_never_panics; only the StorageT size checks remain), every core
   state of the result is Pager-reachable and every closed state the exact closure of its core, the edges are exactly
   the non-empty gotos up to inclusion of contexts (edges_complete / edges_sound).
 * induced automaton (theories/C02/Induced*.v): the table read off such a graph passes validS/validE, and for an LR(1)
   grammar validC and single_candidate (pager_mirror_validated, pager_construction_correct); hence it agrees on every
   input with any validated automaton of the grammar, e.g. the canonical one (pager_parser_agrees(_certified)).
Per generated grammar: the canonical LR(1) automaton is built by the extracted `canon_lr1`, VALIDATED and certified by
lr1_check (so "the grammar is LR(1)" is certified, not assumed); the implementation's Pager automaton is validated too,
must report no conflict, must not have more states, and both are run on the same inputs.  Ties: checks/c02_weak.py
(weakly_compatible / weakly_merge through the cfg(grmtools_verif) hooks, on real core states and perturbed item sets)
and checks/c02_loop.py (pager_mirror replays the implementation's recorded hash orders and must rebuild the identical
StateGraph).
Still decided per generated grammar only: that the implementation's run IS the mirror's run (replay: identical graph)
and that StateTable::new builds the induced table (cell-by-cell comparison on conflict-free grammars; validators on the
dumped table); "never more states than the canonical automaton".
TEXTBOOK LR(1) (checks/c02_phantom.py, theories/C02/Textbook*.v, Phantom*.v).  `lr1_grammar`, `canon_lr1` and the validators'
closure condition follow the code's closure, in which an item exists below its parent even with an EMPTY lookahead set; the
property's premise is the textbook notion (single-lookahead items).  lr1_textbook_grammar states it, lr1_textbook_check is
its proved-sound certificate, C02_lr1_notions_agree_productive: the two notions coincide when every rule derives a token
string (all grammars generated above are reduced), C02_phantom_item_costs_determinism_refuted: they do not otherwise — KNOWN
FINDING: a grammar with an unproductive rule of empty FIRST after a rule reference can be textbook-LR(1) and still get a
reported conflict, more states than the canonical collection and a rejected sentence.  That part runs an independent
textbook oracle (triples), the certified extracted canon_tb, and a generator family with unproductive rules.
"""
import time
from vlib import core, lr, cfg
from gen import grammars as G
from checks import c02_weak, c02_loop, c02_phantom, c02_count


def gen_cases(ctx, n_grammars, n_inputs):
    rng = ctx.rng
    cases = [(g, G.inputs_for(rng, g, n_inputs)) for g in G.classic_corpus() if g.is_reduced()]
    for src, ins, _ in G.rare_shape_corpus():
        g = G.from_text(src)
        if g.is_reduced() and not g.derives_cycle():
            ctx.count("family_rare_shapes")
            cases.append((g, [list(x) for x in ins] + G.inputs_for(rng, g, n_inputs)))
    for src in G.gc_chain_corpus()[:ctx.n(15, 60)] + G.gc_corpus()[:ctx.n(40, 120)]:
        g = G.from_text(src)
        if g.is_reduced() and not g.derives_cycle():
            ctx.count("family_gc_corpus")
            cases.append((g, G.inputs_for(rng, g, n_inputs)))
    fams = [("notlalr", lambda: G.not_lalr_template(rng)),
            ("reduced", lambda: G.reduced_random_grammar(rng)),
            ("reduced_big", lambda: G.reduced_random_grammar(rng, nrules=rng.randint(4, 7), ntoks=rng.randint(2, 5))),
            ("nullable", lambda: G.nullable_heavy(rng)),
            ("exprnoprec", lambda: G.expr_grammar(rng, with_prec=False)),
            ("layered", lambda: G.layered_grammar(rng).reduced()),
            ("chain", lambda: G.chain_grammar(rng).reduced()),
            ("notlalr3", lambda: G.not_lalr_multi(rng).reduced()),
            ("depthmerge", lambda: G.depth_merge_grammar(rng).reduced())]
    while len(cases) < n_grammars:
        name, f = rng.choices(fams, [6, 5, 3, 3, 1, 5, 3, 6, 4])[0]
        g = f()
        if g is None or not g.is_reduced() or g.derives_cycle():
            continue
        ctx.count("family_" + name)
        cases.append((g, G.inputs_for(rng, g, n_inputs)))
    return cases


def run(ctx):
    ctx.gate = core.proof_gate("C02")
    for _ in ctx.gate["theorems"]:
        ctx.oblige(True)
    cases = gen_cases(ctx, ctx.n(250, 3000), ctx.n(40, 100))
    results = lr.run_cases(cases)
    mexe = core.build_model("lr")
    canon = core.run_lines([mexe, "canon"], [r.impl_line for r in results], timeout=2400)
    # the premise "the grammar is LR(1)" certified by the proved-sound checker lr1_check (C02_lr1_check_sound):
    # lr1_check g (canon_lr1 g) = true  ->  lr1_grammar g  ->  (C02_pager_reachable_conflict_free) no kernel of a
    # Pager-style construction has a conflict
    cert = core.run_lines([core.build_model("c02"), "lr1"], [r.impl_line for r in results], timeout=2400)
    n_lr1 = n_notlalr_like = 0
    cnt = {k: 0 for k in ("graphs", "count_exceeds_canonical", "theorem_distinct_cores", "theorem_path_function",
                          "observed_injection_exists_path_function_fails", "observed_count_only", "equal_counts",
                          "python_canonical_differs_from_canon_lr1", "max_margin", "min_margin", "wall_s")}
    for r, cl, ce in zip(results, canon, cert):
        if not r.ok:
            ctx.count("grammar_rejected_" + r.err.split()[0])
            if r.err.startswith("BUILDPANIC"):
                # as checks/C01.py check_results: a panic inside from_yacc on a valid generated grammar is a verdict
                ctx.violation({"what": "table construction panicked on a valid generated grammar", "grammar": r.src,
                               "impl": r.err}, no_input=False)
                ctx.oblige(False)
            continue
        secs = lr.sections(cl)
        head = secs[0]
        if head[:2] == ["B", "none"] or head[0] != "B":
            ctx.count("canon_too_big_or_failed")
            continue
        kv = dict(x.split("=") for x in head[1:])
        nB, confB = int(kv["n"]), int(kv["conflicts"])
        b_valid = all(kv[k] == "1" for k in ("wf", "S", "C", "E")) if confB == 0 else all(kv[k] == "1" for k in ("wf", "S", "E"))
        if not b_valid:
            # the reference automaton itself is not certified: machinery problem, never an impl verdict
            ctx.violation({"what": "canonical LR(1) reference failed its own validation", "grammar": r.src, "canon": cl[:300]},
                          no_input=True)
            ctx.oblige(False)
            continue
        g = cfg.DGram(r.secs)
        why = []
        no_input = True
        if r.nstates > nB:
            why.append("minimised automaton has %d states, canonical LR(1) has %d" % (r.nstates, nB))
            no_input = False                       # the grammar itself is the witness
        # last clause: which argument covers THIS graph (checks/c02_count.py; the verdict is the count above)
        t0_ev = time.time()
        ev = c02_count.evaluate(g, r.secs, nB)
        cnt["wall_s"] = round(cnt["wall_s"] + time.time() - t0_ev, 3)
        if r.nstates > nB:
            cnt["count_exceeds_canonical"] += 1
        elif ev["distinct_cores"]:
            cnt["theorem_distinct_cores"] += 1
        elif ev["path_function"]:
            cnt["theorem_path_function"] += 1
        elif ev["hall"]:
            cnt["observed_injection_exists_path_function_fails"] += 1
        else:
            cnt["observed_count_only"] += 1
        if "canon_mismatch" in ev:
            cnt["python_canonical_differs_from_canon_lr1"] += 1
        if r.nstates == nB:
            cnt["equal_counts"] += 1
        cnt["graphs"] += 1
        cnt["max_margin"] = max(cnt["max_margin"], nB - r.nstates)
        cnt["min_margin"] = min(cnt["min_margin"], nB - r.nstates) if cnt["graphs"] > 1 else nB - r.nstates
        ckv = dict(x.split("=") for x in ce.split()[1:] if "=" in x)
        if confB == 0 and ckv.get("lr1check") != "1":
            # machinery, never an impl verdict: the certificate for the premise does not check
            ctx.violation({"what": "canon_lr1 reports no conflict but the proved-sound LR(1) certificate checker lr1_check rejects its automaton",
                           "grammar": r.src, "canon": head, "lr1_check": ce[:200]}, no_input=True)
            ctx.oblige(False)
            continue
        if confB != 0 and ckv.get("lr1check") == "1":
            ctx.violation({"what": "lr1_check accepts an automaton in which canon_lr1 counts conflicts",
                           "grammar": r.src, "canon": head, "lr1_check": ce[:200]}, no_input=True)
            ctx.oblige(False)
            continue
        if confB == 0:
            n_lr1 += 1
            ctx.count("lr1")
            ctx.count("lr1_certified_by_lr1_check")
            if r.nstates < nB:
                ctx.count("lr1_with_merges")
            if r.conflicts is not None:
                why.append("grammar is LR(1) (validated canonical automaton, %d states, no conflict) but construction reports %s conflicts"
                           % (nB, r.conflicts))
                no_input = False
            outsB = [" ".join(s[1:]) for s in secs if s and s[0] == "O"]
            for toks, io, bo in zip(r.inputs, r.impl_out, outsB):
                a = io.split(" nerr=")[0]
                same = (a == bo) if a.startswith("acc") or bo.startswith("acc") else (a.split()[:2] == bo.split()[:2])
                if not same and bo != "fuel":
                    why.append("input %s: implementation %s, canonical LR(1) parser %s" % (toks, io, bo))
                    no_input = False
                    break
            need = [k for k in ("S", "C", "E") if not r.verdict.get(k, False)]
            if need and r.conflicts is None:
                why.append("validators %s reject the implementation's automaton (theorem validated_automata_agree not applicable)" % need)
        else:
            ctx.count("not_lr1")
        if why:
            ctx.violation({"what": "; ".join(why), "grammar": r.src, "impl_states": r.nstates, "canonical_states": nB,
                           "impl_conflicts": r.conflicts, "validators_impl": r.verdict, "canonical": head}, no_input=no_input)
        ctx.oblige(not why)
        nontriv = confB == 0 and r.nstates >= 4
        ctx.case(r.src, nontriv, {"grammar": r.src, "impl_states": r.nstates, "canonical_states": nB,
                                  "lr1": confB == 0, "inputs": len(r.inputs)})
    # the TEXTBOOK canonical collection as the reference (triples oracle + certified canon_tb), grammars with unproductive rules
    c02_phantom.run_part(ctx, results)
    count_known_part(ctx, mexe)
    # stage 1 tie, after the property-level comparison so that counterexamples are reported first
    c02_weak.run_part(ctx, results)        # weakly_compatible / weakly_merge vs mirror vs Pager's definition
    c02_loop.run_part(ctx, results)        # pager_stategraph vs its mirror, replaying the implementation's trace
    ctx.coverage["lr1_grammars"] = n_lr1
    ctx.coverage["states_le_canonical"] = dict(cnt, rule=(
        "per generated grammar, on the implementation's StateGraph: the VERDICT is impl_states <= canonical_states (canon_lr1, "
        "validated per grammar); beside it, which argument covers the graph: theorem_distinct_cores = no two states with the "
        "same cores (C02_pager_states_le_canonical_distinct_cores applies), theorem_path_function = the named condition of "
        "C02_pager_states_le_canonical_partial evaluated true on the product canonical automaton x graph, "
        "observed_injection_exists = path_function fails but a matching state -> covered canonical state exists, "
        "observed_count_only = none of these evaluated; margin = canonical - impl; the full statement "
        "pager_states_le_canonical_stmt (theories/C02/CountSpec.v) is NOT proved"))
    ctx.coverage["rule"] = ("reduced acyclic grammars, emphasis on LR(1)-not-LALR(1) templates (and embeddings), random reduced grammars, "
                            "nullable-heavy; canonical LR(1) built by extracted canon_lr1 and validated per grammar; "
                            "non-trivial = LR(1) grammar with >= 4 states; distinct by grammar text")
    ctx.assumptions += ["'is LR(1)' := lr1_grammar g (no state of the canonical continuation of the start kernel has two candidate "
                        "actions on a token); per grammar certified by lr1_check (proved sound) on canon_lr1's validated automaton",
                        "the theorems about Pager's construction are about the MIRROR pager_mirror (hash order of the processed closed "
                        "set = oracle input, FIRST/nullable = exact tables, gc = functional model) and the table INDUCED by its graph; "
                        "that the implementation's run is the mirror's run and that StateTable::new builds the induced table is "
                        "decided per generated grammar (replay of the recorded trace: identical graph; cell-by-cell table comparison)",
                        "'never more states than the canonical automaton' is decided per generated grammar only (proved: for graphs "
                        "without two states of equal cores, and under the named condition path_function; CountSpec.v)",
                        "lr1_grammar is stated over the closure that follows Itemset::close (items without lookahead exist); it is the "
                        "textbook notion exactly on productive grammars (C02_lr1_notions_agree_productive); on grammars with an "
                        "unproductive rule the premise is decided by the textbook oracle / lr1_textbook_check and the theorems about the "
                        "construction do not apply (known finding C02-phantom-item-unproductive-rule)"]


# ---- known finding (third session): more states than the canonical automaton on grammars with unproductive rules ----
KNOWN_COUNT = "more states than the canonical LR(1) automaton on a grammar with unproductive rules"
COUNT_WITNESSES = [
    "%start S\n%%\nS: 't1' C B | A A 't5' 't5' A | 't1' B 't3';\nA: B B | A C;\nB: A B | B A;\nC: B B A | A B;\n",
    "%start S\n%%\nS: 't1' C B 't0' 't6' | A A 't4' | 't1' B 't0' S | 't6' C;\nA: B B | A A A;\nB: A B | B A;\nC: B B;\n",
]


def count_known_part(ctx, mexe):
    """The two witness grammars of notes/ext-c02count-design.md (every rule but S unproductive), in every run: implementation
    states vs the validated canon_lr1.  impl > canonical on them is the KNOWN class (unproductive rule present, reference
    validated); the generators of the main run only produce reduced grammars, where impl > canonical stays a VIOLATION."""
    cases = [(G.from_text(src), []) for src in COUNT_WITNESSES]
    results = lr.run_cases(cases)
    canon = core.run_lines([mexe, "canon"], [r.impl_line for r in results], timeout=600)
    hits = []
    for r, cl in zip(results, canon):
        if not r.ok:
            ctx.count("count_witness_rejected_" + r.err.split()[0])
            continue
        head = lr.sections(cl)[0]
        if head[:2] == ["B", "none"] or head[0] != "B":
            ctx.count("count_witness_canon_failed")
            continue
        kv = dict(x.split("=") for x in head[1:])
        nB = int(kv["n"])
        valid = all(kv.get(k) == "1" for k in ("wf", "S", "E"))
        g = cfg.DGram(r.secs)
        ctx.count("count_witness_grammars")
        if valid and r.nstates > nB and not g.all_productive():
            hits.append((r, nB))
            ctx.violation({"what": "minimised automaton has %d states, canonical LR(1) has %d; the grammar has unproductive rules"
                                   % (r.nstates, nB), "grammar": r.src, "impl_states": r.nstates, "canonical_states": nB},
                          known_key=KNOWN_COUNT)
    if hits:
        r, nB = hits[0]
        for i, k in enumerate(ctx.known_hits):
            if k.get("match") == KNOWN_COUNT:
                k = dict(k)
                k["note"] = "%s (%d grammars, first: `%s`: implementation %d states, canonical %d)" % (
                    KNOWN_COUNT, len(hits), " ".join(r.src.split()), r.nstates, nB)
                ctx.known_hits[i] = k
    ctx.coverage["count_known_finding_witnesses"] = {"grammars": len(COUNT_WITNESSES), "reproduced": len(hits)}
