"""C10 half (b), round trip — the tie of the print-then-parse theorem to the implementation.

The theorem being proved (C10/YpRoundSpec.v, YpRound*.v) says: for every abstract grammar `ag`
and layout `lay` with `wf_agram k ag` and `wf_layout lay ag`

    run_case true fa fp fu k (print lay ag) = Done (TResult (ast_of fa fp lay ag) [] (warnings_of fa fp fu lay ag))

for each of the three dialects k (Original, Grmtools: every rule block carries `-> type`; Eco: %implicit_tokens) and
every declaration kind (%start %token %left/%right/%nonassoc %epp %avoid_insert %expect %expect-rr %actiontype
%parse-param %parse-generics %expect-unused %implicit_tokens) plus the programs section.

This check makes that statement speak about /repo.  Random (ag, lay) pairs that satisfy the
hypotheses (checked here by an independent Python implementation of wf_agram / wf_layout:
a generator bug is an assertion failure, never a violation) and use all the freedom they leave are

 (a) printed and given their AST by the EXTRACTED Coq definitions (ocaml/c10round: `print`,
     `ast_of`, `warnings_of` of C10/YpPrint.v) — text + expected transcript;
 (b) printed again by an independent Python printer written from the path scheme: equal texts;
 (c) parsed by the real parser (harness binary c10yp, ASTWithValidityInfo::new): its transcript
     (BADSPAN sections are harness-only) must be the expected transcript, as strings;
 (d) parsed by the extracted Coq mirror of the parser (ocaml/c10yp, repaired comment scanner):
     its transcript must be the expected one too — that is the theorem's statement itself,
     evaluated on the pair; a difference there means the statement is false for that pair.
 (e) the witnesses of the `_refuted` theorems (what the code drops without an error, outside the hypotheses:
     FINDING_PROBES) are replayed on the implementation and on the mirror.
The dialect is handed to the parser through the API (ASTWithValidityInfo::new(kind, text)), as the harness does; a
`%grmtools{..}` section in the text is the domain of the header mirror (C12).
"""
from vlib import core
from checks.c10_parser import strip_bad, badspans_are_action_spans

# After the proposed action-span repair is applied to /repo set this to True (as in c10_parser.py):
# the expected AST is then computed with fa = true and the mirror is run in its repaired variant.
ACTION_SPAN_FIXED = False
# /repo 69c4b9b (production span ends with the last item also before an action): the expected AST is computed with
# fp = true and the mirror run in that variant; False = the pinned code (span up to the action's brace)
PROD_SPAN_FIXED = True
# /repo 4ff022d: %prec tokens of reachable productions count as used (YpModel.seen_prec; third digit of the c10round wire flags)
PREC_USED_FIXED = True
MODEL_FLAGS = " fc" + (" fa" if ACTION_SPAN_FIXED else "") + (" fp" if PROD_SPAN_FIXED else "") + (" fu" if PREC_USED_FIXED else "")

QCH = {"b": "'", "s": "'", "d": '"'}          # YpPrint.qchar (QBare is mapped to the single quote)
ALPHA_ = "abcdefghijklmnopqrstuvwxyzABCDEFGHIJKLMNOPQRSTUVWXYZ_"
DIGITS = "0123456789"
# char::is_whitespace (YpModel.is_whitespace)
WS = ["\t", "\n", "\x0b", "\x0c", "\r", " ", "\x85", "\xa0", "\u1680"] + [chr(c) for c in range(0x2000, 0x200b)] + \
     ["\u2028", "\u2029", "\u202f", "\u205f", "\u3000"]
WSSET = set(WS)
U64MAX = 2 ** 64 - 1


# =====================================================================================
#  independent Python implementation of the well-formedness conditions (YpRoundSpec.v)
# =====================================================================================
def is_ident(n):
    return n != "" and n[0] in ALPHA_ and all(c in ALPHA_ or c in DIGITS for c in n[1:])


def is_name(n):
    return n != "" and (n[0] in ALPHA_ or n[0] == ".") and all(c in ALPHA_ or c in DIGITS or c == "." for c in n[1:])


def count_nl(s):
    return sum(1 for c in s if c in "\n\r")


def layout_items(s):
    """the items of a layout text — blanks, `//...<nl>`, `/*...*/` (YpSpec.layout_item) — or None"""
    i, n, items = 0, len(s), []
    while i < n:
        c = s[i]
        if c in " \t\n\r":
            items.append(("blank", c))
            i += 1
        elif s.startswith("//", i):
            j = i + 2
            while j < n and s[j] not in "\n\r":
                j += 1
            if j >= n:
                return None                       # a line comment ends with its newline character
            items.append(("line", s[i:j + 1]))
            i = j + 1
        elif s.startswith("/*", i):
            j = s.find("*/", i + 2)
            if j < 0:
                return None
            items.append(("block", s[i:j + 2]))
            i = j + 2
        else:
            return None
    return items


def layout_text(s):
    return layout_items(s) is not None


def line_gap(s):
    """YpSpec.line_layout: blanks, block comments without newline, line comments (with their newline)"""
    items = layout_items(s)
    return items is not None and all(k == "line" or count_nl(t) == 0 for k, t in items)


def nl_gap(s):
    return layout_text(s) and s[:1] in ("\n", "\r")


def first_ok(c):
    return c not in " \t\n\r/"


def item_start(s):
    return s == "" or first_ok(s[0])


def colon_scan(t):
    i = 0
    while i < len(t):
        if t[i] == ":":
            if i + 1 < len(t) and t[i + 1] == ":":
                i += 2
                continue
            return False
        i += 1
    return True


def trimmed(t):
    return t == "" or (t[0] not in WSSET and t[-1] not in WSSET)


def wf_rtype(t):
    return trimmed(t) and colon_scan(t)


def wf_eol_text(t):
    return t != "" and first_ok(t[0]) and "\n" not in t and "\r" not in t


def is_qname(q, n):
    if q == "b":
        return is_ident(n)
    return n != "" and QCH[q] not in n and "\n" not in n


def brace_ok(a):
    d = 0
    for c in a:
        if c == "{":
            d += 1
        elif c == "}":
            if d == 0:
                return False
            d -= 1
    return d == 0


def wf_action(a):
    return brace_ok(a) and (a == "" or (a[0] not in WSSET and a[-1] not in WSSET))


def wf_pad(p):
    return all(c in WSSET for c in p)


def escaped(q, v, b):
    j = 0
    for c in v:
        if j < len(b) and b[j] == "\\":
            if c not in "'\"" or j + 1 >= len(b) or b[j + 1] != c:
                return False
            j += 2
        else:
            if c == q or c == "\\" or c in "\n\r" or j >= len(b) or b[j] != c:
                return False
            j += 1
    return j == len(b)


def wf_numeral(ds, v):
    return ds != "" and all(c in DIGITS for c in ds) and int(ds) == v and v <= U64MAX


class Lay:
    """a layout: four finite maps on paths (tuples) with the defaults of the wire format"""

    def __init__(self):
        self.g, self.q, self.t, self.f = {}, {}, {}, {}

    def G(self, *p):
        return self.g.get(p, "")

    def Q(self, *p):
        return self.q.get(p, "b")

    def T(self, *p):
        return self.t.get(p, "")

    def F(self, *p):
        return self.f.get(p, False)


def wf_toks(lay, d, ts, inner, last):
    why = []
    for k, t in enumerate(ts):
        g = lay.G(1, d, k + 1)
        if not is_qname(lay.Q(1, d, k), t):
            why.append("decl %d token %d: name %r cannot be spelled %s" % (d, k, t, lay.Q(1, d, k)))
        if not layout_text(g):
            why.append("decl %d gap %d is no layout text: %r" % (d, k + 1, g))
        if k + 1 == len(ts):
            if not last(g):
                why.append("decl %d last gap %r" % (d, g))
        else:
            if not inner(g):
                why.append("decl %d inner gap %d %r" % (d, k + 1, g))
            if lay.Q(1, d, k) == "b" and lay.Q(1, d, k + 1) == "b" and g == "":
                why.append("decl %d: two bare tokens not separated" % d)
    return why


def wf_layout(lay, ag):
    """list of violated conditions of wf_layout (empty = well-formed)"""
    why = []
    declared = set(t for x in ag["decls"] if x[0] == "T" for t in x[1])
    if not layout_text(lay.G(0)):
        why.append("gap [0]")
    if not layout_text(lay.G(2)):
        why.append("gap [2]")
    any_gap = lambda g: True
    nl0 = lambda g: count_nl(g) == 0
    nl1 = lambda g: count_nl(g) >= 1
    for d, x in enumerate(ag["decls"]):
        if not line_gap(lay.G(1, d, 0)):
            why.append("decl %d: gap after the keyword %r" % (d, lay.G(1, d, 0)))
        k = x[0]
        if k == "S":
            if not is_name(x[1]) or not layout_text(lay.G(1, d, 1)):
                why.append("decl %d %%start" % d)
        elif k == "T":
            if not x[1]:
                why.append("decl %d empty list" % d)
            why += wf_toks(lay, d, x[1], any_gap, any_gap)
        elif k in ("P", "A", "I"):
            ts = x[2] if k == "P" else x[1]
            if not ts:
                why.append("decl %d empty list" % d)
            why += wf_toks(lay, d, ts, nl0, nl1)
        elif k == "E":
            if not is_qname(lay.Q(1, d, 0), x[1]):
                why.append("decl %d %%epp key" % d)
            if not line_gap(lay.G(1, d, 1)):
                why.append("decl %d %%epp gap 1" % d)
            if lay.Q(1, d, 1) == "b":
                why.append("decl %d %%epp quote" % d)
            if not escaped(QCH[lay.Q(1, d, 1)], x[2], lay.T(1, d, 0)):
                why.append("decl %d %%epp body %r for %r" % (d, lay.T(1, d, 0), x[2]))
            if not layout_text(lay.G(1, d, 2)):
                why.append("decl %d %%epp gap 2" % d)
        elif k in ("X", "Y"):
            if not wf_numeral(lay.T(1, d, 0), x[1]) or not layout_text(lay.G(1, d, 1)):
                why.append("decl %d %%expect" % d)
        elif k in ("C", "G"):
            if not wf_eol_text(x[1]) or not nl_gap(lay.G(1, d, 1)):
                why.append("decl %d %s value %r / gap %r" % (d, k, x[1], lay.G(1, d, 1)))
        elif k == "M":
            n, t, pad, g1 = x[1], x[2], lay.T(1, d, 0), lay.G(1, d, 1)
            if not wf_rtype(n) or not wf_pad(pad) or not item_start(n + pad + ":"):
                why.append("decl %d %%parse-param name %r pad %r" % (d, n, pad))
            if not line_gap(g1) or (g1 + t)[:1] == ":" or not wf_eol_text(t) or not nl_gap(lay.G(1, d, 2)):
                why.append("decl %d %%parse-param type %r" % (d, t))
        elif k == "U":
            ss = x[1]
            if not ss:
                why.append("decl %d empty list" % d)
            for i, (kind, n) in enumerate(ss):
                g = lay.G(1, d, i + 1)
                if kind == "r":
                    if not is_name(n):
                        why.append("decl %d %%expect-unused rule name %r" % (d, n))
                    if i + 1 < len(ss) and ss[i + 1][0] == "r" and g == "":
                        why.append("decl %d %%expect-unused: two bare names not separated" % d)
                elif lay.Q(1, d, i) == "b" or not is_qname(lay.Q(1, d, i), n):
                    why.append("decl %d %%expect-unused token %r spelled %s" % (d, n, lay.Q(1, d, i)))
                if not layout_text(g):
                    why.append("decl %d %%expect-unused gap %d" % (d, i + 1))
        else:
            why.append("decl %d unknown kind" % d)
    for r, (rn, prods, ty) in enumerate(ag["rules"]):
        if not is_name(rn):
            why.append("rule %d name" % r)
        if not layout_text(lay.G(3, r, 0)) or not layout_text(lay.G(3, r, 1)):
            why.append("rule %d head gaps" % r)
        if ty is not None:
            pad = lay.T(3, r, 3)
            if not layout_text(lay.G(3, r, 2)) or not wf_rtype(ty) or not wf_pad(pad) or not item_start(ty + pad + ":"):
                why.append("rule %d action type %r pad %r" % (r, ty, pad))
        if not prods:
            why.append("rule %d has no production" % r)
        for p, pr in enumerate(prods):
            syms = pr["syms"]
            sq = ["b" if kind == "r" else lay.Q(4, r, p, 0, k) for k, (kind, _) in enumerate(syms)]
            for k, (kind, n) in enumerate(syms):
                if not is_qname(sq[k], n):
                    why.append("rule %d prod %d sym %d: %r cannot be spelled %s" % (r, p, k, n, sq[k]))
                if kind == "r":
                    if n in declared:
                        why.append("rule %d prod %d sym %d: rule reference %r is %%token-declared" % (r, p, k, n))
                elif lay.Q(4, r, p, 0, k) == "b" and n not in declared:
                    why.append("rule %d prod %d sym %d: bare token %r is not %%token-declared" % (r, p, k, n))
                g = lay.G(4, r, p, 0, k)
                if not layout_text(g):
                    why.append("rule %d prod %d gap after sym %d: %r" % (r, p, k, g))
                if sq[k] == "b" and g == "" and k + 1 < len(syms) and sq[k + 1] == "b":
                    why.append("rule %d prod %d: bare symbols %d,%d not separated" % (r, p, k, k + 1))
            if pr["prec"] is not None:
                if not is_qname(lay.Q(4, r, p, 1), pr["prec"]) or not layout_text(lay.G(4, r, p, 1)) \
                        or not layout_text(lay.G(4, r, p, 2)):
                    why.append("rule %d prod %d %%prec" % (r, p))
            if pr["action"] is not None:
                if not wf_action(pr["action"]) or not wf_pad(lay.T(4, r, p, 6)) or not wf_pad(lay.T(4, r, p, 7)) \
                        or not layout_text(lay.G(4, r, p, 3)):
                    why.append("rule %d prod %d action" % (r, p))
            if not layout_text(lay.G(4, r, p, 4)):            # demanded whether or not %empty is written
                why.append("rule %d prod %d gap after %%empty" % (r, p))
            if not layout_text(lay.G(4, r, p, 5)):
                why.append("rule %d prod %d gap after the terminator" % (r, p))
    if ag["programs"] is not None:
        pg = ag["programs"]
        solid = pg == "" or (pg[0] not in " \t\n\r" and not (pg[0] == "/" and pg[1:2] in ("/", "*")))
        if not layout_text(lay.G(5)) or not solid:
            why.append("programs section")
    return why


def wf_agram(ag):
    why = []
    ds = ag["decls"]
    kind = ag["kind"]
    for k in "SXYCMG":
        if sum(1 for x in ds if x[0] == k) > 1:
            why.append("more than one %s declaration" % k)
    if kind != "O" and any(x[0] == "C" for x in ds):
        why.append("%actiontype outside the Original dialect")
    if kind != "E" and any(x[0] == "I" for x in ds):
        why.append("%implicit_tokens outside the Eco dialect")
    types = {}
    for rn, _, ty in ag["rules"]:
        if (ty is not None) != (kind == "G"):
            why.append("rule %r: action type %r in dialect %s" % (rn, ty, kind))
        if types.setdefault(rn, ty) != ty:
            why.append("blocks of rule %r disagree on the action type" % rn)
    precs = [t for x in ds if x[0] == "P" for t in x[2]]
    epps = [x[1] for x in ds if x[0] == "E"]
    avoid = [t for x in ds if x[0] == "A" for t in x[1]]
    toks = [t for x in ds if x[0] == "T" for t in x[1]]
    implicit = [t for x in ds if x[0] == "I" for t in x[1]]
    for nm, l in (("precedence", precs), ("%epp", epps), ("%avoid_insert", avoid), ("%implicit_tokens", implicit)):
        if len(set(l)) != len(l):
            why.append("duplicate %s token" % nm)
    if not ag["rules"]:
        why.append("no rule")
    rnames = set(n for n, _, _ in ag["rules"])
    for x in ds:
        if x[0] == "S":
            if x[1] not in rnames:
                why.append("%start names no rule")
            break
    rtn = set()
    for _, prods, _ in ag["rules"]:
        for pr in prods:
            for skind, n in pr["syms"]:
                if skind == "r" and n not in rnames:
                    why.append("unresolved rule reference %r" % n)
                if skind == "t":
                    rtn.add(n)
            if pr["prec"] is not None:
                rtn.add(pr["prec"])
                if pr["prec"] not in precs:
                    why.append("%%prec token %r has no precedence" % pr["prec"])
    known = set(toks) | set(avoid) | set(implicit) | rtn
    for t in epps:
        if t not in known:
            why.append("%%epp key %r is no token" % t)
    for x in ds:
        if x[0] == "U":
            for skind, n in x[1]:
                if skind == "r" and n not in rnames:
                    why.append("%%expect-unused names no rule: %r" % n)
                if skind == "t" and n not in known:
                    why.append("%%expect-unused names no token: %r" % n)
    return why


# =====================================================================================
#  independent Python printer (straight from the path scheme in the header of YpPrint.v)
# =====================================================================================
def spell(q, n):
    return n if q == "b" else QCH[q] + n + QCH[q]


def py_print(ag, lay):
    o = [lay.G(0)]
    for d, x in enumerate(ag["decls"]):
        k = x[0]
        if k == "S":
            o += ["%start", lay.G(1, d, 0), x[1], lay.G(1, d, 1)]
        elif k in ("T", "P", "A", "I"):
            if k == "T":
                kw, ts = "%token", x[1]
            elif k == "A":
                kw, ts = "%avoid_insert", x[1]
            elif k == "I":
                kw, ts = "%implicit_tokens", x[1]
            else:
                kw, ts = {"L": "%left", "R": "%right", "N": "%nonassoc"}[x[1]], x[2]
            o += [kw, lay.G(1, d, 0)]
            for i, t in enumerate(ts):
                o += [spell(lay.Q(1, d, i), t), lay.G(1, d, i + 1)]
        elif k == "E":
            qc = QCH[lay.Q(1, d, 1)]
            o += ["%epp", lay.G(1, d, 0), spell(lay.Q(1, d, 0), x[1]), lay.G(1, d, 1), qc, lay.T(1, d, 0), qc, lay.G(1, d, 2)]
        elif k in ("C", "G"):
            o += ["%actiontype" if k == "C" else "%parse-generics", lay.G(1, d, 0), x[1], lay.G(1, d, 1)]
        elif k == "M":
            o += ["%parse-param", lay.G(1, d, 0), x[1], lay.T(1, d, 0), ":", lay.G(1, d, 1), x[2], lay.G(1, d, 2)]
        elif k == "U":
            o += ["%expect-unused", lay.G(1, d, 0)]
            for i, (kind, n) in enumerate(x[1]):
                o += [spell("b" if kind == "r" else lay.Q(1, d, i), n), lay.G(1, d, i + 1)]
        else:
            o += ["%expect" if k == "X" else "%expect-rr", lay.G(1, d, 0), lay.T(1, d, 0), lay.G(1, d, 1)]
    o += ["%%", lay.G(2)]
    for r, (rn, prods, ty) in enumerate(ag["rules"]):
        o += [rn, lay.G(3, r, 0)]
        if ty is not None:
            o += ["->", lay.G(3, r, 2), ty, lay.T(3, r, 3)]
        o += [":", lay.G(3, r, 1)]
        for p, pr in enumerate(prods):
            if lay.F(4, r, p) and not pr["syms"]:
                o += ["%empty", lay.G(4, r, p, 4)]
            for k, (kind, n) in enumerate(pr["syms"]):
                o += [spell("b" if kind == "r" else lay.Q(4, r, p, 0, k), n), lay.G(4, r, p, 0, k)]
            if pr["prec"] is not None:
                o += ["%prec", lay.G(4, r, p, 1), spell(lay.Q(4, r, p, 1), pr["prec"]), lay.G(4, r, p, 2)]
            if pr["action"] is not None:
                o += ["{", lay.T(4, r, p, 6), pr["action"], lay.T(4, r, p, 7), "}", lay.G(4, r, p, 3)]
            o += ["|" if p + 1 < len(prods) else ";", lay.G(4, r, p, 5)]
    if ag["programs"] is not None:
        o += ["%%", lay.G(5), ag["programs"]]
    return "".join(o)


# =====================================================================================
#  wire format of ocaml/c10round/driver_body.ml
# =====================================================================================
def xs(s):
    return "x" + s.encode("utf-8").hex()


def encode(fa, ag, lay, fp=None, fu=None):
    fp = PROD_SPAN_FIXED if fp is None else fp
    fu = PREC_USED_FIXED if fu is None else fu
    w = [("1" if fa else "0") + ("1" if fp else "0") + ("1" if fu else "0"), str(len(ag["decls"]))]
    for x in ag["decls"]:
        k = x[0]
        if k == "S":
            w += ["S", xs(x[1])]
        elif k in ("T", "A", "I"):
            w += [k, str(len(x[1]))] + [xs(t) for t in x[1]]
        elif k in ("C", "G"):
            w += [k, xs(x[1])]
        elif k == "M":
            w += ["M", xs(x[1]), xs(x[2])]
        elif k == "U":
            w += ["U", str(len(x[1]))]
            for kind, n in x[1]:
                w += [kind, xs(n)]
        elif k == "P":
            w += [x[1], str(len(x[2]))] + [xs(t) for t in x[2]]
        elif k == "E":
            w += ["E", xs(x[1]), xs(x[2])]
        else:
            w += [k, "%x" % x[1]]
    w.append(str(len(ag["rules"])))
    for rn, prods, ty in ag["rules"]:
        w += ["r", xs(rn)] + (["-"] if ty is None else ["^", xs(ty)]) + [str(len(prods))]
        for pr in prods:
            w += ["p", str(len(pr["syms"]))]
            for kind, n in pr["syms"]:
                w += [kind, xs(n)]
            w += ["-"] if pr["prec"] is None else ["%", xs(pr["prec"])]
            w += ["-"] if pr["action"] is None else ["{", xs(pr["action"])]
    w += ["-"] if ag["programs"] is None else ["P", xs(ag["programs"])]
    ents = []
    pth = lambda p: ".".join(str(i) for i in p) if p else "-"
    for p, v in sorted(lay.g.items()):
        ents += ["g", pth(p), xs(v)]
    for p, v in sorted(lay.q.items()):
        ents += ["q", pth(p), v]
    for p, v in sorted(lay.t.items()):
        ents += ["t", pth(p), xs(v)]
    for p, v in sorted(lay.f.items()):
        ents += ["f", pth(p), "1" if v else "0"]
    w.append(str(len(ents) // 3))
    return " ".join(w + ents)


# =====================================================================================
#  generator
# =====================================================================================
IDENT_POOL = ["prec", "empty", "token", "start", "left", "epp", "_", "__", "A", "x1", "_9", "Z_z", "e", "expect"]
NAME_PIECES = ["+", "-", "*", "/", "(", ")", "=", "<", " ", "  ", "\u00e9", "\u2192", "{", "}", "%", "%%", "//", "/*", "*/", ";",
               "|", ":", "\\", "\U0001F600", "1", ".", "#", "\t", "\r", "a", "B", "_", "%token", "%prec", "%empty", "\xa0",
               "\u2028", "\x00", "\x7f", "\u65e5\u672c", "->", "if"]
COMMENT_PIECES = ["x", "y z", " ", "*", "/", "**", "//", "/*", "* /", "'", '"', "{", "}", "%%", "%token q", ";", "|", ":",
                  "\u00e9", "\u2192", "\U0001F600", "\u65e5\u672c", "\t", "\\", "a/b", "a*b", "*x/", "\n", "\r", "\r\n", "\n/",
                  "\r/", "\n//", "\n/*", "\n *", "%prec", "\xa0", "\u2028", "%grmtools {yacckind: Grmtools}", "\x0b", "\x85"]
ACTION_PIECES = ["$1", "Ok(())", " ", "  ", "\n", "\r\n", "\r", "\t", "\u00e9", "\u2192", "\U0001F600", "'", '"', "/", "/*", "*/",
                 "//", "%%", "|", ";", ":", "%prec", "%empty", "\\", "\xa0", "\u2003", "\u3000", "x", "a b", "$lexer.span()"]
EPP_PIECES = ["x", "an integer", "\u00e9", "it's", 'say "hi"', "\u2192", "'", '"', "''", '"\'', "%", "/* c */", "// c",
              "\U0001F600", " ", "\t", "{", "%%", "\xa0"]
TYPE_PIECES = ["u64", "()", "Result<u64, ()>", "std::vec::Vec<u8>", "::", "a::b", "Foo<'a>", "&'static str", "T", " ", "  ", "\t",
               "\n", "\r\n", "/* t */", "// t", "/", "*", "{", "}", "%%", "%token", ";", "|", "->", "'", '"', "\u00e9", "\u2192",
               "\U0001F600", "\xa0", "\u3000", "Box<dyn Fn(u8) -> u8>", "[u8; 4]", "(A, B)"]
EOL_PIECES = ["u64", "Span", "&mut Vec<u8>", "T: Clone", ":", "::", " ", "  ", "\t", "/* c */", "// c", "/*", "*/", "%%", "%token x", "'a", '"',
              "{", "}", ";", "|", "<'a, T>", "\u00e9", "\u2192", "\U0001F600", "\xa0", "\u2028", "\x0b", "x"]
PROG_PIECES = ["fn main() {}", "\n", " ", "%%", "%token", "// c\n", "/* c */", "A: 'a';", "\u00e9", "\U0001F600", "{", "}", "'", '"', "\r\n",
               "\x00", "/", "*"]
NUMS = [0, 0, 1, 7, 42, 2 ** 32, 2 ** 63, U64MAX, U64MAX - 1, 12345678901234567890]


BOUNDARY_CHARS = ["\x00", "\x7f", "\x80", "\u07ff", "\u0800", "\ud7ff", "\ue000", "\uffff", "\U00010000", "\U0010ffff"]


def rand_char(rng):
    """any Unicode scalar value, biased towards the interesting ranges"""
    k = rng.random()
    if k < 0.06:                                  # the ends of the UTF-8 length classes
        return rng.choice(BOUNDARY_CHARS)
    if k < 0.4:
        return chr(rng.randint(0x20, 0x7e))
    if k < 0.5:
        return chr(rng.choice(list(range(0x20)) + [0x7f]))
    if k < 0.65:
        return chr(rng.randint(0x80, 0xff))
    if k < 0.85:
        while True:
            c = rng.randint(0x100, 0xffff)
            if not 0xd800 <= c <= 0xdfff:
                return chr(c)
    if k < 0.95:
        return chr(rng.randint(0x10000, 0x10ffff))
    return rng.choice(WS)


def piece(rng, pool, p_random=0.15):
    return rand_char(rng) if rng.random() < p_random else rng.choice(pool)


def gen_ident(rng, used):
    while True:
        if rng.random() < 0.15:
            n = rng.choice(IDENT_POOL)
        else:
            n = rng.choice(ALPHA_) + "".join(rng.choice(ALPHA_ + DIGITS) for _ in range(rng.choice([0, 0, 1, 2, 3, 5])))
        if n not in used:
            used.add(n)
            return n


def gen_special(rng, used):
    """a token name that can only be written between quotes (contains at most one kind of quote)"""
    for _ in range(100):
        parts = [piece(rng, NAME_PIECES) for _ in range(rng.choice([1, 1, 1, 2, 2, 3]))]
        if rng.random() < 0.3:
            parts.insert(rng.randint(0, len(parts)), rng.choice(["'", '"']))
        n = "".join(parts).replace("\n", "")
        if "'" in n and '"' in n:                   # such a name has no spelling
            n = n.replace(rng.choice(["'", '"']), "")
        if n and n not in used and not is_ident(n):
            used.add(n)
            return n
    raise AssertionError("name generator exhausted")


def comment_body(rng, newline_ok):
    t = "".join(piece(rng, COMMENT_PIECES) for _ in range(rng.choice([0, 1, 1, 2, 3, 4])))
    if not newline_ok:
        t = t.replace("\n", " ").replace("\r", "")
    while "*/" in t:
        t = t.replace("*/", rng.choice(["* /", "*", "/"]))
    return t


def gen_gap(rng, mode="any", nonempty=False):
    """layout text; mode: any | line (a line layout: the only newline characters are those ending // comments;
    line0: none at all) | eol (at least one) | nl (starts with a newline character)"""
    if mode == "nl":
        return rng.choice(["\n", "\n", "\r\n", "\r"]) + gen_gap(rng)
    if mode != "eol" and not nonempty and rng.random() < 0.4:
        return ""
    line = mode in ("line", "line0")
    out = []
    for _ in range(rng.choice([1, 1, 1, 2, 2, 3, 4])):
        k = rng.random()
        if k < 0.5:
            out.append(rng.choice([" ", " ", "\t", "  "]) if line or rng.random() < 0.6
                       else rng.choice(["\n", "\n", "\r\n", "\r", "\n\n"]))
        elif k < 0.68 and mode != "line0":
            # in a line layout the newline of a // comment is consumed by the comment itself: one character only
            out.append("//" + comment_body(rng, False) + (rng.choice(["\n", "\n", "\r"]) if line else rng.choice(["\n", "\n", "\r\n", "\r"])))
        elif k < 0.68:
            out.append(" ")
        else:
            out.append("/*" + comment_body(rng, not line) + "*/")
    if mode == "eol" and count_nl("".join(out)) == 0:
        k = rng.random()
        nl = rng.choice(["\n", "\r\n", "\r"])
        item = nl if k < 0.5 else "//" + comment_body(rng, False) + nl if k < 0.75 else \
            "/*" + comment_body(rng, False) + nl + comment_body(rng, True) + "*/"
        while "*/" in item[2:-2]:
            item = item[:2] + item[2:-2].replace("*/", "* /") + item[-2:]
        out.insert(rng.randint(0, len(out)), item)
    return "".join(out)


def gen_pad(rng):
    return "".join(rng.choice(WS) if rng.random() < 0.5 else rng.choice(" \t\n")
                   for _ in range(rng.choice([0, 0, 1, 1, 2, 3])))


def gen_action(rng):
    def seq(depth):
        out = []
        for _ in range(rng.choice([0, 1, 1, 2, 3] if depth else [1, 1, 2, 3, 4, 6])):
            if depth < 3 and rng.random() < 0.2:
                out.append("{" + seq(depth + 1) + "}")
            else:
                c = piece(rng, ACTION_PIECES)
                out.append("x" if c in "{}" else c)
        return "".join(out)
    if rng.random() < 0.08:
        return ""
    return seq(0).strip("".join(WS))


def gen_rtype(rng):
    """an action type / %parse-param name: trimmed, every ':' inside a '::' pair, not starting like layout"""
    if rng.random() < 0.04:
        return ""
    for _ in range(100):
        t = "".join(piece(rng, TYPE_PIECES, 0.08) for _ in range(rng.choice([1, 1, 1, 2, 2, 3, 4])))
        t = t.strip("".join(WS))
        # make single colons double
        out, i = [], 0
        while i < len(t):
            if t[i] == ":":
                out.append("::")
                i += 2 if t[i + 1:i + 2] == ":" else 1
            else:
                out.append(t[i])
                i += 1
        t = "".join(out)
        if wf_rtype(t) and (t == "" or first_ok(t[0])):
            return t
    raise AssertionError("type generator exhausted")


def gen_tpad(rng, t):
    """blanks between a type/name and its colon: any Unicode white space (when the text is empty the gap before it
    must not swallow them: no leading layout blank)"""
    for _ in range(100):
        pad = gen_pad(rng)
        if item_start(t + pad + ":"):
            return pad
    return ""


def gen_eol_text(rng):
    """a value read to the end of the line (kept verbatim: trailing blanks and comments belong to it)"""
    for _ in range(100):
        t = "".join(piece(rng, EOL_PIECES, 0.1) for _ in range(rng.choice([1, 1, 2, 2, 3, 4]))).replace("\n", "").replace("\r", "")
        if wf_eol_text(t):
            return t
    raise AssertionError("value generator exhausted")


def gen_programs(rng):
    for _ in range(100):
        pg = "".join(piece(rng, PROG_PIECES, 0.1) for _ in range(rng.choice([0, 1, 1, 2, 3, 5])))
        if pg == "" or (pg[0] not in " \t\n\r" and not (pg[0] == "/" and pg[1:2] in ("/", "*"))):
            return pg
    return ""


def gen_epp_value(rng):
    v = "".join(piece(rng, EPP_PIECES) for _ in range(rng.choice([0, 1, 1, 2, 3])))
    return v.replace("\\", "").replace("\n", "").replace("\r", "")


def styles_for(n):
    s = []
    if is_ident(n):
        s.append("b")
    if "'" not in n:
        s.append("s")
    if '"' not in n:
        s.append("d")
    return s


def random_agram(rng, kind=None):
    used = set()
    if kind is None:
        kind = rng.choice("OOGGE")
    full = rng.random() < 0.2                      # every declaration kind (of the dialect) present
    P = lambda p: full or rng.random() < p
    # ---- rule names
    big = rng.random() < 0.03                     # now and then a large grammar
    rnames = [gen_ident(rng, used) for _ in range(rng.randint(6, 12) if big else rng.choice([1, 1, 2, 2, 3, 4, 5]))]
    dotted = []
    if rng.random() < 0.3:
        for _ in range(rng.randint(1, 2)):
            n = rng.choice([".", "a.b", "_.x", ".9", "x.", "..", "A.B.c_1"]) + rng.choice(["", "", "q", "0"])
            if n not in used:
                used.add(n)
                dotted.append(n)
    # ---- token names
    dtoks = [gen_ident(rng, used) for _ in range(rng.choice([1 if full else 0, 1, 2, 2, 3, 4]))]       # identifiers %token declares
    utoks = [gen_ident(rng, used) for _ in range(rng.choice([0, 0, 1, 2]))]             # identifiers no %token declares
    specials = [gen_special(rng, used) for _ in range(rng.choice([0, 1, 2, 2, 3, 4]))]
    declared = list(dtoks)
    if rng.random() < 0.15:                       # a rule whose name %token declares (never referenced as a rule)
        declared.append(rng.choice(rnames))
    if rng.random() < 0.2:                        # a token (written in quotes) that has the name of a rule
        utoks.append(rng.choice([n for n in rnames if n not in declared] or [gen_ident(rng, used)]))
    for s in specials:
        if rng.random() < 0.25:
            declared.append(s)
    all_toks = list(dict.fromkeys(declared + utoks + specials))
    refable = [n for n in rnames if n not in declared]
    decls = []
    # ---- %token lines (possibly with repetitions)
    if declared:
        names = declared[:]
        rng.shuffle(names)
        while names:
            k = rng.randint(1, len(names))
            line = names[:k]
            names = names[k:]
            if rng.random() < 0.25:
                line.insert(rng.randint(0, len(line)), rng.choice(declared))
            decls.append(("T", line))
    # ---- precedence lines
    pool = all_toks[:] + [gen_ident(rng, used) for _ in range(rng.randint(0, 2))] + [gen_special(rng, used) for _ in range(rng.randint(0, 1))]
    rng.shuffle(pool)
    prec_toks = []
    for _ in range(rng.choice([1 if full else 0, 1, 1, 2, 3])):
        if not pool:
            break
        k = rng.randint(1, min(3, len(pool)))
        ts = [pool.pop() for _ in range(k)]
        prec_toks += ts
        decls.append(("P", rng.choice("LRN"), ts))
    # ---- %avoid_insert lines
    avoid = []
    if P(0.45):
        pool = all_toks[:] + [gen_ident(rng, used), gen_special(rng, used)]
        rng.shuffle(pool)
        for _ in range(rng.choice([1, 1, 2])):
            if not pool:
                break
            ts = [pool.pop() for _ in range(rng.randint(1, min(3, len(pool))))]
            avoid += ts
            decls.append(("A", ts))
    # ---- %implicit_tokens lines (Eco dialect)
    implicit = []
    if kind == "E" and P(0.6):
        pool = all_toks[:] + [gen_ident(rng, used), gen_special(rng, used)]
        rng.shuffle(pool)
        for _ in range(rng.choice([1, 1, 2])):
            if not pool:
                break
            ts = [pool.pop() for _ in range(rng.randint(1, min(3, len(pool))))]
            implicit += ts
            decls.append(("I", ts))
    # ---- rule blocks
    blocks = rnames + dotted
    if rng.random() < 0.5:
        rng.shuffle(blocks)
    for _ in range(rng.choice([0, 0, 0, 1, 1, 2])):
        blocks.insert(rng.randint(1, len(blocks)), rng.choice(blocks))
    rules = []
    rtn = set()
    rtypes = {}
    for rn in blocks:
        if kind == "G" and rn not in rtypes:
            rtypes[rn] = gen_rtype(rng)
        prods = []
        for _ in range(rng.choice([1, 1, 2, 2, 3, 4])):
            syms = []
            for _ in range(rng.randint(0, 12) if big else rng.choice([0, 0, 1, 1, 2, 2, 3, 4, 6])):
                if refable and (not all_toks or rng.random() < 0.4):
                    syms.append(("r", rng.choice(refable)))
                elif all_toks:
                    t = rng.choice(all_toks)
                    syms.append(("t", t))
                    rtn.add(t)
            prec = rng.choice(prec_toks) if prec_toks and rng.random() < 0.25 else None
            if prec is not None:
                rtn.add(prec)
            action = gen_action(rng) if rng.random() < 0.45 else None
            prods.append({"syms": syms, "prec": prec, "action": action})
        rules.append((rn, prods, rtypes.get(rn)))
    # ---- the other declarations
    if P(0.5):
        decls.append(("S", rng.choice(rnames + dotted)))
    known = list(dict.fromkeys(declared + avoid + implicit + sorted(rtn)))
    if known and P(0.55):
        for t in rng.sample(known, rng.randint(1, min(3, len(known)))):
            decls.append(("E", t, gen_epp_value(rng)))
    if P(0.4):
        decls.append(("X", rng.choice(NUMS) if rng.random() < 0.7 else rng.getrandbits(rng.choice([8, 33, 64]))))
    if P(0.3):
        decls.append(("Y", rng.choice(NUMS) if rng.random() < 0.7 else rng.getrandbits(rng.choice([8, 33, 64]))))
    if kind == "O" and P(0.4):
        decls.append(("C", gen_eol_text(rng)))
    if P(0.35):
        decls.append(("M", gen_rtype(rng), gen_eol_text(rng)))
    if P(0.3):
        decls.append(("G", gen_eol_text(rng)))
    if P(0.4):
        for _ in range(rng.choice([1, 1, 2])):
            ss = []
            for _ in range(rng.choice([1, 1, 2, 3, 4])):
                if known and rng.random() < 0.5:
                    ss.append(("t", rng.choice(known)))
                else:
                    ss.append(("r", rng.choice(rnames + dotted)))
            decls.append(("U", ss))
    rng.shuffle(decls)
    programs = gen_programs(rng) if rng.random() < 0.3 else None
    return {"kind": kind, "decls": decls, "rules": rules, "programs": programs}


def gen_toks_layout(rng, lay, d, ts, inner_mode, last_mode):
    qs = [rng.choice(styles_for(t)) for t in ts]
    for k, t in enumerate(ts):
        lay.q[(1, d, k)] = qs[k]
        if k + 1 < len(ts):
            lay.g[(1, d, k + 1)] = gen_gap(rng, inner_mode, nonempty=(qs[k] == "b" and qs[k + 1] == "b"))
        else:
            lay.g[(1, d, k + 1)] = gen_gap(rng, last_mode)


def random_layout(rng, ag):
    lay = Lay()
    declared = set(t for x in ag["decls"] if x[0] == "T" for t in x[1])
    lay.g[(0,)] = gen_gap(rng)
    lay.g[(2,)] = gen_gap(rng)
    for d, x in enumerate(ag["decls"]):
        k = x[0]
        lay.g[(1, d, 0)] = gen_gap(rng, "line")
        if k == "S":
            lay.g[(1, d, 1)] = gen_gap(rng)
        elif k == "T":
            gen_toks_layout(rng, lay, d, x[1], "any", "any")
        elif k == "P":
            gen_toks_layout(rng, lay, d, x[2], "line0", "eol")
        elif k in ("A", "I"):
            gen_toks_layout(rng, lay, d, x[1], "line0", "eol")
        elif k in ("C", "G"):
            lay.g[(1, d, 1)] = gen_gap(rng, "nl")
        elif k == "M":
            lay.t[(1, d, 0)] = gen_tpad(rng, x[1])
            g1 = gen_gap(rng, "line")
            if (g1 + x[2])[:1] == ":":
                g1 = " " + g1
            lay.g[(1, d, 1)] = g1
            lay.g[(1, d, 2)] = gen_gap(rng, "nl")
        elif k == "U":
            ss = x[1]
            for i, (kind, n) in enumerate(ss):
                if kind == "t":
                    lay.q[(1, d, i)] = rng.choice([q for q in styles_for(n) if q != "b"])
                elif rng.random() < 0.2:
                    lay.q[(1, d, i)] = rng.choice("bsd")                     # ignored for rule names
                lay.g[(1, d, i + 1)] = gen_gap(rng, nonempty=(kind == "r" and i + 1 < len(ss) and ss[i + 1][0] == "r"))
        elif k == "E":
            lay.q[(1, d, 0)] = rng.choice(styles_for(x[1]))
            lay.g[(1, d, 1)] = gen_gap(rng, "line")
            q = rng.choice("sd")
            lay.q[(1, d, 1)] = q
            lay.t[(1, d, 0)] = "".join("\\" + c if c == QCH[q] or (c in "'\"" and rng.random() < 0.4) else c for c in x[2])
            lay.g[(1, d, 2)] = gen_gap(rng)
        else:
            lay.t[(1, d, 0)] = "0" * rng.choice([0, 0, 0, 1, 2, 5, 25]) + str(x[1])
            lay.g[(1, d, 1)] = gen_gap(rng)
    for r, (rn, prods, ty) in enumerate(ag["rules"]):
        lay.g[(3, r, 0)] = gen_gap(rng)
        lay.g[(3, r, 1)] = gen_gap(rng)
        if ty is not None:
            lay.g[(3, r, 2)] = gen_gap(rng)
            lay.t[(3, r, 3)] = gen_tpad(rng, ty)
        elif rng.random() < 0.1:
            lay.g[(3, r, 2)] = "unused->"
            lay.t[(3, r, 3)] = "unused:"
        for p, pr in enumerate(prods):
            syms = pr["syms"]
            sq = []
            for k, (kind, n) in enumerate(syms):
                if kind == "r":
                    sq.append("b")
                    if rng.random() < 0.2:
                        lay.q[(4, r, p, 0, k)] = rng.choice("bsd")          # ignored for rule references
                else:
                    opts = [s for s in styles_for(n) if s != "b" or n in declared]
                    q = rng.choice(opts)
                    sq.append(q)
                    lay.q[(4, r, p, 0, k)] = q
            for k in range(len(syms)):
                lay.g[(4, r, p, 0, k)] = gen_gap(rng, nonempty=(sq[k] == "b" and k + 1 < len(syms) and sq[k + 1] == "b"))
            if pr["prec"] is not None:
                lay.g[(4, r, p, 1)] = gen_gap(rng)
                lay.q[(4, r, p, 1)] = rng.choice(styles_for(pr["prec"]))
                lay.g[(4, r, p, 2)] = gen_gap(rng)
            elif rng.random() < 0.1:
                lay.g[(4, r, p, rng.choice([1, 2]))] = "unused{"
                lay.q[(4, r, p, 1)] = rng.choice("bsd")
            if pr["action"] is not None:
                lay.t[(4, r, p, 6)] = gen_pad(rng)
                lay.t[(4, r, p, 7)] = gen_pad(rng)
                lay.g[(4, r, p, 3)] = gen_gap(rng)
            elif rng.random() < 0.1:
                lay.t[(4, r, p, rng.choice([6, 7]))] = "unused"
                lay.g[(4, r, p, 3)] = "unused}"
            lay.f[(4, r, p)] = rng.random() < (0.5 if not syms else 0.2)   # ignored unless the production is empty
            lay.g[(4, r, p, 4)] = gen_gap(rng)                               # a layout text even when unused
            lay.g[(4, r, p, 5)] = gen_gap(rng)
    if ag["programs"] is not None:
        lay.g[(5,)] = gen_gap(rng)
    # entries on paths the printer never asks for
    for _ in range(rng.choice([0, 0, 1, 2])):
        k = rng.random()
        p = rng.choice([(), (6,), (0, 0), (2, 0), (1, len(ag["decls"]), 0), (3, len(ag["rules"]), 1), (4, 0, 99, 5), (1,), (4, 0)])
        if k < 0.5:
            lay.g.setdefault(p, "stray/")
        elif k < 0.7:
            lay.q.setdefault(p, "d")
        elif k < 0.9:
            lay.t.setdefault(p, "stray")
        else:
            lay.f.setdefault(p, True)
    return lay


# ---- corpus: one grammar with every construct under uniform layouts ----------------------------
def corpus_ag(kind):
    ty = (lambda t: t) if kind == "G" else (lambda t: None)
    decls = [("T", ["a", "b c", "a"]), ("S", "A"), ("P", "L", ["+", "m"]), ("X", 0), ("A", ["a", "z"]), ("P", "N", ["u"]),
             ("E", "a", "it's \"a\""), ("Y", U64MAX), ("T", ["d"]), ("A", ["w"]), ("E", "+", ""),
             ("M", "p::q", "&mut Vec<u8> // kept "), ("G", "'a, T: Clone"), ("U", [("r", "B"), ("t", "z"), ("r", ".c."), ("r", "A"), ("t", "b c")])]
    if kind == "O":
        decls.insert(3, ("C", "Result<u64, ()> /* kept */"))
    if kind == "E":
        decls.insert(5, ("I", ["ws", "d", "\u00e9"]))
        decls.append(("E", "ws", "blank"))
    return {
        "kind": kind, "decls": decls, "programs": "fn f() {}\n%% /* not a comment */",
        "rules": [("A", [{"syms": [("r", "A"), ("t", "+"), ("r", "B"), ("t", "a"), ("t", "d")], "prec": "m", "action": "$1 { {} }"},
                         {"syms": [], "prec": None, "action": None},
                         {"syms": [], "prec": "u", "action": ""}], ty("Result<u64, ()>")),
                  ("B", [{"syms": [("t", "a"), ("t", "d"), ("t", "b c")], "prec": None, "action": None}], ty("std::vec::Vec<u8>")),
                  (".c.", [{"syms": [], "prec": None, "action": "\u00e9"}], ty("")),
                  ("A", [{"syms": [("r", "B"), ("r", "B")], "prec": None, "action": None}], ty("Result<u64, ()>"))]}
CORPUS_GAPS = ["", " ", "\t", "\n", "\r\n", "\r", "/**/", "/*/*/", "/***/", "//\n", "//x\r", "/*\n/*/", "/* %% ' \" { */", "/*\u00e9\U0001F600*/",
               " /* a */ // b\r\n\t"]


def uniform_layout(ag, gap, prefer, pad, flag):
    """every gap = `gap` (made newline-free / newline-bearing / non-empty where the conditions ask for it),
    every spelling the first possible one in the order `prefer`"""
    lay = Lay()
    declared = set(t for x in ag["decls"] if x[0] == "T" for t in x[1])
    g_any = gap
    g_line0 = gap if count_nl(gap) == 0 else gap.replace("//", "/*").replace("\r\n", "*/").replace("\n", "*/").replace("\r", "*/") \
        if gap.startswith("//") else ""
    if not line_gap(g_line0) or count_nl(g_line0):
        g_line0 = " "
    g_line = gap if line_gap(gap) else g_line0          # a // comment with its newline is a line layout
    g_nl = gap if nl_gap(gap) else "\n" + gap
    g_eol = gap if count_nl(gap) >= 1 else gap + "\r"
    ne = lambda g: g if g else " "
    st = lambda n, bare_ok=True: [q for q in prefer if q in styles_for(n) and (q != "b" or bare_ok)][0]
    lay.g[(0,)] = g_any
    lay.g[(2,)] = g_any
    for d, x in enumerate(ag["decls"]):
        k = x[0]
        lay.g[(1, d, 0)] = g_line
        if k == "S":
            lay.g[(1, d, 1)] = g_any
        elif k in ("T", "P", "A", "I"):
            ts = x[-1]
            qs = [st(t) for t in ts]
            for i, t in enumerate(ts):
                lay.q[(1, d, i)] = qs[i]
                g = (g_any if k == "T" else g_line0) if i + 1 < len(ts) else (g_any if k == "T" else g_eol)
                lay.g[(1, d, i + 1)] = ne(g) if i + 1 < len(ts) and qs[i] == "b" and qs[i + 1] == "b" else g
        elif k in ("C", "G"):
            lay.g[(1, d, 1)] = g_nl
        elif k == "M":
            lay.t[(1, d, 0)] = pad if item_start(x[1] + pad + ":") else ""
            lay.g[(1, d, 1)] = g_line
            lay.g[(1, d, 2)] = g_nl
        elif k == "U":
            for i, (kind, n) in enumerate(x[1]):
                if kind == "t":
                    lay.q[(1, d, i)] = st(n, False)
                lay.g[(1, d, i + 1)] = ne(g_any) if kind == "r" and i + 1 < len(x[1]) and x[1][i + 1][0] == "r" else g_any
        elif k == "E":
            lay.q[(1, d, 0)] = st(x[1])
            lay.g[(1, d, 1)] = g_line
            q = "d" if prefer[0] == "d" else "s"
            lay.q[(1, d, 1)] = q
            lay.t[(1, d, 0)] = "".join("\\" + c if c == QCH[q] or (c in "'\"" and flag) else c for c in x[2])
            lay.g[(1, d, 2)] = g_any
        else:
            lay.t[(1, d, 0)] = ("00" if flag else "") + str(x[1])
            lay.g[(1, d, 1)] = g_any
    for r, (rn, prods, ty) in enumerate(ag["rules"]):
        lay.g[(3, r, 0)] = g_any
        lay.g[(3, r, 1)] = g_any
        if ty is not None:
            lay.g[(3, r, 2)] = g_any
            lay.t[(3, r, 3)] = pad if item_start(ty + pad + ":") else ""
        for p, pr in enumerate(prods):
            sq = ["b" if kind == "r" else st(n, n in declared) for kind, n in pr["syms"]]
            for k, q in enumerate(sq):
                lay.q[(4, r, p, 0, k)] = q
                lay.g[(4, r, p, 0, k)] = ne(g_any) if q == "b" and k + 1 < len(sq) and sq[k + 1] == "b" else g_any
            if pr["prec"] is not None:
                lay.g[(4, r, p, 1)] = g_any
                lay.q[(4, r, p, 1)] = st(pr["prec"])
                lay.g[(4, r, p, 2)] = g_any
            if pr["action"] is not None:
                lay.t[(4, r, p, 6)] = pad
                lay.t[(4, r, p, 7)] = pad[::-1]
                lay.g[(4, r, p, 3)] = g_any
            lay.f[(4, r, p)] = flag
            lay.g[(4, r, p, 4)] = g_any
            lay.g[(4, r, p, 5)] = g_any
    if ag["programs"] is not None:
        lay.g[(5,)] = g_any
    return lay


def corpus():
    out = []
    for kind in "OGE":
        ag = corpus_ag(kind)
        for i, g in enumerate(CORPUS_GAPS):
            for prefer in ("bsd", "dsb", "sdb"):
                out.append((ag, uniform_layout(ag, g, prefer, ["", " ", "\xa0\n", "\u3000"][i % 4], i % 2 == 0)))
    for kind in "OGE":
        minimal = {"kind": kind, "decls": [], "programs": None,
                   "rules": [("A", [{"syms": [], "prec": None, "action": None}], "T" if kind == "G" else None)]}
        out.append((minimal, Lay()))
    return out


# =====================================================================================
#  coverage accounting
# =====================================================================================
def account(ctx, ag, lay, text):
    c = ctx.count
    # the layout that separates the repaired production span from the pinned one: blanks / comments between the last item
    # of a production (%empty, symbol, %prec TOKEN) and the brace of its action
    for r, (_, prods, _) in enumerate(ag["rules"]):
        for p, pr in enumerate(prods):
            if pr["action"] is None:
                continue
            if pr["prec"] is not None:
                g = lay.G(4, r, p, 2)
            elif pr["syms"]:
                g = lay.G(4, r, p, 0, len(pr["syms"]) - 1)
            elif lay.F(4, r, p):
                g = lay.G(4, r, p, 4)
            else:
                continue
            if g != "":
                c("production_with_layout_before_action_brace")
                if "/" in g:
                    c("production_with_comment_before_action_brace")
    kinds = {"S": "start", "T": "token", "P": "prec", "E": "epp", "A": "avoid_insert", "X": "expect", "Y": "expect_rr",
             "C": "actiontype", "M": "parse_param", "G": "parse_generics", "U": "expect_unused", "I": "implicit_tokens"}
    kname = {"O": "Original", "G": "Grmtools", "E": "Eco"}[ag["kind"]]
    c("dialect_" + kname)
    if ag["programs"] is not None:
        c("programs_section")
        if ag["programs"] == "":
            c("programs_empty")
        if "%%" in ag["programs"]:
            c("programs_with_%%")
    seen_kinds = set()
    declared = set()
    toklines = 0
    for d, x in enumerate(ag["decls"]):
        seen_kinds.add(x[0])
        c("decl_" + kinds[x[0]])
        if x[0] == "T":
            toklines += 1
            if any(t in declared for t in x[1]) or len(set(x[1])) < len(x[1]):
                c("token_declared_twice")
            declared |= set(x[1])
        if x[0] in "XY":
            ds = lay.T(1, d, 0)
            if len(ds) > 1 and ds[0] == "0":
                c("numeral_leading_zeros")
            if x[1] == U64MAX:
                c("numeral_u64_max")
            if lay.G(1, d, 0) == "":
                c("numeral_glued_to_keyword")
        if x[0] == "E":
            v, b = x[2], lay.T(1, d, 0)
            if v == "":
                c("epp_empty_value")
            other = '"' if lay.Q(1, d, 1) == "s" else "'"
            if "\\" + other in b:
                c("epp_other_quote_escaped")
            if other in b.replace("\\" + other, ""):
                c("epp_other_quote_plain")
            if "\\" + QCH[lay.Q(1, d, 1)] in b:
                c("epp_own_quote_escaped")
            c("epp_key_style_" + lay.Q(1, d, 0))
        if x[0] in "CMG":
            v = x[-1]
            if v != v.rstrip():
                c("eol_value_with_trailing_blanks")
            if "/*" in v or "//" in v:
                c("eol_value_with_comment_text")
            if ":" in v:
                c("eol_value_with_colon")
            if not lay.G(1, d, 2 if x[0] == "M" else 1).startswith("\n"):
                c("eol_value_ended_by_CR")
        if x[0] == "M":
            if "::" in x[1]:
                c("parse_param_name_with_::")
            if "\n" in x[1] or "\r" in x[1]:
                c("parse_param_name_with_newline")
            if lay.T(1, d, 0):
                c("parse_param_blanks_before_colon")
        if x[0] == "U":
            for kind, n in x[1]:
                c("expect_unused_" + ("rule" if kind == "r" else "token"))
        if "//" in lay.G(1, d, 0) and line_gap(lay.G(1, d, 0)):
            c("keyword_gap_with_line_comment (newline consumed inside a no-newline gap)")
        if x[0] in "PAI":
            items = layout_items(lay.G(1, d, len(x[-1])))
            if all(count_nl(t) == 0 for k, t in items if k != "block"):
                c("list_line_ended_by_newline_inside_block_comment")
            if "\n" not in lay.G(1, d, len(x[-1])):
                c("list_line_ended_by_CR_only")
            if len(x[-1]) >= 2 and any(lay.G(1, d, i) == "" for i in range(1, len(x[-1]))):
                c("list_tokens_glued")
    if len(seen_kinds) == {"O": 11, "G": 10, "E": 11}[ag["kind"]]:
        c("all_declaration_kinds_of_the_dialect")
    if toklines >= 2:
        c("several_token_lines")
    if sum(1 for x in ag["decls"] if x[0] == "P") >= 2:
        c("several_precedence_lines")
    if sum(1 for x in ag["decls"] if x[0] == "A") >= 2:
        c("several_avoid_insert_lines")
    if not any(x[0] == "S" for x in ag["decls"]):
        c("start_is_first_rule")
    names = [n for n, _, _ in ag["rules"]]
    for r, (rn, _, ty) in enumerate(ag["rules"]):
        if ty is not None:
            c("rule_block_with_action_type")
            if ty == "":
                c("action_type_empty")
            if "::" in ty:
                c("action_type_with_::")
            if "\n" in ty or "\r" in ty:
                c("action_type_with_newline")
            if "/*" in ty or "//" in ty:
                c("action_type_with_comment_text")
            if not ty.isascii():
                c("action_type_multibyte")
            if lay.T(3, r, 3):
                c("action_type_blanks_before_colon")
            if lay.G(3, r, 0) == "" and lay.G(3, r, 2) == "":
                c("action_type_arrow_glued")
    if len(set(names)) < len(names):
        c("rule_written_in_several_blocks")
    if any("." in n for n in names):
        c("rule_name_with_dot")
    if any(n in declared for n in names):
        c("rule_name_is_token_declared")
    precs = set(t for x in ag["decls"] if x[0] == "P" for t in x[2])
    for r, (rn, prods, _) in enumerate(ag["rules"]):
        for p, pr in enumerate(prods):
            if not pr["syms"]:
                c("empty_production_with_%empty" if lay.F(4, r, p) else "empty_production_plain")
                if pr["prec"] is None and pr["action"] is None and not lay.F(4, r, p):
                    c("production_without_any_item")
            for k, (kind, n) in enumerate(pr["syms"]):
                if kind == "r":
                    c("sym_rule_ref")
                    if any(n == t for _, ps, _ in ag["rules"] for q in ps for kk, t in q["syms"] if kk == "t"):
                        c("rule_ref_name_is_also_a_token")
                else:
                    c("sym_token_" + lay.Q(4, r, p, 0, k))
                    if not n.isascii():
                        c("token_name_multibyte")
                    if " " in n:
                        c("token_name_with_space")
                    if "'" in n or '"' in n:
                        c("token_name_with_other_quote")
                    if "\r" in n:
                        c("token_name_with_CR")
                    if any(ch in n for ch in "%/{"):
                        c("token_name_with_%/{")
                if k + 1 < len(pr["syms"]) and lay.G(4, r, p, 0, k) == "":
                    c("symbols_glued")
            if pr["prec"] is not None:
                c("prec_style_" + lay.Q(4, r, p, 1))
                if lay.G(4, r, p, 1) == "":
                    c("prec_glued_to_token")
                if lay.Q(4, r, p, 1) == "b" and pr["prec"] not in declared:
                    c("prec_bare_token_not_declared")
            a = pr["action"]
            if a is not None:
                c("action")
                if a == "":
                    c("action_empty_text")
                if "{" in a:
                    c("action_nested_braces")
                if "\n" in a or "\r" in a:
                    c("action_with_newline")
                if not a.isascii():
                    c("action_multibyte")
                pads = lay.T(4, r, p, 6) + lay.T(4, r, p, 7)
                if pads and not pads.isascii():
                    c("action_pad_unicode_whitespace")
                if lay.T(4, r, p, 6) and a:
                    c("action_text_after_blanks (span differs between fa variants)")
    for p, g in lay.g.items():
        if not p or p[0] > 5 or not layout_text(g):
            continue
        c("gap")
        if g == "":
            c("gap_empty")
        if "//" in g:
            c("gap_line_comment")
        if "/*" in g:
            c("gap_block_comment")
        if "\r\n" in g:
            c("gap_CRLF")
        elif "\r" in g:
            c("gap_lone_CR")
        if "\t" in g:
            c("gap_tab")
        if not g.isascii():
            c("gap_multibyte")
        if "\n/" in g or "\r/" in g:
            c("gap_newline_then_slash")
        if "/*/" in g:
            c("gap_block_comment_body_starts_with_slash")
        if "**/" in g:
            c("gap_block_comment_body_ends_with_star")
    c("text_bytes", len(text.encode("utf-8")))


def diff_sections(a, b):
    fa, fb = a.split(" # "), b.split(" # ")
    d = [[x, y] for x, y in zip(fa, fb) if x != y][:5]
    if len(fa) != len(fb):
        d.append(["%d sections" % len(fa), "%d sections" % len(fb)])
    return d


def describe(ag, lay):
    """the pair, readable, for reports"""
    return {"kind": ag["kind"], "decls": [list(x) for x in ag["decls"]], "programs": ag["programs"],
            "rules": [[n, ps, ty] for n, ps, ty in ag["rules"]],
            "layout": {k: {".".join(map(str, p)): v for p, v in sorted(getattr(lay, k).items())} for k in "gqtf"}}


# =====================================================================================
#  the check
# =====================================================================================
BATCH = 8000

# The witnesses of the `..._refuted` theorems of C10/YpRoundExample.v (what the code drops or keeps although the
# source says otherwise, OUTSIDE the hypotheses of the round trip), replayed on the implementation: the transcript must be
# the mirror's and must show the loss.  When /repo is repaired these probes fail: the theorems then no longer describe
# the code and the mirror (YpModel.v) has to follow the repair.
FINDING_PROBES = [
    ("G", " %% A -> u32: 'a' ; A -> u64: 'b' ; ", ["OK", "RULE x41 4 5 x753332 0,1"],
     "Grmtools dialect: two blocks of rule A carry different action types; the second (u64) is dropped without error or warning"),
    ("O", " %parse-param a : u32\n%parse-param b : u64\n%% A : 'x' ; ", ["OK", "PP x62 x753634"],
     "%parse-param given twice: the first is overwritten without error or warning (same for %parse-generics)"),
    ("O", "%parse-generics 'a\n%parse-generics 'b\n%%\nA: ;", ["OK", "PG x2762"],
     "%parse-generics given twice: the first is overwritten without error or warning"),
    ("O", "%actiontype u64 // the type\n%%\nA: ;", ["OK", "RULE x41 31 32 x753634202f2f207468652074797065 0"],
     "a comment after a value read to the end of the line is part of the value"),
    ("G", "%%\nA -> u64 /* why */ : ;", ["OK", "RULE x41 3 4 x753634202f2a20776879202a2f 0"],
     "a comment between a Grmtools action type and the colon is part of the type"),
    # C10/YpRoundFindings.v: ps_fixed_example (the repaired production span), action_literal_brace_refuted, actiontype_layout_refuted
    ("O", " %% S : 'a' 'b'   /* c */ { x } ; ", ["OK", "PROD - x78 27 28 8 15 T x61 9 10 T x62 13 14"],
     "production span of  'a' 'b'   /* c */ { x }  ends after 'b' (with /repo 69c4b9b; before it: 8 26)"),
    ("G", " %% S -> String: 'a' { \"{\".to_string() } | 'b' { \"}\".to_string() } ; ",
     ["OK", "PROD - x227b222e746f5f737472696e672829207d207c20276227207b20227d222e746f5f737472696e672829 22 63 17 20 T x61 18 19", "TOK x61 18 19 -"],
     "known finding C10-action-literal-brace: braces in string literals of two actions fuse them into ONE production"),
    ("O", "%actiontype u32  \n%%\nS: 'a';", ["OK", "RULE x53 21 22 x7533322020 0"],
     "known finding C10-actiontype-layout: trailing blanks are part of the %actiontype value"),
    ("O", "%actiontype u32 // c\n%%\nS: 'a';", ["OK", "RULE x53 24 25 x753332202f2f2063 0"],
     "known finding C10-actiontype-layout: a trailing comment is part of the %actiontype value"),
    ("G", "%%\nS -> u32 /* c */ : 'a';", ["OK", "RULE x53 3 4 x753332202f2a2063202a2f 0"],
     "known finding C10-actiontype-layout: a comment before the colon is part of a Grmtools action type"),
    ("G", "%%\nS -> u32 // x: y\n : 'a';", ["ERRS 1", "E IllegalString 21 21"],
     "known finding C10-actiontype-layout: a colon inside a comment after a Grmtools action type ends the type"),
]


def run_part(ctx, tag="C10round"):
    exe = core.build_harness("c10yp")
    mirror = core.build_model("c10yp")
    rexe = core.build_model("c10round")
    rng = ctx.rng
    fa = ACTION_SPAN_FIXED
    n_pairs = ctx.n(10000, 120000)
    bad = {"print": 0, "impl": 0, "thm": 0}
    done = 0
    while done < n_pairs:
        k = min(BATCH, n_pairs - done)
        run_batch(ctx, rng, k, fa, exe, mirror, rexe, bad, corpus() if done == 0 else ())
        done += k
    # the refutation witnesses, on the implementation
    plines = ["%s %s" % (k, t.encode("utf-8").hex()) for k, t, _, _ in FINDING_PROBES]
    pimpl = core.run_lines([exe], plines)
    pmodel = core.run_lines([mirror], [l + MODEL_FLAGS for l in plines])
    nprobe = 0
    for (k, t, marks, what), pl, a, m in zip(FINDING_PROBES, plines, pimpl, pmodel):
        secs = strip_bad(a).split(" # ")
        ctx.case("F " + pl, True, {"text": t, "what": what})
        ctx.count("refutation_witness_replayed")
        if strip_bad(a) != m or any(x not in secs for x in marks):
            nprobe += 1
            ctx.violation({"what": "a refutation witness of C10/YpRoundExample.v no longer shows on the implementation what the "
                                   "theorem says (%s): the `_refuted` theorems / the mirror do not describe this code any more" % what,
                           "kind": k, "text": t, "impl": a[:1500], "mirror": m[:1500], "expected_sections": marks,
                           "replay_cmd": "echo '%s' | .work/target/release/c10yp" % pl}, no_input=True)
    ctx.oblige(nprobe == 0, "refutation witnesses replay on the implementation")
    ctx.oblige(ctx.hist.get("production_with_comment_before_action_brace", 0) >= 20,
               "productions with blanks/comments between the last item and the action's brace were generated")
    ctx.oblige(bad["print"] == 0, "Coq printer = Python printer")
    ctx.oblige(bad["impl"] == 0, "implementation builds ast_of on print")
    ctx.oblige(bad["thm"] == 0, "mirror builds ast_of on print (the theorem's statement, evaluated)")
    ctx.coverage["rule"] = (
        "a corpus (per dialect one grammar with every construct under %d uniform layouts x 3 spelling preferences, the minimal grammar), then %d random (dialect, abstract grammar, layout) triples inside wf_agram k/wf_layout (asserted by an independent Python implementation of "
        "the conditions): the three dialects (Original, Grmtools with a `-> type` on every rule block: types with '::', generics, quotes, "
        "newlines, comment text, multi-byte, empty, Unicode blanks before the colon; Eco with %%implicit_tokens lines), all declaration kinds "
        "of the dialect in random order (%%actiontype / %%parse-param / %%parse-generics values kept verbatim to the end of the line, "
        "%%parse-param names with '::', %%expect-unused lists of bare rule names and quoted tokens), a programs section after a second "
        "'%%%%' (empty, with '%%%%', comment-like text), // comments inside the newline-free gaps after directive keywords, "
        "several %%token/precedence/%%avoid_insert lines, repeated "
        "%%token names, rule blocks repeated under one name, dotted rule names, rule names that are also token names, empty "
        "productions with/without %%empty, %%prec (bare, undeclared), actions (empty, nested braces, newlines, multi-byte, "
        "Unicode-whitespace pads); every gap independently empty / blanks / tabs / LF, CRLF, CR / line comments / block comments "
        "(bodies with '/', '*', newline+'/', '/*', quotes, braces, '%%%%', multi-byte, random scalar values), newline-free gaps "
        "inside directives, the newline that ends a token-list line possibly inside a comment; spelling chosen per occurrence "
        "(bare / '..' / \"..\"); numerals with leading zeros up to u64::MAX; %%epp bodies with optional escapes; stray layout "
        "entries on unused paths. text + expected transcript from the extracted print/ast_of/warnings_of (fa = %s); compared as "
        "strings with the implementation's transcript and the extracted mirror's. non-trivial = >= 2 declarations and >= 2 "
        "productions; distinct by case line" % (len(CORPUS_GAPS), n_pairs, "true" if fa else "false"))
    ctx.coverage["pairs"] = n_pairs
    h = ctx.hist
    ctx.coverage["round_trip_distribution"] = {
        "dialect": {k[8:]: v for k, v in sorted(h.items()) if k.startswith("dialect_")},
        "declarations": {k[5:]: v for k, v in sorted(h.items()) if k.startswith("decl_")},
        "rule_blocks_with_action_type": h.get("rule_block_with_action_type", 0),
        "action_type_features": {k[12:]: v for k, v in sorted(h.items()) if k.startswith("action_type_")},
        "programs_sections": h.get("programs_section", 0),
        "keyword_gaps_with_line_comment": sum(v for k, v in h.items() if k.startswith("keyword_gap_with_line_comment")),
        "eol_value_features": {k[10:]: v for k, v in sorted(h.items()) if k.startswith("eol_value_")},
        "expect_unused_items": {k[14:]: v for k, v in sorted(h.items()) if k.startswith("expect_unused_")},
        "all_declaration_kinds_of_the_dialect": h.get("all_declaration_kinds_of_the_dialect", 0),
        "spellings": {k[10:]: v for k, v in sorted(h.items()) if k.startswith("sym_token_")},
    }
    ctx.assumptions += [
        "code points of names, actions, values and layout are Unicode scalar values (str = list N admits others; they cannot reach a Rust &str)",
        "expected AST computed with fa = %s: /repo %s the action-span repair (ACTION_SPAN_FIXED in checks/c10_round.py)"
        % ("true" if fa else "false", "has" if fa else "does not have"),
        "expected AST computed with fp = %s: /repo %s the production-span repair 69c4b9b (PROD_SPAN_FIXED in checks/c10_round.py)"
        % ("true" if PROD_SPAN_FIXED else "false", "has" if PROD_SPAN_FIXED else "does not have"),
        "expected warnings computed with fu = %s: /repo %s the unused_symbols repair 4ff022d (PREC_USED_FIXED in checks/c10_round.py)"
        % ("true" if PREC_USED_FIXED else "false", "has" if PREC_USED_FIXED else "does not have"),
    ]


def run_batch(ctx, rng, n, fa, exe, mirror, rexe, bad, first=()):
    pairs = []
    for i in range(n):
        if i < len(first):
            ag, lay = first[i]
        else:
            ag = random_agram(rng)
            lay = random_layout(rng, ag)
        # (d) the generator stays inside the theorem's hypotheses — a failure here is a bug of this check
        why = wf_agram(ag) + wf_layout(lay, ag)
        assert not why, "generator produced a pair outside wf_agram/wf_layout: %s\n%r" % (why, describe(ag, lay))
        pairs.append((ag, lay))
    cases = [encode(fa, ag, lay) for ag, lay in pairs]
    coq = core.run_lines([rexe], cases)
    texts, expected = [], []
    for line, out in zip(cases, coq):
        if not out.startswith("x") or " # " not in out:
            raise core.GateFailure("c10round-driver", "the extracted printer did not answer a case: %s\n%s" % (out[:300], line[:600]))
        h, tr = out.split(" # ", 1)
        texts.append(bytes.fromhex(h[1:]).decode("utf-8"))
        expected.append(tr)
    plines = ["%s %s" % (ag["kind"], t.encode("utf-8").hex()) for (ag, _), t in zip(pairs, texts)]
    impl = core.run_lines([exe], plines)
    model = core.run_lines([mirror], [l + MODEL_FLAGS for l in plines])
    # the statement for the other action-span variant (the theorem quantifies over fa): pairs with an action
    oth = [i for i, (ag, _) in enumerate(pairs) if any(pr["action"] is not None for _, ps, _ in ag["rules"] for pr in ps)]
    fuflag = " fu" if PREC_USED_FIXED else ""
    oflags = " fc" + ("" if fa else " fa") + (" fp" if PROD_SPAN_FIXED else "") + fuflag
    # (a statement about two extracted terms of the proved theorem, not about the implementation: quick tier = a sample, as for fp)
    otha = oth[:ctx.n(1500, len(oth))]
    ocoq = core.run_lines([rexe], [encode(not fa, *pairs[i]) for i in otha])
    omodel = core.run_lines([mirror], [plines[i] + oflags for i in otha])
    for i, oc, om in zip(otha, ocoq, omodel):
        ctx.count("statement_evaluated_for_other_fa")
        if " # " not in oc or oc.split(" # ", 1)[0] != coq[i].split(" # ", 1)[0] or om != oc.split(" # ", 1)[1]:
            bad["thm"] += 1
            ctx.violation({"what": "ROUND-TRIP STATEMENT FALSE FOR THIS PAIR with fa = %s: the extracted mirror on (print lay ag) does not "
                                   "return (ast_of fa lay ag) although wf_agram/wf_layout hold" % ("false" if fa else "true"),
                           "pair": describe(*pairs[i]), "text": texts[i], "mirror": om[:3000], "expected": oc[:3000],
                           "differences_mirror_vs_expected": diff_sections(om, oc.split(" # ", 1)[-1]),
                           "replay_cmd": "echo '%s' | .work/ocaml/c10round/gvm_c10round ; echo '%s' | .work/ocaml/c10yp/gvm_c10yp"
                                         % (encode(not fa, *pairs[i]), plines[i] + oflags)}, no_input=True)
    # ... and for the other production-span variant (the theorem quantifies over fp): a sample of those pairs
    othp = oth[:500]
    pflags = " fc" + (" fa" if fa else "") + ("" if PROD_SPAN_FIXED else " fp") + fuflag
    pcoq = core.run_lines([rexe], [encode(fa, pairs[i][0], pairs[i][1], not PROD_SPAN_FIXED) for i in othp])
    pmodel = core.run_lines([mirror], [plines[i] + pflags for i in othp])
    for i, oc, om in zip(othp, pcoq, pmodel):
        ctx.count("statement_evaluated_for_other_fp")
        if " # " in oc and oc.split(" # ", 1)[1] != expected[i]:
            ctx.count("statement_for_other_fp_with_a_different_production_span")
        if " # " not in oc or oc.split(" # ", 1)[0] != coq[i].split(" # ", 1)[0] or om != oc.split(" # ", 1)[1]:
            bad["thm"] += 1
            ctx.violation({"what": "ROUND-TRIP STATEMENT FALSE FOR THIS PAIR with fp = %s: the extracted mirror on (print lay ag) does not "
                                   "return (ast_of fa fp lay ag) although wf_agram/wf_layout hold" % ("false" if PROD_SPAN_FIXED else "true"),
                           "pair": describe(*pairs[i]), "text": texts[i], "mirror": om[:3000], "expected": oc[:3000],
                           "differences_mirror_vs_expected": diff_sections(om, oc.split(" # ", 1)[-1]),
                           "replay_cmd": "echo '%s' | .work/ocaml/c10round/gvm_c10round ; echo '%s' | .work/ocaml/c10yp/gvm_c10yp"
                                         % (encode(fa, pairs[i][0], pairs[i][1], not PROD_SPAN_FIXED), plines[i] + pflags)}, no_input=True)
    # ... and for the other unused_symbols variant (the theorem quantifies over fu): a sample of the pairs with a %prec
    othu = [i for i, (ag, _) in enumerate(pairs) if any(pr["prec"] is not None for _, ps, _ in ag["rules"] for pr in ps)][:400]
    uflags = " fc" + (" fa" if fa else "") + (" fp" if PROD_SPAN_FIXED else "") + ("" if PREC_USED_FIXED else " fu")
    ucoq = core.run_lines([rexe], [encode(fa, pairs[i][0], pairs[i][1], None, not PREC_USED_FIXED) for i in othu])
    umodel = core.run_lines([mirror], [plines[i] + uflags for i in othu])
    for i, oc, om in zip(othu, ucoq, umodel):
        ctx.count("statement_evaluated_for_other_fu")
        if " # " in oc and oc.split(" # ", 1)[1] != expected[i]:
            ctx.count("statement_for_other_fu_with_different_warnings")
        if " # " not in oc or oc.split(" # ", 1)[0] != coq[i].split(" # ", 1)[0] or om != oc.split(" # ", 1)[1]:
            bad["thm"] += 1
            ctx.violation({"what": "ROUND-TRIP STATEMENT FALSE FOR THIS PAIR with fu = %s: the extracted mirror on (print lay ag) does not "
                                   "return (ast_of fa fp lay ag) with (warnings_of fa fp fu lay ag) although wf_agram/wf_layout hold"
                                   % ("false" if PREC_USED_FIXED else "true"),
                           "pair": describe(*pairs[i]), "text": texts[i], "mirror": om[:3000], "expected": oc[:3000],
                           "differences_mirror_vs_expected": diff_sections(om, oc.split(" # ", 1)[-1]),
                           "replay_cmd": "echo '%s' | .work/ocaml/c10round/gvm_c10round ; echo '%s' | .work/ocaml/c10yp/gvm_c10yp"
                                         % (encode(fa, pairs[i][0], pairs[i][1], None, not PREC_USED_FIXED), plines[i] + uflags)}, no_input=True)
    for (ag, lay), case, text, exp, pline, a, m in zip(pairs, cases, texts, expected, plines, impl, model):
        nprods = sum(len(ps) for _, ps, _ in ag["rules"])
        ctx.case(case, len(ag["decls"]) >= 2 and nprods >= 2, {"text": text[:400]})
        account(ctx, ag, lay, text)
        replay = "echo '%s' | .work/ocaml/c10round/gvm_c10round ; echo '%s' | .work/target/release/c10yp ; " \
                 "echo '%s' | .work/ocaml/c10yp/gvm_c10yp" % (case, pline, pline + MODEL_FLAGS)
        # (b) the Coq printer is the printer described by the path scheme
        ptext = py_print(ag, lay)
        if ptext != text:
            bad["print"] += 1
            ctx.violation({"what": "the extracted Coq printer (C10/YpPrint.v print) and the independent Python printer disagree: "
                                   "the round-trip check no longer speaks about the printer of the theorem",
                           "pair": describe(ag, lay), "coq_text": text, "python_text": ptext, "replay_cmd": replay}, no_input=True)
        # (d) the statement of the theorem, evaluated: mirror of the parser on the printed text
        if m != exp:
            bad["thm"] += 1
            ctx.violation({"what": "ROUND-TRIP STATEMENT FALSE FOR THIS PAIR: run_case true %s k (print lay ag) (the extracted mirror) "
                                   "is not Done (TResult (ast_of lay ag) [] (warnings_of lay ag)) although wf_agram/wf_layout hold"
                                   % ("true" if fa else "false"),
                           "pair": describe(ag, lay), "text": text, "mirror": m[:3000], "expected": exp[:3000],
                           "differences_mirror_vs_expected": diff_sections(m, exp), "replay_cmd": replay}, no_input=True)
        # (c) the round trip on the implementation
        head = a.split(" ", 1)[0]
        badspan = " # BADSPAN" in a and (ACTION_SPAN_FIXED or not badspans_are_action_spans(text, a))
        if " # BADSPAN" in a:
            ctx.count("impl_action_span_off_char_boundary (fa = false)")
        if head in ("PANIC", "HANG", "CRASH") or strip_bad(a) != exp or badspan:
            bad["impl"] += 1
            ctx.violation({"what": "print-then-parse round trip fails on the implementation: ASTWithValidityInfo::new on the text printed "
                                   "for a well-formed (grammar, layout) pair does not build the AST the text denotes"
                                   + (" (a span is off a character boundary / out of range)" if badspan and strip_bad(a) == exp else ""),
                           "pair": describe(ag, lay), "text": text, "impl": a[:3000], "expected": exp[:3000],
                           "differences_impl_vs_expected": diff_sections(strip_bad(a), exp),
                           "mirror_agrees_with": "expected" if m == exp else ("implementation" if m == strip_bad(a) else "neither"),
                           "replay_cmd": replay})
        ctx.count("outcome_" + (head if head in ("OK", "ERRS", "PANIC", "HANG", "CRASH") else "other"))
