"""C10 half (b) stand-alone runner (text -> AST); the coordinator merges it into checks/C10.py."""
from vlib import core
from checks import c10_parser


def run(ctx):
    ctx.gate = core.proof_gate("C10b")
    for _ in ctx.gate["theorems"]:
        ctx.oblige(True)
    c10_parser.run_part(ctx)
