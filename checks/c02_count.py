"""C02, last clause ("never more states than the canonical automaton"): what is evaluated per generated grammar
beside the count itself.

Coq (theories/C02/CountSpec.v, CountProofs.v) proves the clause for every graph of the mirror in which no two states
have the same cores (C02_pager_states_le_canonical_distinct_cores) and, in general, under the named condition
`path_function` (C02_pager_states_le_canonical_partial): paths denoting the same canonical state end in the same
state of the graph.  The full statement `pager_states_le_canonical_stmt` is not proved.  Here, on the implementation's
own StateGraph (the K / E sections of the harness dump):
  distinct_cores   no two states with the same cores            -> the clause is a theorem for this graph
  path_function    evaluated on the product of the canonical LR(1) automaton with the graph (every canonical state
                   paired with ONE state of the graph)          -> the clause is a theorem for this graph
  hall             otherwise: is there an injection state -> canonical state it covers (bipartite matching)?
                   equivalent to the count argument going through; reported, not a verdict
The canonical collection used for the product is a plain Python closure/goto (the closure that follows the code, as
LR/CloseSpec.v does); it is cross-checked against the number of states of the validated extracted canon_lr1 and the
evaluation is dropped (counted) when they differ.  The VERDICT on the clause stays the comparison of the two counts
in checks/C02.py."""


class _G:
    def __init__(self, dg):
        self.prods = dg.prods
        self.eof, self.start_prod = dg.eof, dg.start_prod
        self.byrule = dg.by_rule
        nl = dg.nullable()
        self.nullable = nl
        first = {}
        ch = True
        while ch:
            ch = False
            for l, r in self.prods:
                f = first.setdefault(l, set())
                n = len(f)
                for x in r:
                    if x % 2 == 0:
                        f.add(x // 2)
                        break
                    f |= first.get(x // 2, set())
                    if (x // 2) not in nl:
                        break
                if len(f) != n:
                    ch = True
        self.first = first
        self._fc = {}

    def firstseq(self, p, d):
        k = (p, d)
        if k not in self._fc:
            out, nl = set(), True
            for x in self.prods[p][1][d:]:
                if x % 2 == 0:
                    out.add(x // 2)
                    nl = False
                    break
                out |= self.first.get(x // 2, set())
                if (x // 2) not in self.nullable:
                    nl = False
                    break
            self._fc[k] = (frozenset(out), nl)
        return self._fc[k]


def _close(g, K):
    C = {k: set(v) for k, v in K}
    todo = list(C)
    while todo:
        p, d = todo.pop()
        rhs = g.prods[p][1]
        if d >= len(rhs) or rhs[d] % 2 == 0:
            continue
        f, nl = g.firstseq(p, d + 1)
        ctx = set(f)
        if nl:
            ctx |= C[(p, d)]
        for q in g.byrule.get(rhs[d] // 2, []):
            if (q, 0) not in C:
                C[(q, 0)] = set(ctx)
                todo.append((q, 0))
            elif not ctx <= C[(q, 0)]:
                C[(q, 0)] |= ctx
                todo.append((q, 0))
    return C


def evaluate(dg, secs, n_canon, limit=600):
    """-> dict(distinct_cores, path_function, hall) ; path_function/hall None when not evaluated"""
    kern, edges = {}, {}
    nst = 0
    for s in secs:
        if not s:
            continue
        if s[0] == "N":
            nst = int(s[1])
        elif s[0] == "K":
            kern.setdefault(int(s[1]), {})[(int(s[2]), int(s[3]))] = frozenset(int(x) for x in s[4:])
        elif s[0] == "E":
            edges.setdefault(int(s[1]), {})[int(s[2])] = int(s[3])
    cores = [frozenset(kern.get(i, {})) for i in range(nst)]
    out = {"distinct_cores": len(set(cores)) == nst, "path_function": None, "hall": None}
    if out["distinct_cores"] or n_canon > limit:
        return out
    g = _G(dg)
    k0 = frozenset([((g.start_prod, 0), frozenset([g.eof]))])
    seen = {(k0, 0)}
    st = [(k0, 0)]
    while st:
        K, s = st.pop()
        cl = _close(g, K)
        by = {}
        for (p, d), la in cl.items():
            rhs = g.prods[p][1]
            if d < len(rhs):
                by.setdefault(rhs[d], {})[(p, d + 1)] = frozenset(la)
        for X, n in by.items():
            t = edges.get(s, {}).get(X)
            if t is None:
                return out            # the graph is not complete on a viable path: validE's business, not ours
            pr = (frozenset(n.items()), t)
            if pr not in seen:
                if len(seen) > 20 * limit:
                    return out
                seen.add(pr)
                st.append(pr)
    m = {}
    for K, s in seen:
        m.setdefault(K, set()).add(s)
    if len(m) != n_canon:
        out["canon_mismatch"] = (len(m), n_canon)
        return out
    out["path_function"] = all(len(v) == 1 for v in m.values())
    if not out["path_function"]:
        adj = {}
        for K, s in seen:
            adj.setdefault(s, []).append(K)
        match = {}

        def aug(s, vis):
            for K in adj.get(s, []):
                if K in vis:
                    continue
                vis.add(K)
                if K not in match or aug(match[K], vis):
                    match[K] = s
                    return True
            return False
        out["hall"] = sum(1 for s in range(nst) if aug(s, set())) == nst
    return out
