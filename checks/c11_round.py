"""C11 round trip — the tie of the print-then-parse theorem to the implementation.

The theorem (C11/RoundSpec.v, Round*.v; Properties/C11round.v) says: for every abstract lexer
specification `sp`, layout `lay` and flag setting (awc = allow_wholeline_comments, pe = posix_escapes,
iw = ignore_whitespace) with `wf_aspec awc sp` and `wf_layout awc lay sp`

    lex_from_str repaired (print_spec lay sp) 0 awc pe iw [] = Done (POk (spec_of pe iw lay sp))

(`repaired` includes the proposed white-space repair of unescape, C11.IW_ESCAPE_FIXED: until it is committed the
cases are drawn with iw = false, where — theorem C11_iw_off_irrelevant — the repair is invisible.)

This check makes that statement speak about /repo.  Random (sp, lay, awc, pe) inside the hypotheses
(checked twice: by an independent Python implementation of wf_aspec / wf_layout and by the extracted
Coq booleans — a generator bug is an assertion failure, never a violation) that use all the freedom
the layout leaves are

 (a) printed and given their denotation by the EXTRACTED Coq definitions (ocaml/c11round:
     `print_spec`, `spec_of` of C11/Print.v) — text + expected transcript;
 (b) printed and denoted again by an independent Python printer / denotation written from the
     description of the layout: equal texts, equal transcripts;
 (c) parsed by the real parser (harness binary c11: `from_str`, or `new_with_options` when a flag is
     set): its OK section (rules: name, name_span, re_str, start-state ids, target; start states: id,
     name, kind, span) must be the expected transcript, as strings;
 (d) parsed by the extracted Coq mirror (`lex_from_str repaired`, in the same driver): must be the
     expected transcript too — the theorem's statement itself, evaluated on the case.

The theorem assumes that every regex compiles (re_bad = []): the generator builds the written regexes
from atoms the regex crate accepts; should the implementation answer with a lone RegexError while the
harness confirms (WC section) that the regex crate rejects the EXPECTED regex, the case is outside
the premise and only counted.
"""
from vlib import core
from checks.C11 import sections, parse_errs
from checks import C11 as C11check

WS = [9, 10, 11, 12, 13, 32, 133, 8206, 8207, 8232, 8233]          # Pattern_White_Space
LINESEP = [10, 11, 13, 8232, 8233]
IWS = [9, 12, 32, 133, 8206, 8207]
WSS, LSS, IWSS = set(map(chr, WS)), set(map(chr, LINESEP)), set(map(chr, IWS))
META = set("\\.+*?()|[]{}^$#&-~")
ALPHA = "abcdefghijklmnopqrstuvwxyzABCDEFGHIJKLMNOPQRSTUVWXYZ"
DIGIT = "0123456789"
OCTAL = "01234567"
XDIGIT = DIGIT + "abcdefABCDEF"


# =====================================================================================
#  independent Python implementation of the escape rewriting (Spec.v map_escapes)
# =====================================================================================
def lex_esc_literal(s):
    """the escapes the regex engine gives a meaning (Spec.v rx_escape_class): hexadecimal (fixed width or braced), octal digit,
    C escapes, classes, the assertions \\A \\z \\B"""
    c = s[0]
    return ((c in "xuU" and len(s) > 1 and (s[1] in XDIGIT or s[1] == "{")) or c in OCTAL
            or c in "afnrtv\\" or c in "pP"
            or c in "dDsSwW" or c in "AzB")


# char::is_whitespace: what the regex engine skips when ignore_whitespace is on
RX_WS = set(map(chr, [9, 10, 11, 12, 13, 32, 0x85, 0xA0, 0x1680] + list(range(0x2000, 0x200B)) + [0x2028, 0x2029, 0x202F, 0x205F, 0x3000]))


def map_escapes(pe, re, iw=False):
    out, i = [], 0
    while i < len(re):
        c = re[i]
        if c != "\\":
            out.append(c)
            i += 1
        elif i + 1 == len(re):
            out.append(c)
            i += 1
        else:
            c2 = re[i + 1]
            if c2 == "b":
                out.append("\\x08" if pe else "\\b")
            elif c2 in META or lex_esc_literal(re[i + 1:]):
                out.append("\\" + c2)
            elif iw and c2 in RX_WS:
                out.append("\\" + c2 if ord(c2) < 128 else "\\x{%X}" % ord(c2))
            else:
                out.append(c2)
            i += 2
    return "".join(out)


# =====================================================================================
#  independent Python implementation of the well-formedness conditions (RoundSpec.v)
# =====================================================================================
def is_state_name(n):
    return n != "" and n[0] in ALPHA and all(c in ALPHA or c in DIGIT or c in "_." for c in n[1:])


def re_trim_ok(w):
    if w == "":
        return True
    c, r = w[-1], w[:-1]
    if c in " \t" or c == "\\":         # only a space, a tab or a backslash at the end needs to be escaped
        k = len(r) - len(r.rstrip("\\"))
        return k % 2 == 1
    return True


def re_printable(awc, has_pre, w):
    if any(c in LSS for c in w) or not re_trim_ok(w):
        return False
    if has_pre:
        return True
    return w != "" and w[0] not in WSS and w[0] != "<" and not w.startswith("%%") and not (awc and w.startswith("//"))


def wf_aspec(awc, sp):
    why = []
    names = ["INITIAL"] + [n for n, _ in sp["states"]]
    for n, _ in sp["states"]:
        if not is_state_name(n):
            why.append("state name %r" % n)
    if len(set(names)) != len(names):
        why.append("duplicate start state")
    rn = []
    for k, r in enumerate(sp["rules"]):
        for n in r["pre"]:
            if n not in names:
                why.append("rule %d prefix names undeclared %r" % (k, n))
        if r["target"] is not None and r["target"][0] not in names:
            why.append("rule %d target undeclared" % k)
        if r["name"] is not None:
            rn.append(r["name"])
            if r["name"] == "" or any(c in " \t" or c in LSS for c in r["name"]):
                why.append("rule %d name %r" % (k, r["name"]))
        if not re_printable(awc, bool(r["pre"]), r["re"]):
            why.append("rule %d regex %r not printable" % (k, r["re"]))
    if len(set(rn)) != len(rn):
        why.append("duplicate rule name")
    return why


def all_in(s, cls):
    return all(c in cls for c in s)


def wf_comment(awc, b, nl):
    return awc and not any(c in LSS for c in b) and nl in LSS


def wf_ditem(awc, it):
    return it[1] in WSS if it[0] == "w" else wf_comment(awc, it[1], it[2])


def wf_ritem(awc, it):
    return it[1] in LSS if it[0] == "n" else wf_comment(awc, it[1], it[2])


def wf_layout(awc, lay, sp):
    why = []
    if not all(wf_ditem(awc, it) for it in lay["pre"]):
        why.append("l_pre")
    sts = list(sp["states"])
    for k, dl in enumerate(lay["dlines"]):
        cnt = 1 + len(dl["seps"])
        if cnt > len(sts):
            why.append("dline %d takes more states than are left" % k)
            break
        grp, sts = sts[:cnt], sts[cnt:]
        if any(e != grp[0][1] for _, e in grp):
            why.append("dline %d mixes kinds" % k)
        if not (all_in(dl["kw"], ALPHA + DIGIT) and dl["gap"] != "" and all_in(dl["gap"], IWSS) and all(sp_ != "" and all_in(sp_, IWSS) for sp_ in dl["seps"])
                and all_in(dl["trail"], IWSS) and dl["nl"] in LSS and all(wf_ditem(awc, it) for it in dl["after"])):
            why.append("dline %d layout" % k)
    if sts:
        why.append("states left without a declaration line")
    if not all_in(lay["sepb"], " \t"):
        why.append("l_sep_blanks")
    if not all(wf_ritem(awc, it) for it in lay["gap0"]):
        why.append("l_gap0")
    if len(lay["rlines"]) != len(sp["rules"]):
        why.append("number of rule-line layouts")
    eof = lay["final"] == ("e",)
    for k, rl in enumerate(lay["rlines"]):
        last = eof and k + 1 == len(lay["rlines"])
        a = rl["after"]
        after_ok = last if not a else a[0][0] == "n"
        if not (all(all_in(l, IWSS) and all_in(r, IWSS) for l, r in rl["pads"]) and all_in(rl["blanks"], " \t") and rl["sp"] in " \t"
                and all_in(rl["trail"], IWSS) and all(wf_ritem(awc, it) for it in a) and after_ok):
            why.append("rline %d layout" % k)
    f = lay["final"]
    if f[0] == "ec" and not (awc and not any(c in LSS for c in f[1])):
        why.append("final comment")
    if f[0] == "cl" and not all_in(f[1], WSS):
        why.append("closing white space")
    return why


# =====================================================================================
#  independent Python printer + denotation (text and expected transcript)
# =====================================================================================
def xh(s):
    return "x" + s.encode("utf-8").hex()


class Out:
    def __init__(self):
        self.parts, self.n = [], 0

    def put(self, s):
        self.parts.append(s)
        self.n += len(s.encode("utf-8"))


def put_items(o, items):
    for it in items:
        o.put(it[1] if it[0] in "wn" else "//" + it[1] + it[2])


def py_print(pe, sp, lay, iw=False):
    """(text, transcript of the parser state the text denotes)"""
    o = Out()
    names = ["INITIAL"] + [n for n, _ in sp["states"]]
    srec = ["s 0 %s 0 0 0" % xh("INITIAL")]
    put_items(o, lay["pre"])
    sts = list(sp["states"])
    sid = 1
    for dl in lay["dlines"]:
        cnt = 1 + len(dl["seps"])
        grp, sts = sts[:cnt], sts[cnt:]
        excl = grp[0][1]
        o.put("%" + (("X" if dl["upper"] else "x") if excl else ("S" if dl["upper"] else "s")) + dl["kw"] + dl["gap"])
        for k, (n, _) in enumerate(grp):
            if k > 0:
                o.put(dl["seps"][k - 1])
            srec.append("s %d %s %d %d %d" % (sid, xh(n), 1 if excl else 0, o.n, o.n + len(n.encode("utf-8"))))
            sid += 1
            o.put(n)
        o.put(dl["trail"] + dl["nl"])
        put_items(o, dl["after"])
    o.put("%%" + lay["sepb"])
    put_items(o, lay["gap0"])
    rrec = []
    for r, rl in zip(sp["rules"], lay["rlines"]):
        if r["pre"]:
            pieces = []
            for k, n in enumerate(r["pre"]):
                l, rr = rl["pads"][k] if k < len(rl["pads"]) else ("", "")
                pieces.append(l + n + rr)
            o.put("<" + ",".join(pieces) + ">")
        o.put(r["re"] + rl["blanks"] + rl["sp"])
        skip_at = o.n
        tg = "-"
        if r["target"] is not None:
            st, op = r["target"]
            o.put("<" + {"R": "", "+": "+", "-": "-"}[op] + st + ">")
            tg = "%d:%s" % (names.index(st), op)
        if r["name"] is None:
            o.put({";": ";", "d": '""', "s": "''"}[rl["skip"]])
            nm, s, e = "-", skip_at, skip_at
        else:
            q = "'" if rl["q"] == "s" else '"'
            s = o.n + 1
            e = s + len(r["name"].encode("utf-8"))
            o.put(q + r["name"] + q)
            nm = xh(r["name"])
        o.put(rl["trail"])
        put_items(o, rl["after"])
        ids = ",".join(str(names.index(n)) for n in r["pre"]) or "-"
        rrec.append("r %s %d %d %s %s %s" % (nm, s, e, xh(map_escapes(pe, r["re"], iw)), ids, tg))
    f = lay["final"]
    o.put("" if f[0] == "e" else "//" + f[1] if f[0] == "ec" else "%%" + f[1])
    tr = " ; ".join(["OK %d %d" % (len(rrec), len(srec))] + rrec + srec)
    return "".join(o.parts), tr


# =====================================================================================
#  wire format of ocaml/c11round/driver_body.ml
# =====================================================================================
def enc_items(items):
    w = [str(len(items))]
    for it in items:
        w += [it[0], str(ord(it[1]))] if it[0] in "wn" else ["c", xh(it[1]), str(ord(it[2]))]
    return w


def encode(awc, pe, iw, sp, lay):
    w = ["1" if awc else "0", "1" if pe else "0", "1" if iw else "0", str(len(sp["states"]))]
    for n, e in sp["states"]:
        w += [xh(n), "1" if e else "0"]
    w.append(str(len(sp["rules"])))
    for r in sp["rules"]:
        w += [str(len(r["pre"]))] + [xh(n) for n in r["pre"]] + [xh(r["re"])]
        w.append("-" if r["name"] is None else xh(r["name"]))
        w += ["-"] if r["target"] is None else [{"R": "R", "+": "+", "-": "~"}[r["target"][1]], xh(r["target"][0])]
    w += enc_items(lay["pre"])
    w.append(str(len(lay["dlines"])))
    for dl in lay["dlines"]:
        w += ["1" if dl["upper"] else "0", xh(dl["kw"]), xh(dl["gap"]), str(len(dl["seps"]))] + [xh(c) for c in dl["seps"]]
        w += [xh(dl["trail"]), str(ord(dl["nl"]))] + enc_items(dl["after"])
    w.append(xh(lay["sepb"]))
    w += enc_items(lay["gap0"])
    w.append(str(len(lay["rlines"])))
    for rl in lay["rlines"]:
        w.append(str(len(rl["pads"])))
        for l, r in rl["pads"]:
            w += [xh(l), xh(r)]
        w += [xh(rl["blanks"]), str(ord(rl["sp"])), rl["q"], rl["skip"], xh(rl["trail"])] + enc_items(rl["after"])
    f = lay["final"]
    w += ["e"] if f[0] == "e" else [f[0], xh(f[1])]
    return " ".join(w)


# =====================================================================================
#  generator
# =====================================================================================
STATE_POOL = ["A", "B", "Cc", "s_1", "X.y", "Str", "k9", "INITIAL_", "initial", "I", "x", "S", "s", "Xstate", "a.b.c", "Z_", "INITIA"]
NAME_PIECES = ["ID", "T", "é", "a'b", 'q"r', "<x>", "+", ";", "''", '""', "%%", "//", "İ", "\x0c", "\x85", "\u200e", "\u200f",
               "\\", "\U0001F600", "<", ">", "'", '"', "a;b", "x.y", "<+A>", "N", "k", "_", "0", "♠", "\xa0", "\x00", "\x7f"]
COMMENT_PIECES = [" c", "%% not a separator", "é ♠ 'x'", "<A>a 'T'", "", "/", "//", "%s X", "\t", "\x0c", "\u200e", "%x Q",
                  "a 'b'", "\U0001F600", "\x85", " ", "%", "\\"]
PLAIN_ESC = ['"', "'", "<", ">", ",", ";", "%", "!", "=", "@", "_", "/", ":", "`", "é", "♠", "\U0001F600", "q", "h", "y", "g",
             "ß", "Ω", " ", "\t", "\x0c", "\x85", "\u200e", "\xa0", "\u3000", "8", "9"]
LITERALS = list("abcxyz019_=!@:`,;'\"<>%/") + ["é", "♠", "\U0001F600", "ß", "Ω", " ", "\t", "\x0c", "\x85", "\u200e", "\u200f"]
LEXESC = ["\\d", "\\w", "\\s", "\\n", "\\t", "\\x41", "\\101", "\\u00e9", "\\pL", "\\a", "\\f", "\\r", "\\v", "\\D", "\\S", "\\W", "\\x7a",
          "\\A", "\\z", "\\U0001F600", "\\0", "\\7", "\\B", "\\x{41}", "\\u{e9}", "\\U{1F600}", "\\x{2}", "\\P{L}", "\\18", "\\78"]
GROUPS = ["[a-c]", "[^x]", ".", "(ab|c)", "[é♠]", "(a|é)", "[0-9]", "[\\]a]", "[b\\-c]", "[ \t]", "[<>]", "(?:x y)", "[',\";]",
          "[%/]", "a{2}", "a{1,3}", "[\\ x]", "[\\\xa0\\#]", "[\\x{41}-\\x{43}]", "[^\\u{e9}]", "[\\U{1F600}a]", "[\\8\\9]", "[0-\\8]"]


def gen_regex(rng, awc, pe, has_pre):
    for _ in range(200):
        if has_pre and rng.random() < 0.06:
            w = ""
        else:
            parts = []
            n = rng.choice([1, 1, 2, 2, 3, 4, 5])
            for k in range(n):
                r = rng.random()
                if r < 0.25:
                    a = rng.choice(LITERALS)
                elif r < 0.45:
                    a = "\\" + rng.choice(PLAIN_ESC)
                elif r < 0.55:
                    a = "\\" + rng.choice(sorted(META))
                elif r < 0.67:
                    a = rng.choice(LEXESC)
                elif r < 0.73:
                    a = "\\b"
                elif r < 0.9:
                    a = rng.choice(GROUPS)
                else:
                    a = rng.choice(["%%", "//", "<", "%", "/", "<A>", "\\\\", "\\ "])
                parts.append(a)
                if rng.random() < 0.2 and a not in ("\\b", "\\A", "\\z", "\\B") and not a.endswith("}"):
                    parts.append(rng.choice(["+", "*", "?"]))
            w = "".join(parts)
        if not C11check.ESC_OCTAL_FIXED and C11check.G.has_nonoctal_escape(w):
            continue          # `\8` `\9`: only once the digit repair of the escape table is in /repo (theorem about `repaired`)
        if re_printable(awc, has_pre, w):
            return w
    return "a"


def gen_state_name(rng, used):
    while True:
        if rng.random() < 0.6:
            n = rng.choice(STATE_POOL)
        else:
            n = rng.choice(ALPHA) + "".join(rng.choice(ALPHA + DIGIT + "_.") for _ in range(rng.choice([0, 1, 2, 4, 7])))
        if n not in used and n != "INITIAL":
            used.add(n)
            return n


def gen_rule_name(rng, used):
    for _ in range(200):
        n = "".join(rng.choice(NAME_PIECES) for _ in range(rng.choice([1, 1, 1, 2, 2, 3])))
        if n and n not in used:
            used.add(n)
            return n
    raise AssertionError("rule-name generator exhausted")


def random_spec(rng, awc, pe):
    used = set()
    ns = rng.choice([0, 0, 1, 2, 3, 3, 5, 8])
    states = [(gen_state_name(rng, used), rng.random() < 0.5) for _ in range(ns)]
    if states and rng.random() < 0.4:                     # runs of one kind, so that lines can declare several states
        states.sort(key=lambda s: s[1], reverse=rng.random() < 0.5)
    allst = ["INITIAL"] + [n for n, _ in states]
    rules, rused = [], set()
    for _ in range(rng.choice([0, 1, 1, 2, 3, 4, 6, 9]) if rng.random() < 0.9 else rng.randint(10, 25)):
        pre = []
        if rng.random() < 0.45:
            pre = [rng.choice(allst) for _ in range(rng.choice([1, 1, 2, 3, 5]))]       # repetitions allowed
        target = (rng.choice(allst), rng.choice("R+-")) if rng.random() < 0.4 else None
        name = None if rng.random() < 0.25 else gen_rule_name(rng, rused)
        rules.append({"pre": pre, "re": gen_regex(rng, awc, pe, bool(pre)), "name": name, "target": target})
    return {"states": states, "rules": rules}


def blanks(rng, lo=0, hi=3, cls=IWS):
    return "".join(chr(rng.choice(cls)) if rng.random() < 0.5 else rng.choice(" \t") for _ in range(rng.randint(lo, hi)))


def gen_comment(rng):
    return "".join(rng.choice(COMMENT_PIECES) for _ in range(rng.choice([0, 1, 1, 2, 3]))), chr(rng.choice(LINESEP))


def gen_ditems(rng, awc):
    out = []
    for _ in range(rng.choice([0, 0, 1, 1, 2, 3, 5])):
        if awc and rng.random() < 0.35:
            out.append(("c",) + gen_comment(rng))
        else:
            out.append(("w", chr(rng.choice(WS)) if rng.random() < 0.6 else rng.choice(" \n\t")))
    return out


def gen_ritems(rng, awc, first_nl):
    out = []
    for k in range(rng.choice([0, 0, 1, 1, 2, 3]) + (1 if first_nl else 0)):
        if awc and rng.random() < 0.4 and not (first_nl and k == 0):
            out.append(("c",) + gen_comment(rng))
        else:
            out.append(("n", chr(rng.choice(LINESEP)) if rng.random() < 0.5 else "\n"))
    return out


def random_layout(rng, awc, sp):
    dlines = []
    sts = sp["states"]
    i = 0
    while i < len(sts):
        j = i + 1
        while j < len(sts) and sts[j][1] == sts[i][1] and rng.random() < 0.6:
            j += 1
        dlines.append({"upper": rng.random() < 0.4, "kw": rng.choice(["", "", "tate", "tart", "9", "X", "s", "x", "ABC123", "S"]),
                       "gap": blanks(rng, 1, 3), "seps": [blanks(rng, 1, 1 if rng.random() < 0.5 else 4) for _ in range(j - i - 1)], "trail": blanks(rng, 0, 2),
                       "nl": chr(rng.choice(LINESEP)) if rng.random() < 0.5 else "\n", "after": gen_ditems(rng, awc)})
        i = j
    r = rng.random()
    final = ("e",) if r < 0.4 else ("ec", gen_comment(rng)[0]) if (r < 0.55 and awc) else ("cl", blanks(rng, 0, 3, WS))
    rlines = []
    for k, rule in enumerate(sp["rules"]):
        last = final == ("e",) and k + 1 == len(sp["rules"])
        npads = len(rule["pre"]) if rng.random() < 0.7 else rng.randint(0, len(rule["pre"]) + 2)
        after = gen_ritems(rng, awc, True)
        if last and rng.random() < 0.5:
            after = []
        rlines.append({"pads": [(blanks(rng, 0, 2), blanks(rng, 0, 2)) for _ in range(npads)], "blanks": "".join(rng.choice(" \t") for _ in range(rng.randint(0, 2))),
                       "sp": rng.choice(" \t"), "q": rng.choice("sd"), "skip": rng.choice(";ds"), "trail": blanks(rng, 0, 2), "after": after})
    return {"pre": gen_ditems(rng, awc), "dlines": dlines, "sepb": "".join(rng.choice(" \t") for _ in range(rng.choice([0, 0, 1, 2, 3]))),
            "gap0": gen_ritems(rng, awc, False), "rlines": rlines, "final": final}


def corpus():
    """hand-written cases: the minimal texts and one specification with every construct"""
    out = []
    empty = {"states": [], "rules": []}
    for awc in (False, True):
        out.append((awc, False, empty, {"pre": [], "dlines": [], "sepb": "", "gap0": [], "rlines": [], "final": ("e",)}))       # "%%"
        out.append((awc, False, empty, {"pre": [], "dlines": [], "sepb": "", "gap0": [], "rlines": [], "final": ("cl", "")}))   # "%%%%"
    one = {"states": [], "rules": [{"pre": [], "re": "a", "name": "A", "target": None}]}
    rl = {"pads": [], "blanks": "", "sp": " ", "q": "s", "skip": ";", "trail": "", "after": []}
    out.append((False, False, one, {"pre": [], "dlines": [], "sepb": "", "gap0": [], "rlines": [rl], "final": ("e",)}))        # "%%a 'A'"
    full = {"states": [("Str", True), ("A", False), ("B.c", False)],
            "rules": [{"pre": ["INITIAL", "Str"], "re": '\\"a\\ ', "name": "OPEN", "target": ("Str", "+")},
                      {"pre": [], "re": "[ \\t]+", "name": None, "target": None},
                      {"pre": ["Str"], "re": "x\x0c", "name": "it's", "target": ("A", "-")},
                      {"pre": [], "re": "b\\\\", "name": None, "target": ("B.c", "R")}]}
    for awc in (False, True):
        for pe in (False, True):
            cm = [("c", " hi", "\n")] if awc else []
            rc = [("c", " c", "\n")] if awc else []
            lay = {"pre": [("w", "\n")] + cm,
                   "dlines": [{"upper": False, "kw": "", "gap": " ", "seps": [], "trail": "", "nl": "\n", "after": []},
                              {"upper": True, "kw": "t4", "gap": " \t", "seps": ["\t \x0c"], "trail": " ", "nl": "\r", "after": [("w", "\n"), ("w", " ")]}],
                   "sepb": " ", "gap0": [("n", "\n")],
                   "rlines": [{"pads": [("", ""), (" ", "")], "blanks": "\t", "sp": " ", "q": "d", "skip": ";", "trail": "", "after": [("n", "\n")]},
                              {"pads": [], "blanks": "", "sp": " ", "q": "s", "skip": ";", "trail": " ", "after": [("n", "\r"), ("n", "\n")]},
                              {"pads": [], "blanks": "", "sp": " ", "q": "s", "skip": ";", "trail": "", "after": [("n", "\n")] + rc},
                              {"pads": [], "blanks": " ", "sp": " ", "q": "s", "skip": "d", "trail": "", "after": []}],
                   "final": ("e",)}
            out.append((awc, pe, full, lay))
    return out


# =====================================================================================
#  coverage accounting
# =====================================================================================
def account(ctx, awc, pe, iw, sp, lay, text):
    c = ctx.count
    c("flags_awc%d_pe%d_iw%d" % (awc, pe, iw))
    c("states_%s" % ("0" if not sp["states"] else "1-2" if len(sp["states"]) < 3 else "3+"))
    if any(len(dl["seps"]) > 0 for dl in lay["dlines"]):
        c("declaration_line_with_several_states")
    if any(dl["kw"] for dl in lay["dlines"]):
        c("long_keyword")
    if any(not s.isascii() for dl in lay["dlines"] for s in dl["seps"] + [dl["gap"]]):
        c("declaration_blank_multibyte")
    if any(len(s) > 1 for dl in lay["dlines"] for s in dl["seps"]):
        c("declaration_names_separated_by_several_blanks")
    if not sp["rules"]:
        c("no_rule")
    for r, rl in zip(sp["rules"], lay["rlines"]):
        c("rule")
        c("rule_skip" if r["name"] is None else "rule_named_" + rl["q"])
        if r["name"] is None:
            c("skip_spelled_" + {";": "semicolon", "d": "dquotes", "s": "squotes"}[rl["skip"]])
        if r["pre"]:
            c("rule_with_prefix")
            if len(r["pre"]) > 1:
                c("prefix_several_states")
            if any(l or x for l, x in rl["pads"][:len(r["pre"])]):
                c("prefix_padded")
            if r["re"] == "":
                c("prefix_then_empty_regex")
            elif r["re"][0] in WSS or r["re"][0] == "<" or r["re"].startswith("%%"):
                c("prefix_then_regex_starting_with_blank_or_<_or_%%")
        if r["target"] is not None:
            c("target_" + {"R": "replace", "+": "push", "-": "pop"}[r["target"][1]])
            if r["name"] is None:
                c("target_on_skip_rule")
        if map_escapes(pe, r["re"], iw) != r["re"]:
            c("regex_rewritten_by_unescape")
        if iw and map_escapes(pe, r["re"], True) != map_escapes(pe, r["re"], False):
            c("regex_with_escaped_white_space_under_ignore_whitespace")
        if r["re"] and r["re"][-1] in " \t":
            c("regex_ends_in_escaped_blank")
        if r["re"] and r["re"][-1] in "\x0c\x85\u200e\u200f":
            c("regex_ends_in_FF_NEL_LRM_RLM_" + ("escaped" if (len(r["re"][:-1]) - len(r["re"][:-1].rstrip("\\"))) % 2 == 1 else "bare"))
        if "\\B" in r["re"] or "{" in r["re"] and any(x in r["re"] for x in ("\\x{", "\\u{", "\\U{")):
            c("regex_with_\\B_or_braced_hex_escape")
        if r["re"].endswith("\\\\"):
            c("regex_ends_in_escaped_backslash")
        if any(ch in " \t" for ch in r["re"][:-1]):
            c("regex_with_inner_horizontal_blank")
        if r["name"] is not None:
            if "'" in r["name"] or '"' in r["name"]:
                c("name_with_quote")
            if not r["name"].isascii():
                c("name_multibyte")
            if any(ch in WSS for ch in r["name"]):
                c("name_with_nonhorizontal_blank")
        if not rl["after"]:
            c("text_ends_with_rule_line")
        if rl["blanks"]:
            c("several_blanks_before_name")
    items = list(lay["pre"]) + list(lay["gap0"]) + [it for dl in lay["dlines"] for it in dl["after"]] + [it for rl in lay["rlines"] for it in rl["after"]]
    if any(it[0] == "c" for it in items):
        c("comment")
    if any(it[0] in "wn" and it[1] in "\x0b  \r" for it in items):
        c("unusual_line_separator")
    if not lay["gap0"] and sp["rules"]:
        c("first_rule_on_the_line_of_%%")
    c("final_" + {"e": "eof", "ec": "comment_without_newline", "cl": "closing_%%"}[lay["final"][0]])
    c("text_bytes", len(text.encode("utf-8")))


def describe(awc, pe, iw, sp, lay):
    return {"awc": awc, "pe": pe, "iw": iw, "spec": sp, "layout": lay}


def opt_string(awc, pe, iw, rng):
    """None = from_str (defaults), else the flags for new_with_options"""
    fl = []
    if awc or rng.random() < 0.3:
        fl.append("awc:%d" % awc)
    if pe or rng.random() < 0.3:
        fl.append("pe:%d" % pe)
    if iw or (C11check.IW_ESCAPE_FIXED and rng.random() < 0.3):
        fl.append("iw:%d" % iw)
    return ",".join(fl) if fl else None


# =====================================================================================
#  the check
# =====================================================================================
BATCH = 6000


def run_part(ctx, tag="C11round"):
    exe = core.build_harness("c11")
    rexe = core.build_model("c11round")
    rng = ctx.rng
    n_cases = ctx.n(12000, 150000)
    bad = {"print": 0, "impl": 0, "thm": 0}
    done = 0
    while done < n_cases:
        k = min(BATCH, n_cases - done)
        run_batch(ctx, rng, k, exe, rexe, bad, corpus() if done == 0 else ())
        done += k
    ctx.oblige(bad["print"] == 0, "Coq printer/denotation = Python printer/denotation")
    ctx.oblige(bad["impl"] == 0, "implementation builds spec_of on print_spec")
    ctx.oblige(bad["thm"] == 0, "mirror builds spec_of on print_spec (the theorem's statement, evaluated)")
    ctx.coverage["rule"] = (
        "a corpus (the minimal texts '%%%%', '%%%%%%%%', a rule on the line of the %%%%, one specification with every construct under "
        "awc x pe) then %d random (specification, layout, awc, pe, iw — iw only once C11.IW_ESCAPE_FIXED) inside wf_aspec/wf_layout (asserted by an independent Python "
        "implementation AND by the extracted Coq booleans): 0-8 start states (names from the scanner's language incl. near-INITIAL), "
        "grouped into declaration lines at random (keyword %%s/%%S/%%x/%%X + alphanumerics, blanks from all six in-line "
        "Pattern_White_Space characters incl. multi-byte ones, one to four such blanks between names), 0-25 rules: <..> prefixes with "
        "repetitions and padded names, targets <S>/<+S>/<-S>, skip rules spelled ; \"\" '', names in either quoting style containing "
        "quotes, <, >, ;, %%%%, //, form feed, NEL, LRM, multi-byte characters; written regexes built from atoms the regex crate accepts "
        "(literals incl. blanks, escapes that unescape rewrites, regex/lex escapes incl. \\B and braced \\x{..} \\u{..} \\U{..} in and outside "
        "classes, \\b, classes, groups, quantifiers), ending in escaped blanks / escaped backslashes / a bare or escaped form feed, NEL, LRM, RLM "
        "(kept: only spaces and tabs separate the regex from the name), behind a prefix also empty or starting with a blank, '<', '%%%%', '//'; between lines "
        "every white-space character (declarations) resp. every line separator (rules), whole-line comments when awc; first rule on "
        "the line of the %%%%; text ending with a rule line, a comment without newline, or a closing %%%% + white space; from_str or "
        "new_with_options. text + expected transcript from the extracted print_spec/spec_of, compared as strings with the "
        "implementation's OK section and with the extracted mirror. non-trivial = >= 1 state and >= 2 rules; distinct by case line"
        % n_cases)
    ctx.coverage["cases"] = n_cases
    ctx.assumptions += [
        "code points of names, regexes and layout are Unicode scalar values (text = list N admits others; they cannot reach a Rust &str)",
        "the theorem's re_bad = [] (every regex compiles): a case where the regex crate rejects the expected regex is counted, not judged",
        "the theorem is about texts without %grmtools section (parser started at offset 0): the harness must report HDR 0",
    ]


def run_batch(ctx, rng, n, exe, rexe, bad, first=()):
    recs = []
    for i in range(n):
        if i < len(first):
            awc, pe, sp, lay = first[i]
            iw = C11check.IW_ESCAPE_FIXED and i % 2 == 1
        else:
            awc, pe = rng.random() < 0.5, rng.random() < 0.35
            # ignore_whitespace: only once the white-space repair of unescape is in /repo (see the module docstring)
            iw = C11check.IW_ESCAPE_FIXED and rng.random() < 0.35
            sp = random_spec(rng, awc, pe)
            lay = random_layout(rng, awc, sp)
        why = wf_aspec(awc, sp) + wf_layout(awc, lay, sp)
        assert not why, "generator produced a case outside wf_aspec/wf_layout: %s\n%r" % (why, describe(awc, pe, iw, sp, lay))
        recs.append((awc, pe, iw, sp, lay))
    cases = [encode(*r) for r in recs]
    coq = core.run_lines([rexe], cases)
    texts, expected, mirror = [], [], []
    for line, out in zip(cases, coq):
        f = out.split(" # ")
        if len(f) != 3 or not f[0].startswith("1 1 x"):
            if out.startswith(("0 ", "1 0")):
                raise AssertionError("the extracted wf_aspec/wf_layout reject a generated case (Python conditions accept it): %s\n%s"
                                     % (out[:100], line[:1500]))
            raise core.GateFailure("c11round-driver", "the extracted printer did not answer a case: %s\n%s" % (out[:300], line[:600]))
        texts.append(bytes.fromhex(f[0][5:]).decode("utf-8"))
        expected.append(f[1])
        mirror.append(f[2])
    hlines = []
    for (awc, pe, iw, sp, lay), text, exp in zip(recs, texts, expected):
        l = "src=%s" % text.encode("utf-8").hex()
        o = opt_string(awc, pe, iw, rng)
        if o is not None:
            l += " opt=%s f=%s" % (o, o)
        if sp["rules"]:
            l += " w=%s" % ";".join((map_escapes(pe, r["re"], iw).encode("utf-8").hex() or "-") for r in sp["rules"])
        hlines.append(l)
    impl = core.run_lines([exe], hlines)
    for rec, case, text, exp, m, hline, a in zip(recs, cases, texts, expected, mirror, hlines, impl):
        awc, pe, iw, sp, lay = rec
        ctx.case(case, len(sp["states"]) >= 1 and len(sp["rules"]) >= 2, {"text": text[:400]})
        account(ctx, awc, pe, iw, sp, lay, text)
        replay = "echo '%s' | .work/ocaml/c11round/gvm_c11round ; echo '%s' | .work/target/release/c11" % (case, hline)
        # (b) the Coq printer / denotation is the one described
        ptext, ptr = py_print(pe, sp, lay, iw)
        if ptext != text or ptr != exp:
            bad["print"] += 1
            ctx.violation({"what": "the extracted Coq definitions (C11/Print.v print_spec, spec_of) and the independent Python printer / "
                                   "denotation disagree: the round-trip check no longer speaks about the printer of the theorem",
                           "case": describe(*rec), "coq_text": text, "python_text": ptext, "coq_spec_of": exp, "python_spec_of": ptr,
                           "replay_cmd": replay}, no_input=True)
        # (d) the statement of the theorem, evaluated
        if m != exp:
            bad["thm"] += 1
            ctx.violation({"what": "ROUND-TRIP STATEMENT FALSE FOR THIS CASE: lex_from_str repaired (print_spec lay sp) 0 awc pe iw [] (the "
                                   "extracted mirror) is not Done (POk (spec_of pe iw lay sp)) although wf_aspec/wf_layout hold",
                           "case": describe(*rec), "text": text, "mirror": m[:3000], "expected": exp[:3000], "replay_cmd": replay},
                          no_input=True)
        # (c) the round trip on the implementation
        sec = sections(a)
        hdr = sec.get("HDR", "")
        if hdr.split()[:2] != ["HDR", "0"]:
            ctx.count("header_parser_did_not_return_offset_0 (outside the theorem: not judged)")
            continue
        if "OK" in sec:
            ctx.count("outcome_OK")
            ok = sec["OK"] == exp
        else:
            ok = False
            if "ERRS" in sec:
                ctx.count("outcome_ERRS")
                errs = parse_errs(sec["ERRS"])
                if len(errs) == 1 and errs[0][0] == "RegexError" and any(x.endswith(":0") for x in sec.get("WC", "").split()[1:]):
                    ctx.count("regex_crate_rejects_the_expected_regex (premise re_bad = [] not met: not judged)")
                    continue
            else:
                ctx.count("outcome_" + a.split(" ", 1)[0][:12])
        if not ok:
            bad["impl"] += 1
            got = sec.get("OK") or sec.get("ERRS") or sec.get("PANIC") or a[:300]
            diff = [[x, y] for x, y in zip(got.split(" ; "), exp.split(" ; ")) if x != y][:6]
            ctx.violation({"what": "print-then-parse round trip fails on the implementation: the lexer specification printed for a "
                                   "well-formed (specification, layout) does not parse to the rules / start states it denotes",
                           "case": describe(*rec), "text": text, "impl": got[:3000], "expected": exp[:3000],
                           "differences_impl_vs_expected": diff,
                           "mirror_agrees_with": "expected" if m == exp else ("implementation" if m == got else "neither"),
                           "replay_cmd": replay})
