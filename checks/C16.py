"""C16 — state graph and table queries agree with each other.

Proof (theories/C16): `coherent_b g A V = true -> coherent g A V`
(coherent_b_sound), `coherent` being the property clause by clause over a dump
extended with the derived views: state_actions = the non-error cells,
state_shifts = the shift cells, every shift / goto target = the graph's edge,
core_reduces = one production per (rule, length) class of the state's
reductions and nothing else, reduce_only_state iff all non-error actions
reduce one and the same class (at least one), every state reachable from the
start state, closed(s) = the declaratively defined LR(1) closure of core(s)
(FIRST by derivations; the proved-exact first_ref computes it).  The row
clauses are decided exactly (row_checks_reflect, targets_reflect), and so are
the two graph clauses and the whole checker (theories/C16/Exact*.v:
all_reachable_b_reflects — the iteration saturates within nstates rounds;
lr1_closure_exact / closure_b_reflects — the fuel of the reference closure is
enough; coherent_b_exact, coherent_b_exact_dump) for dumps meeting wf_grammar,
vS1, vS5, edges only on the grammar's symbols, core lookaheads within the
tokens — conditions the model evaluates on every dump (`K exact=`).  About the
code: the views StateTable::new computes from the FINAL cells are coherent for
any cells (views_from_final_cells_coherent); state_actions — bits set while
cells are first written — lists exactly the non-error cells PLUS the cells a
%nonassoc erased (state_actions_mirror_characterised), so the first clause is
false of the faithful mirror (state_actions_mirror_refuted, witness
`%nonassoc '<'  E: E '<' E | 'n';`).

Tie: every state / token / rule of every generated table (harness c16: lr's
dump + the four views through the public accessors) is run through the
extracted `coherent_b`; the extracted mirror must reproduce the four views
(state_actions: C03.table_mirror on the implementation's own item sets and
edges; the other three: views_row on the implementation's final cells).
Failing-input search: an independent re-computation of every clause in Python
(own FIRST / LR(1) closure / BFS) names the offending state and token.
"""
from vlib import core, lr
from gen import c03gen
from gen import grammars as G
import json
from checks.tblcommon import dump_case, TDump, RawGram, model_sections

KNOWN_NONASSOC = "state_actions lists a token whose cell was made Error by %nonassoc (bit set while the cell was first written, never cleared)"


# ---- independent oracle: every clause recomputed directly from the dump ----

def first_sets(d):
    nullable = set()
    ch = True
    while ch:
        ch = False
        for l, r in d.prods:
            if l not in nullable and all(x % 2 == 1 and x // 2 in nullable for x in r):
                nullable.add(l)
                ch = True
    first = {r: set() for r in range(d.nrules)}
    ch = True
    while ch:
        ch = False
        for l, r in d.prods:
            for x in r:
                add = {x // 2} if x % 2 == 0 else first[x // 2]
                if not add <= first[l]:
                    first[l] |= add
                    ch = True
                if x % 2 == 0 or x // 2 not in nullable:
                    break
    return nullable, first


def first_of_seq(seq, la, nullable, first):
    out = set()
    for x in seq:
        if x % 2 == 0:
            out.add(x // 2)
            return out
        out |= first[x // 2]
        if x // 2 not in nullable:
            return out
    out.add(la)
    return out


def first_of_beta(seq, nullable, first):
    """(FIRST(seq), seq nullable)"""
    out = set()
    for x in seq:
        if x % 2 == 0:
            out.add(x // 2)
            return out, False
        out |= first[x // 2]
        if x // 2 not in nullable:
            return out, False
    return out, True


def lr1_closure(d, core, nullable, first):
    """closure over LR(0) items with lookahead SETS (possibly empty): {(p,dot): set(la)}"""
    S = {(p, dt): set(la) for (p, dt, la) in core}
    byrule = {}
    for p, (l, _) in enumerate(d.prods):
        byrule.setdefault(l, []).append(p)
    ch = True
    while ch:
        ch = False
        for (p, dt), la in list(S.items()):
            rhs = d.prods[p][1]
            if dt < len(rhs) and rhs[dt] % 2 == 1:
                fb, nul = first_of_beta(rhs[dt + 1:], nullable, first)
                add = fb | (la if nul else set())
                for q in byrule.get(rhs[dt] // 2, []):
                    if (q, 0) not in S:
                        S[(q, 0)] = set()
                        ch = True
                    if not add <= S[(q, 0)]:
                        S[(q, 0)] |= add
                        ch = True
    return S


def lr1_closure_strict(d, core, nullable, first):
    """textbook closure over single-lookahead LR(1) items: set of (p, dot, a)"""
    S = set((p, dt, a) for (p, dt, la) in core for a in la)
    todo = list(S)
    byrule = {}
    for p, (l, _) in enumerate(d.prods):
        byrule.setdefault(l, []).append(p)
    while todo:
        p, dt, a = todo.pop()
        rhs = d.prods[p][1]
        if dt < len(rhs) and rhs[dt] % 2 == 1:
            bs = first_of_seq(rhs[dt + 1:], a, nullable, first)
            for q in byrule.get(rhs[dt] // 2, []):
                for b in bs:
                    t = (q, 0, b)
                    if t not in S:
                        S.add(t)
                        todo.append(t)
    return S


def all_productive(d):
    pr = set()
    ch = True
    while ch:
        ch = False
        for l, r in d.prods:
            if l not in pr and all(x % 2 == 0 or x // 2 in pr for x in r):
                pr.add(l)
                ch = True
    return len(pr) == d.nrules


def oracle(d):
    """list of (clause, state, detail) the dump violates"""
    bad = []
    cls = lambda p: (d.prods[p][0], len(d.prods[p][1]))
    nullable, first = first_sets(d)
    productive = all_productive(d)
    for s in range(d.nstates):
        row = {a: d.actions[(s, a)] for a in range(d.ntoks) if (s, a) in d.actions}
        nonerr = set(row)
        va = d.va.get(s, [])
        if set(va) != nonerr or len(va) != len(set(va)):
            extra = sorted(set(va) - nonerr)
            bad.append(("state_actions", s, {"listed_but_action_is_Error": extra, "not_listed_but_has_action": sorted(nonerr - set(va))}))
        sh = set(a for a, c in row.items() if c[0] == "S")
        if set(d.vsh.get(s, [])) != sh:
            bad.append(("state_shifts", s, {"listed": sorted(d.vsh.get(s, [])), "shift_cells": sorted(sh)}))
        edges = dict(d.edges.get(s, []))
        for a, c in row.items():
            if c[0] == "S" and edges.get(2 * a) != c[1]:
                bad.append(("shift_target", s, {"token": a, "action_target": c[1], "edge": edges.get(2 * a)}))
        for r in range(d.nrules):
            t = d.gotos.get((s, r))
            if t is not None and edges.get(2 * r + 1) != t:
                bad.append(("goto_target", s, {"rule": r, "goto": t, "edge": edges.get(2 * r + 1)}))
        reds = [c[1] for c in row.values() if c[0] == "R"]
        classes = set(cls(p) for p in reds)
        vcr = d.vcr.get(s, [])
        if not (all(p in reds for p in vcr) and sorted(cls(p) for p in vcr) == sorted(classes)):
            bad.append(("core_reduces", s, {"core_reduces": vcr, "reduce_actions": sorted(set(reds)),
                                            "classes(rule,len)": sorted(classes)}))
        ro = len(row) > 0 and all(c[0] == "R" for c in row.values()) and len(classes) == 1
        if ro != d.vro.get(s, False):
            bad.append(("reduce_only_state", s, {"flag": d.vro.get(s, False), "expected": ro,
                                                 "actions": {str(a): c for a, c in sorted(row.items())}}))
        want = lr1_closure(d, d.core.get(s, []), nullable, first)
        have = {(p, dt): set(la) for (p, dt, la) in d.closed.get(s, [])}
        if want != have:
            wt = set((p, dt, a) for (p, dt), la in want.items() for a in la) | set((p, dt, None) for (p, dt) in want)
            ht = set((p, dt, a) for (p, dt), la in have.items() for a in la) | set((p, dt, None) for (p, dt) in have)
            key = lambda t: (t[0], t[1], -1 if t[2] is None else t[2])
            bad.append(("closed_state_is_closure_of_core", s, {"missing(prod,dot,la|None=item)": sorted(wt - ht, key=key)[:6],
                                                              "extra(prod,dot,la|None=item)": sorted(ht - wt, key=key)[:6]}))
        elif productive:
            # where every rule derives a token string the closure is the textbook one over single-lookahead items
            strict = lr1_closure_strict(d, d.core.get(s, []), nullable, first)
            if strict != set((p, dt, a) for (p, dt), la in have.items() for a in la) or any(not la for la in have.values()):
                bad.append(("closed_state_is_textbook_LR1_closure_of_core(productive grammar)", s,
                            {"closed": sorted((p, dt, sorted(la)) for (p, dt), la in have.items())[:8]}))
    seen = {d.start}
    todo = [d.start]
    while todo:
        s = todo.pop()
        for _, t in d.edges.get(s, []):
            if t not in seen:
                seen.add(t)
                todo.append(t)
    unreach = [s for s in range(d.nstates) if s not in seen]
    if unreach:
        bad.append(("reachable", unreach[0], {"unreachable_states": unreach}))
    return bad


def gen_cases(ctx, n):
    rng = ctx.rng
    grams, fams = c03gen.generate(rng, int(n * 0.7))
    extra = [("nullable", lambda: G.nullable_heavy(rng)), ("reduced", lambda: G.reduced_random_grammar(rng)),
             ("random", lambda: G.random_grammar(rng)), ("notlalr", lambda: G.not_lalr_template(rng)),
             ("classic", None)]
    for g in G.classic_corpus():
        grams.append(g)
        fams.append("classic")
    # grammars on which Pager's garbage collection really removes states (reachability clause)
    for src, _, _ in G.rare_shape_corpus():
        grams.append(G.from_text(src))
        fams.append("rare_shapes")
    for src in G.gc_chain_corpus()[:ctx.n(40, 60)] + G.gc_corpus()[:ctx.n(30, 120)]:
        grams.append(G.from_text(src))
        fams.append("gc_corpus")
    seen = set(g.render() for g in grams)
    guard = 0
    while len(grams) < n and guard < 20 * n:
        guard += 1
        name, f = rng.choices(extra[:4], [4, 3, 3, 2])[0]
        g = f()
        if g is None or g.render() in seen:
            continue
        seen.add(g.render())
        grams.append(g)
        fams.append(name)
    kinds = ["O"] * len(grams)
    # ---- YaccKind::Eco with 0 / 1 / 2 (rarely 3) %implicit_tokens over a sample of the grammars above: cfgrammar
    # appends `^: ^~; ~: w ~ | … | ; ^~: ~ S` AFTER the user's productions, so the grammar's last production is not
    # the (never reduced) start production but `^~: ~ S`, which is reduced on `$` ----
    t, r = (lambda x: ('t', x)), (lambda x: ('r', x))
    eco_bases = [G.Gram(["a", "b"], [("S", [[t("a"), r("S")], [t("b")]])]),
                 G.Gram(["a", "c"], [("S", [[t("a")], [r("T")]]), ("T", [[t("c")], []])])]
    n_eco = ctx.n(120, 2400)
    pool = [g for g in grams if not getattr(g, "raw", False)]
    eco_bases += rng.sample(pool, min(len(pool), max(0, n_eco - 3 * len(eco_bases))))
    for i, g in enumerate(eco_bases):
        ks = [0, 1, 2] if i < 2 else [[0, 1, 2, 1, 2, 2, 1, 3][i % 8]]
        for k in ks:
            ge = with_implicit(g, k)
            if ("E", ge.render()) in seen:
                continue
            seen.add(("E", ge.render()))
            grams.append(ge)
            fams.append("eco_implicit_%d" % k)
            kinds.append("E")
    return grams, fams, kinds


def with_implicit(g, k):
    """the grammar with k fresh %implicit_tokens (to be built with YaccKind::Eco)"""
    ws, i = [], 0
    while len(ws) < k:
        if "w%d" % i not in g.tokens:
            ws.append("w%d" % i)
        i += 1
    return G.Gram(g.tokens + ws, g.rules, precs=g.precs, start=g.start, avoid_insert=g.avoid_insert,
                  expect=g.expect, expectrr=g.expectrr, implicit=ws)


def run(ctx):
    ctx.gate = core.proof_gate("C16")
    for _ in ctx.gate["theorems"]:
        ctx.oblige(True)
    exe = core.build_harness("c16")
    mexe = core.build_model("c16")
    replay = getattr(ctx, "replay", None)
    if replay:
        rj = json.load(open(replay))
        grams, fams, kinds = [RawGram(rj["grammar"])], ["replay"], [rj.get("kind", "O")]
    else:
        grams, fams, kinds = gen_cases(ctx, ctx.n(1500, 12000))
    srcs = [g.render() for g in grams]
    impl = core.run_lines([exe], [dump_case(s, k) for s, k in zip(srcs, kinds)])
    model = core.run_lines([mexe], impl)
    tot_states = tot_cells = n_known = n_erased_cells = n_last_reduced = n_added_reduced = n_exact = n_dumps = 0
    for g, fam, src, kind, il, ml in zip(grams, fams, srcs, kinds, impl, model):
        ctx.count("family_" + fam)
        d = TDump(il)
        if not d.ok:
            what = il.split()[0] if il else "EMPTY"
            ctx.count("not_built_" + what)
            if what in ("BUILDPANIC", "VIEWPANIC", "HANG", "CRASH"):
                ctx.violation({"what": "table construction / view accessors do not return normally: " + il[:200], "grammar": src, "kind": kind})
                ctx.oblige(False)
            continue
        if not ml.startswith("K "):
            ctx.violation({"what": "model driver failed on the implementation's dump", "grammar": src, "kind": kind, "model": ml[:200]}, no_input=True)
            ctx.oblige(False)
            continue
        ms = model_sections(ml)
        k = dict(kv.split("=") for kv in ms["K"][0])
        coherent = k["coherent"] == "1"
        # hypotheses of C16_coherent_b_exact_dump evaluated by the model on this dump (wf_grammar, vS1, vS5, edges only on
        # the grammar's symbols, core lookaheads within the tokens): where they hold, coherent_b = coherent is a theorem
        exact = k.get("exact") == "1"
        n_exact += exact
        if not exact:
            ctx.count("exactness_hypotheses_do_not_hold")
        erased = set((int(s[0]), int(s[1])) for s in ms.get("NE", []))
        n_erased_cells += len(erased)
        tot_states += d.nstates
        n_dumps += 1
        tot_cells += d.nstates * (d.ntoks + d.nrules)
        bad = oracle(d)
        ok = True
        if coherent and bad:
            ok = False
            ctx.violation({"what": "coherent_b accepts a dump that the independent re-computation rejects (%s)" % bad[0][0],
                           "grammar": src, "kind": kind, "clause": bad[0][0], "state": bad[0][1], "detail": bad[0][2]}, no_input=True)
        elif not coherent and not bad:
            ok = False
            ctx.violation({"what": "coherent_b rejects the dump but the independent re-computation finds no clause violated "
                                   "(%s)" % ("the hypotheses of C16_coherent_b_exact_dump hold of this dump, so the property FAILS of it by theorem: "
                                            "the Python re-computation misses a violated clause" if exact else
                                            "the hypotheses of C16_coherent_b_exact_dump do not hold of this dump: the exactness "
                                            "theorem does not apply, only coherent_b_sound"),
                           "grammar": src, "kind": kind, "model": " | ".join(" ".join(x) for x in ms.get("RB", []))[:300], "K": k}, no_input=True)
        elif bad:
            ok = False
            # one report per violated clause kind
            seen_kinds = set()
            for clause, s, detail in bad:
                if clause in seen_kinds:
                    continue
                seen_kinds.add(clause)
                data = {"what": "derived view / graph clause '%s' violated" % clause, "grammar": src, "kind": kind, "clause": clause,
                        "state": s, "detail": detail, "family": fam,
                        "actions_of_state": {d.tname.get(a, "$end"): list(c) for (st, a), c in sorted(d.actions.items()) if st == s}}
                if clause == "state_actions":
                    data["detail"]["listed_but_action_is_Error_names"] = [d.tname.get(a, "$end") for a in detail["listed_but_action_is_Error"]]
                    data["witness_items"] = [d.cell_witness(s, a) for a in detail["listed_but_action_is_Error"][:2]]
                    all_sa = [(st, a) for c2, st, det in bad if c2 == "state_actions" for a in det["listed_but_action_is_Error"]]
                    none_missing = all(not det["not_listed_but_has_action"] for c2, st, det in bad if c2 == "state_actions")
                    if none_missing and all(x in erased for x in all_sa):
                        n_known += 1
                        if n_known <= 3:
                            ctx.violation(data, known_key=KNOWN_NONASSOC)
                        continue
                ctx.violation(data)
            if seen_kinds == {"state_actions"} and n_known > 0:
                ok = None          # only the known class
        # ---- the mirror must reproduce the implementation's views on its own item sets ----
        m = ms.get("M", [["?"]])[0][0]
        mirror_ok = m == "ok"
        if mirror_ok:
            for tag, view in (("MSA", d.va), ("MSH", d.vsh), ("MCR", d.vcr)):
                for s in ms.get(tag, []):
                    st = int(s[0])
                    if sorted(int(x) for x in s[1:]) != sorted(set(view.get(st, []))):
                        if tag == "MSA" and sorted(set(view.get(st, []))) == sorted(a for a in range(d.ntoks) if (st, a) in d.actions):
                            # the first-half mirror models the known defect (bits of erased cells stay set); an
                            # implementation whose state_actions are exactly the non-error cells meets the property
                            continue
                        mirror_ok = False
                        mdiff = (tag, st, [int(x) for x in s[1:]], view.get(st, []))
            for s in ms.get("MRO", []):
                if (s[1] == "1") != d.vro.get(int(s[0]), False):
                    mirror_ok = False
                    mdiff = ("MRO", int(s[0]), s[1], d.vro.get(int(s[0])))
        else:
            mdiff = ("M", m)
        if not mirror_ok:
            ctx.violation({"what": "the mirror of StateTable::new (state_actions: first half, C03.table_mirror on the implementation's item "
                                   "sets; shifts / core reduces / reduce-only: second half, views_row on the implementation's final cells) "
                                   "does not reproduce the implementation's views",
                           "grammar": src, "kind": kind, "difference(tag,state,mirror,impl)": mdiff}, no_input=(ok is not False))
        ctx.oblige((ok is None or ok) and mirror_ok)
        last = len(d.prods) - 1
        if any(c[0] == "R" and c[1] == last for c in d.actions.values()):
            n_last_reduced += 1
            ctx.count("tables_reducing_the_last_production")
        if any(c[0] == "R" and c[1] > d.start_prod for c in d.actions.values()):
            n_added_reduced += 1
        ctx.case(src if kind == "O" else kind + " " + src, d.nstates >= 4, {"grammar": src, "kind": kind, "family": fam, "states": d.nstates, "tokens": d.ntoks, "rules": d.nrules,
                                      "coherent_b": coherent, "nonassoc_erased_cells": len(erased),
                                      "reduce_only_states": sum(1 for v in d.vro.values() if v)})
        ctx.count("coherent" if coherent else "not_coherent")
        if erased:
            ctx.count("tables_with_nonassoc_erased_cells")
        if d.conflicts is None and any(s[0] == "NE" for s in []):
            pass
    ctx.coverage["states_checked"] = tot_states
    ctx.coverage["state_x_symbol_pairs_checked"] = tot_cells
    ctx.coverage["nonassoc_erased_cells_seen"] = n_erased_cells
    ctx.coverage["known_defect_tables"] = n_known
    ctx.coverage["dumps_where_the_exactness_theorem_applies"] = "%d of %d" % (n_exact, n_dumps)
    ctx.coverage["tables_reducing_the_grammars_last_production"] = n_last_reduced
    ctx.coverage["tables_reducing_a_production_numbered_after_the_start_production"] = n_added_reduced
    ctx.coverage["rule"] = ("grammars as for C03 (gen/c03gen.py: precedence-resolved and %nonassoc-removed entries so that resolution "
                            "changes cells) plus nullable-heavy, reduced random, random, LR(1)-not-LALR templates and the classic "
                            "corpus, all built with YaccKind::Original; plus YaccKind::Eco builds of a sample of them with 0 / 1 / 2 / 3 fresh "
                            "%implicit_tokens (cfgrammar appends the implicit-token productions after the start production, so the "
                            "grammar's last production is reduced); every state x token and state x rule of every table goes through coherent_b and through the "
                            "independent Python re-computation; non-trivial = table with >= 4 states; distinct by grammar text")
    ctx.assumptions += ["'reduce-only' requires at least one reduction (a state without any action is not reduce-only), matching "
                        "distinct_reduces == 1",
                        "goto clause: every goto target equals the graph's edge on that rule (a missing goto for an existing edge is "
                        "C01's completeness condition vC3, not demanded here)",
                        "coherent_b is proved EXACT (C16_coherent_b_exact / _exact_dump: accepted <-> coherent) for dumps meeting "
                        "wf_grammar, vS1, vS5, edges only on the grammar's symbols and core lookaheads within the tokens; the model "
                        "evaluates these on every dump (K exact=) and the coverage reports for how many they hold; the independent "
                        "Python re-computation remains as a cross-check of both directions",
                        "views are observed through state_actions / state_shifts / core_reduces / reduce_only_state only"]
