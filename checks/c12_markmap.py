"""C12 part: cfgrammar::markmap::MarkMap<String, u32> (public API incl. Entry API) = the Coq mirror
coq/theories/C12/MarkMapModel.v, on random operation sequences over two maps (gen/markmapgen.py).

The harness (harness/src/bin/markmap.rs) prints per operation the result as an integer list and at the
end the Debug form of both maps; the model (`run_case`, evaluated by coqc with vm_compute) computes the
same integer lists and `enc_map` of both maps, which is rendered here in Rust's Debug format.  The two
transcripts are compared as strings."""
import ast
import concurrent.futures
import os
import time
from vlib import core
from gen import markmapgen

WORK = os.path.join(core.VERIF, ".work", "markmap")
COQ = os.path.join(core.VERIF, "coq")
BEH_DEBUG = {1: "Theirs", 2: "Ours", 4: "MutuallyExclusive"}
CHUNK = 2500


def _ensure_model():
    vo = os.path.join(COQ, "theories", "C12", "MarkMapModel.vo")
    v = vo[:-1]
    if os.path.exists(vo) and os.path.getmtime(vo) >= os.path.getmtime(v):
        return
    if not os.path.exists(os.path.join(COQ, "Makefile")):
        core.sh(["./mkproject.sh"], cwd=COQ, timeout=300)
    r = core.sh(["timeout", "600", "make", "theories/C12/MarkMapModel.vo"], cwd=COQ)
    if r.returncode != 0:
        raise core.GateFailure("model-build (C12/MarkMapModel.v)", r.stdout[-3000:] + r.stderr[-3000:])


def _eval_chunk(args):
    name, seqs = args
    path = os.path.join(WORK, "cases_%s.v" % name)
    with open(path, "w") as f:
        f.write("From Coq Require Import List NArith.\nFrom GV Require Import C12.MarkMapModel.\n"
                "Import ListNotations.\nEval vm_compute in (map run_case [\n")
        f.write(";\n".join(markmapgen.coq_term(s) for s in seqs))
        f.write("\n]).\n")
    p = core.sh("timeout 600 coqc -Q %s GV %s" % (os.path.join(COQ, "theories"), path), cwd=WORK)
    if p.returncode != 0:
        raise core.GateFailure("model-eval (coqc on %s)" % path, p.stdout[-2000:] + p.stderr[-3000:])
    out = p.stdout
    i = out.index("=")
    j = out.rindex("\n     : ") if "\n     : " in out else out.rindex(":")
    body = out[i + 1:j].replace("%N", "").replace("\n", " ").replace(";", ",")
    val = ast.literal_eval(body.strip())
    if len(val) != len(seqs):
        raise core.GateFailure("model-eval", "coqc returned %d transcripts for %d cases" % (len(val), len(seqs)))
    return val


def eval_model(seqs, tag="c"):
    """list of op sequences -> list of transcripts (list of int lists), by coqc, chunks in parallel"""
    if not seqs:
        return []
    os.makedirs(WORK, exist_ok=True)
    size = max(1, min(CHUNK, -(-len(seqs) // core.NPROC)))
    chunks = [("%s%d" % (tag, k), seqs[a:a + size]) for k, a in enumerate(range(0, len(seqs), size))]
    with concurrent.futures.ThreadPoolExecutor(max_workers=core.NPROC) as pool:
        res = list(pool.map(_eval_chunk, chunks))
    return [t for r in res for t in r]


def _take_key(l, p):
    n = l[p]
    return bytes(l[p + 1:p + 1 + n]).decode(), p + 1 + n


def render_map(enc):
    """`enc_map` of the model -> Rust `{:?}` of MarkMap<String, u32>"""
    dflt, cnt = enc[0], enc[1]
    p, ents = 2, []
    for _ in range(cnt):
        k, p = _take_key(enc, p)
        mark = enc[p]
        p += 1
        if enc[p] == 0:
            v = "None"
            p += 1
        else:
            v = "Some(%d)" % enc[p + 1]
            p += 2
        ents.append('("%s", %d, %s)' % (k, mark, v))
    if p != len(enc):
        raise ValueError("enc_map: trailing data %r" % (enc,))
    return "MarkMap { default_merge_behavior: %s, contents: [%s] }" % (BEH_DEBUG[dflt], ", ".join(ents))


def _ints(l):
    return " ".join(str(x) for x in l)


def render_model(tr):
    """model transcript -> the harness's text form"""
    if tr and tr[-1] == [666]:
        return " | ".join(_ints(r) for r in tr[:-1]) + " | PANIC"
    return " | ".join(_ints(r) for r in tr[:-2]) + " # " + render_map(tr[-2]) + " # " + render_map(tr[-1])


def norm_impl(out):
    """harness line: the panic message is not part of the comparison"""
    k = out.find(" | PANIC")
    return out[:k] + " | PANIC" if k >= 0 else out


def _disagree(exe, seqs, tag):
    seqs = list(seqs)
    live = [s for s in seqs if s]
    if not live:
        return []
    outs = core.run_lines([exe], [markmapgen.line(s) for s in live], shards=1)
    mods = eval_model(live, tag)
    return [(s, norm_impl(o), render_model(m)) for s, o, m in zip(live, outs, mods) if norm_impl(o) != render_model(m)]


def shrink(exe, seq, rounds=10):
    cur = seq
    for r in range(rounds):
        if len(cur) <= 1:
            break
        cands = [cur[:j] + cur[j + 1:] for j in range(len(cur))]
        for blk in (len(cur) // 2, len(cur) // 4):     # blocks first: the shortest disagreeing candidate is taken
            if blk >= 2:
                cands += [cur[:j] + cur[j + blk:] for j in range(0, len(cur), blk)]
        # entries: also try dropping sub-operations
        for j, op in enumerate(cur):
            if op[0] == 10:
                for x in range(len(op[3])):
                    cands.append(cur[:j] + [(10, op[1], op[2], op[3][:x] + op[3][x + 1:])] + cur[j + 1:])
        bad = _disagree(exe, cands, "s%d_" % r)
        if not bad:
            break
        cur = min((b[0] for b in bad), key=len)
    return cur


def run_part(ctx):
    t0 = time.time()
    _ensure_model()
    exe = core.build_harness("markmap")
    n = ctx.n(1500, 30000)
    seqs = markmapgen.cases(ctx.rng, n)
    lines = [markmapgen.line(s) for s in seqs]
    with concurrent.futures.ThreadPoolExecutor(max_workers=1) as pool:
        fut = pool.submit(core.run_lines, [exe], lines)
        models = eval_model(seqs)
        outs = fut.result()
    nops = sum(len(s) for s in seqs)
    opdist = {}
    outc = {"merge_ok": 0, "merge_err": 0, "entry_occupied": 0, "entry_vacant_present": 0, "entry_vacant_absent": 0,
            "insert_replacing": 0, "remove_present": 0, "panics": 0, "entry_subops": 0}
    ndiff, ncompared, reported = 0, 0, 0
    for s, out, tr in zip(seqs, outs, models):
        for op in s:
            nm = markmapgen.OP_NAMES[op[0]]
            opdist[nm] = opdist.get(nm, 0) + 1
        impl = norm_impl(out)
        mod = render_model(tr)
        ncompared += 1
        ctx.case(lines[ncompared - 1], True)
        # outcome distribution (from the implementation's transcript)
        if "PANIC" in impl:
            outc["panics"] += 1
        res = impl.split(" # ")[0].split(" | ")
        for op, r in zip(s, res):
            f = r.split()
            if not f:
                continue
            if op[0] == 11:
                outc["merge_ok" if f[0] == "0" else "merge_err"] += 1
            elif op[0] == 10:
                outc[{"0": "entry_occupied", "1": "entry_vacant_present", "2": "entry_vacant_absent"}.get(f[0], "panics")] += 1
                outc["entry_subops"] += len(op[3])
            elif op[0] == 0 and f[0] == "1":
                outc["insert_replacing"] += 1
            elif op[0] == 3 and f[0] == "1":
                outc["remove_present"] += 1
        if impl == mod:
            continue
        ndiff += 1
        if reported < 5:
            reported += 1
            small = shrink(exe, s)
            bad = _disagree(exe, [small], "f")
            s_impl, s_mod = (bad[0][1], bad[0][2]) if bad else (impl, mod)
            if not bad:
                small = s
            ln = markmapgen.line(small)
            ctx.violation({"broken": "MarkMap: implementation differs from the Coq mirror C12/MarkMapModel.v",
                           "sequence": ln, "coq_term": markmapgen.coq_term(small),
                           "impl_transcript": s_impl, "model_transcript": s_mod,
                           "original_sequence": lines[ncompared - 1],
                           "replay_cmd": "echo '%s' | .work/target/release/markmap" % ln}, no_input=False)
    # family builder_sequence: the header sequence of CTParserBuilder::build_inner (C13/SettingsModel.v): model = real MarkMap,
    # and the real MarkMap's answers = what C13_settings_in_force states (builder's value, else the section's; unused =
    # the section's other keys in key order; missing = [yacckind] iff no yacckind in force; merge_from Ok)
    nb = ctx.n(200, 4000)
    bcases = [markmapgen.builder_sequence(ctx.rng) for _ in range(nb)]
    bseqs = [c[0] for c in bcases]
    blines = [markmapgen.line(s) for s in bseqs]
    bouts = core.run_lines([exe], blines, shards=1)
    bmods = eval_model(bseqs, "b")
    bdiff, bpred, bstat = 0, 0, {"builder_gives": 0, "section_gives": 0, "both_give": 0, "neither": 0, "unknown_keys": 0}
    for (s, given, section), ln, out, tr in zip(bcases, blines, bouts, bmods):
        impl, mod = norm_impl(out), render_model(tr)
        ctx.case(ln, True)
        for k in markmapgen.SETTING_KEYS:
            bstat[("both_give" if k in section else "builder_gives") if given[k] is not None
                  else ("section_gives" if k in section else "neither")] += 1
        bstat["unknown_keys"] += sum(1 for k in section if k not in markmapgen.SETTING_KEYS)
        tail = [[int(x) for x in r.split()] for r in impl.split(" # ")[0].split(" | ")][-9:]
        want = markmapgen.builder_expected_tail(given, section)
        bad = None
        if impl != mod:
            bdiff += 1
            bad = "MarkMap (builder_sequence): implementation differs from the Coq mirror C12/MarkMapModel.v"
        elif "PANIC" in impl or tail != want:
            bpred += 1
            bad = "MarkMap (builder_sequence): the settings in force differ from C13_settings_in_force"
        if bad and bdiff + bpred <= 5:
            ctx.violation({"broken": bad, "sequence": ln, "coq_term": markmapgen.coq_term(s), "builder_given": given,
                           "section": section, "impl_transcript": impl, "model_transcript": mod, "expected_tail": want,
                           "replay_cmd": "echo '%s' | .work/target/release/markmap" % ln}, no_input=False)
    ctx.oblige(bdiff == 0 and bpred == 0 and len(bouts) == nb,
               "MarkMap builder_sequence (CTParserBuilder header merge): implementation = Coq mirror = the statement of "
               "C13_settings_in_force on %d sequences" % nb)
    ctx.coverage["markmap_builder_sequence"] = {"sequences": nb, "differences": bdiff, "prediction_failures": bpred, **bstat}
    # family lex_builder_sequence: the header sequence of CTLexerBuilder::build_inner + LexFlags::try_from
    # (C13/LexSettingsModel.v): model = real MarkMap, and the real MarkMap's answers = what C13_lex_settings_in_force states
    # (merge_from Ok under the default Ours; each flag = the builder's when set, else the section's; lexerkind = the
    # builder's field, else the section's; unused = the other keys in key order)
    nl = ctx.n(100, 3000)
    lcases = [markmapgen.lex_builder_sequence(ctx.rng) for _ in range(nl)]
    lseqs = [c[0] for c in lcases]
    llines = [markmapgen.line(s) for s in lseqs]
    louts = core.run_lines([exe], llines, shards=1)
    lmods = eval_model(lseqs, "l")
    ldiff, lpred, lstat = 0, 0, {"builder_gives": 0, "section_gives": 0, "both_give": 0, "unknown_keys": 0,
                                 "lexerkind_field": 0, "lexerkind_section": 0, "lexerkind_default": 0}
    for (s, lk, given, section), ln, out, tr in zip(lcases, llines, louts, lmods):
        impl, mod = norm_impl(out), render_model(tr)
        ctx.case(ln, True)
        for k in markmapgen.LEX_FLAG_KEYS:
            if k in given:
                lstat["both_give" if k in section else "builder_gives"] += 1
            elif k in section:
                lstat["section_gives"] += 1
        lstat["unknown_keys"] += sum(1 for k in section if k not in markmapgen.LEX_KEYS)
        want, in_force = markmapgen.lex_builder_expected_tail(lk, given, section)
        lstat["lexerkind_field" if lk is not None else
              ("lexerkind_section" if "lexerkind" in section else "lexerkind_default")] += 1
        bad = None
        try:
            tail = [[int(x) for x in r.split()] for r in impl.split(" # ")[0].split(" | ")][-28:]
        except ValueError:
            tail = None
        got_lk = None
        if tail and len(tail) == 28:
            got_lk = lk if lk is not None else (tail[2][1] if len(tail[2]) == 2 else None)
        if impl != mod:
            ldiff += 1
            bad = "MarkMap (lex_builder_sequence): implementation differs from the Coq mirror C12/MarkMapModel.v"
        elif "PANIC" in impl or tail != want or got_lk != in_force:
            lpred += 1
            bad = "MarkMap (lex_builder_sequence): the settings in force differ from C13_lex_settings_in_force"
        if bad and ldiff + lpred <= 5:
            ctx.violation({"broken": bad, "sequence": ln, "coq_term": markmapgen.coq_term(s), "builder_lexerkind": lk,
                           "builder_flags": given, "section": section, "impl_transcript": impl, "model_transcript": mod,
                           "expected_tail": want,
                           "replay_cmd": "echo '%s' | .work/target/release/markmap" % ln}, no_input=False)
    ctx.oblige(ldiff == 0 and lpred == 0 and len(louts) == nl,
               "MarkMap lex_builder_sequence (CTLexerBuilder header merge): implementation = Coq mirror = the statement of "
               "C13_lex_settings_in_force on %d sequences" % nl)
    ctx.coverage["markmap_lex_builder_sequence"] = {"sequences": nl, "differences": ldiff, "prediction_failures": lpred, **lstat}
    ctx.oblige(ndiff == 0 and ncompared == n,
               "MarkMap: implementation = Coq mirror (C12/MarkMapModel.v) on %d operation sequences (%d operations)"
               % (ncompared, nops))
    ctx.coverage["markmap"] = {"sequences": ncompared, "operations": nops, "differences": ndiff,
                               "op_distribution": dict(sorted(opdist.items())), "outcomes": outc,
                               "seconds": round(time.time() - t0, 1)}
    ctx.assumptions.append("MarkMap: binary_search_by on the strictly increasing vector is transcribed as a linear "
                           "scan (first key not smaller); u16 marks as unbounded N (no operation sets a bit above bit 10)")
