"""C12 — the specification parsers are total.

Proof (theories/C12, Properties/C12.v): a character-level mirror of the
%grmtools section parser (cfgrammar/src/lib/header.rs) in two variants — the
code as pinned and the code after the two proposed repairs.  For the repaired
variant: `header_total` (for every text the parse is `Done`, with a value or a
non-empty error list, on fuel 2*|src|+4 — never Panic, never OutOfFuel) and
`header_spans_wellformed` (every span of a value or an error is
start <= end <= |src| on char boundaries).  For the pinned variant:
`header_total_refuted` (an unterminated array exhausts every fuel; a number
beyond u64 panics).

Tie / search: >= 20 000 generated texts per quick run (valid specs of every
kind, every truncation of a sample, char mutations, bracket/quote/brace
unbalancing, huge integers, multi-byte characters at every offset, random
UTF-8) are run through the three real parsers under catch_unwind and a 2 s
watchdog.  PANIC / HANG / BADSPAN / "no value and no error" of the
implementation is directly a C12 witness.  The header parser's outcome
(class, parsed values with spans, error kinds with spans, end position) must
equal the extracted mirror's — the variant selected by HEADER_FIXED and
DEPTH_FIXED.

Array nesting: `parse_setting` recurses once per '['.  The mirror carries the
recursion depth and a native-stack budget: `header_depth_unbounded_refuted` (no
stack is large enough for the code without a nesting limit),
`header_depth_bounded` (with the limit MAX_SETTING_DEPTH = 64 a stack of 65
frames is never exhausted) and the totality theorems for that variant.  With
DEPTH_FIXED the correspondence includes texts nested 63, 64, 65, 1000 and
100000 deep (on the harness worker and on an 8 MiB stack) and a crash is a
plain violation.

White space before a constructor argument (`Original( NoAction)`, /repo fdd053a): the mirror's flag
`fixed_ctor_ws` (variant 3 of the model runner); `header_ctor_ws_refuted` (pinned: IllegalName at the
byte after '('; repaired: the value of `Original(NoAction)`), `header_layout_insensitive_ctor` (repaired,
EVERY run of Pattern_White_Space after the '(': same value, end position moved by the run's length) and
`header_layout_sensitive_ctor_pinned`.  A fixed family (gen/c12gen.ctor_ws_headers: 12 runs after '(' x 6
before ')' x 6 constructor values, the audit's texts, arrays / several values per section) is part of every
run: implementation = mirror on each, the mirror's value = the value of the same section without that
white space (the theorem replayed), and so is the implementation's.

The yacc and lex parsers are impl-only oracles here (their mirrors are plugged
in by C10/C11).

Rendering ("... so it can always be rendered"): EVERY error and warning returned
on EVERY generated text — by the three parsers, by both yacc routes, and by the
conversions of the parsed section's values into enums (YaccKind::try_from,
which ASTWithValidityInfo::from_str / YaccGrammar::from_str call; RecoveryKind,
SerialisationFormat, LexerKind, LexFlags, which the builders and nimbleparse
call) — is pushed through lrpar's SpannedDiagnosticFormatter the way the tools
print it (format_error / format_warning / file_location_msg) under
catch_unwind.  Oracle: no panic, a non-empty rendering, and the first line
number printed (by format_* and by file_location_msg) = 1 + the number of '\n'
before the start of the diagnostic's first span.  A family of near-valid enum
VALUES (wrong namespace / member / argument namespace / argument, several at
once, other shapes; one-line and multi-line layouts) makes errors with 2, 3 and
4 spans under SpansKind::Error occur in every run.  YaccKind::try_from and
SerialisationFormat::try_from are mirrored (theories/C12/Conv.v; proved: Ok iff
a documented form, error spans = exactly the faulty components in source order,
1..4 of them, all well-formed on what the section parser returns) and tied on
EVERY entry of EVERY section that parses.
"""
import re
from vlib import core
from gen import c12gen
from checks import c12_markmap

# Which variant of the mirror is tied to the code in /repo:
#   False = header.rs as pinned (array loop without progress, u64 unwrap)
#   True  = header.rs after the two repairs proposed by this check
# The coordinator flips this to True in the commit that repairs header.rs.
HEADER_FIXED = True
# Array nesting limit (third repair, notes/C12-depth-fix.diff):
#   False = header.rs without a nesting limit: deep nesting overflows the native stack (known
#           finding K_STACK); the mirror variant tied is the one without the limit
#   True  = header.rs with MAX_SETTING_DEPTH: deep-nesting texts are part of the correspondence
#           (impl = mirror variant 2, exactly) and any crash is a violation
# The coordinator flips this to True in the commit that adds the limit to header.rs.
DEPTH_FIXED = True
# White space between the '(' of a constructor value and its argument (/repo fdd053a):
#   False = header.rs calls parse_namespaced directly at the byte after '(' (mirror variant 2)
#   True  = header.rs skips white space there as everywhere else (mirror variant 3 = fixed_ctor_ws)
CTOR_WS_FIXED = True
MAX_SETTING_DEPTH = 64          # = HeaderModel.MAX_SETTING_DEPTH = header.rs MAX_SETTING_DEPTH

K_ARRAY = "header: unterminated array value never terminates"
K_U64 = "header: integer literal beyond u64 panics"
K_STACK = "header: array nesting recurses on the native stack; tens of thousands of nested '[' abort the process"
K_LEXSPAN = "lex: error spans are relative to the text after the %grmtools section (C11) and can split a multi-byte character of the full text"

K_LEXTARGET = "lex: DuplicateName span of a rule with a target state ignores the <S> prefix (C11) and can split a multi-byte character of the name"

TIMEOUT_ENV = {"GVH_CASE_TIMEOUT_MS": "2000"}

# /tmp/wta-c12/audit/1: one InvalidEntry("yacckind") error (SpansKind::Error) with 2, 4, 2 spans; format_error hit
# unreachable!() at the second span (fixed in /repo 87315cb)
AUDIT_MULTISPAN = [
    "%grmtools{yacckind: Foo::Bar}\n%%\nS: ;\n",
    "%grmtools{yacckind: YaccKnd::Orignal(YaccOriginalActionKnd::NoActon)}\n%%\nS: ;\n",
    "%grmtools{yacckind: Original(X::Y)}\n%%\nS: ;\n",
]
CONV_TAGS = {"k": "YaccKind::try_from (HeaderError<Span>)", "K": "YaccKind::try_from (as YaccGrammarError)",
             "s": "SerialisationFormat::try_from", "l": "LexerKind::try_from", "r": "RecoveryKind::try_from",
             "f": "LexFlags::try_from", "e": "the parser", "w": "the parser (warning)"}


def render_records(out):
    """([R records], [RENDERPANIC segments], [RSKIP segments]) of a harness line"""
    recs, panics, skips = [], [], []
    for seg in out.split(" # ")[1:]:
        f = seg.split(" ")
        if f[0] == "R" and len(f) >= 10:
            recs.append({"tag": f[1], "idx": int(f[2]), "sk": f[3], "n": int(f[4]), "start": int(f[5]),
                         "fline": f[6], "lline": f[7], "col": f[8], "len": int(f[9])})
        elif f[0] == "RENDERPANIC":
            panics.append(seg)
        elif f[0] == "RSKIP":
            skips.append(seg)
    return recs, panics, skips


def conv_segments(line):
    """the ` # YK …` / ` # SF …` segments (mirrored conversions) of a harness or mirror line"""
    return [seg for seg in line.split(" # ")[1:] if seg.startswith(("YK ", "SF "))]


def hx(s):
    return s.encode("utf-8").hex() or "-"


def unspan(line):
    """the parsed VALUE of an `OK …` line of the harness / the model runner with every span (and the end position)
    removed: [(key, value)] in the section's order, value = nested tuples; None when the line is not an OK line"""
    tk = line.split(" # ")[0].split(" ")
    if not tk or tk[0] != "OK":
        return None
    pos = [2]

    def take(n=1):
        r = tk[pos[0]:pos[0] + n]
        pos[0] += n
        return r

    def ns():
        if take()[0] == "+":
            space = take(3)[0]
        else:
            space = None
        return (space, take(3)[0])

    def setting():
        k = take()[0]
        if k == "U":
            return ("U", ns())
        if k == "C":
            return ("C", ns(), ns())
        if k in ("N", "S"):
            return (k, take(3)[0])
        if k == "A":
            n = int(take(5)[4])
            return ("A", tuple(setting() for _ in range(n)))
        raise ValueError(k)

    out = []
    try:
        while pos[0] < len(tk):
            assert take()[0] == "E"
            key = take(3)[0]
            if tk[pos[0]] == "F":
                out.append((key, ("F", take(4)[1])))
            else:
                out.append((key, setting()))
    except (ValueError, IndexError, AssertionError):
        return ("unparsed", line.split(" # ")[0])
    return out


def ws_after_paren(t):
    return re.search("\\([\t\n\x0b\x0c\r \x85\u200e\u200f\u2028\u2029]", t) is not None


DEEP_RECIPE = {}        # text -> python expression regenerating it (deep-nesting cases)


def deep_texts():
    """[(python expression, text)] — deep array nesting around the limit L and far beyond it.
    The expression (over L) regenerates the text: replay lines of these cases are too long to print."""
    rec = []
    pre = '"%grmtools{a: " + '
    for n in ("(L - 1)", "L", "(L + 1)", "1000", "100000"):
        rec.append(pre + '"[" * %s + "]" * %s + "}"' % (n, n))          # balanced
        rec.append(pre + '"[" * %s' % n)                                # unterminated
    for n in ("(L - 1)", "L", "(L + 1)"):
        rec.append(pre + '"[" * %s + "1" + "]" * %s + "}"' % (n, n))
        # multi-byte white space between the brackets shifts every span
        rec.append('"%%grmtools{a: 7, b: " + " [\\u2028" * %s + "x::y" + "\\x85]" * %s + ", c}"' % (n, n))
        # the nested array is the last element of every level
        rec.append(pre + '"[1, \\"s\\", " * %s + "]" * %s + "}"' % (n, n))
        # siblings of different depth / of the same depth
        rec.append(pre + '"[" * (%s - 1) + "[], [[]]" + "]" * (%s - 1) + "}"' % (n, n))
        rec.append(pre + '"[" + ("[" * (%s - 1) + "]" * (%s - 1) + ",") * 3 + "]}"' % (n, n))
        rec.append(pre + '"[" * %s + ",,,"' % n)                         # separators after the deepest '['
        rec.append(pre + '"[" * %s + "]" * (%s - 1) + "}"' % (n, n))     # one ']' short
        rec.append(pre + '"[" * %s + "]" * (%s + 1) + "}"' % (n, n))     # one ']' too many
        rec.append(pre + '"[" * %s + "99999999999999999999" + "]" * %s + "}"' % (n, n))
    rec.append(pre + '"[" + "[]," * 200 + "]}"')                        # 200 siblings, depth 2
    rec.append(pre + '"[" * (L + 1) + "]" * (L + 1) + ", b: [[" + "}"') # only the first error is reported
    rec.append('"%grmtools{a: [[]], a: " + "[" * (L + 5) + "}"')
    rec.append('"%grmtools{!a, a: " + "[" * (L + 5) + "]" * (L + 5) + ", a}"')
    return [(r, eval(r, {"L": MAX_SETTING_DEPTH})) for r in rec]


def generate(ctx):
    """list of (which, text, origin)"""
    rng = ctx.rng
    cases = []

    def add(which, text, origin):
        cases.append((which, text, origin))

    def add_h(text, origin):
        add("H0", text, origin)
        add("H1", text, origin)

    # ---- corpus first: the two §9 witnesses and friends
    for t in ["%grmtools{a: [", "%grmtools{a: 99999999999999999999999}", "%grmtools{a: [#]}",
              "%grmtools{a: 18446744073709551615}", "%grmtools{a: 18446744073709551616}",
              "%grmtools{a: [1, [99999999999999999999], 2]}", "%grmtools{a: [\"x]", "", "%grmtools", "%grmtools{",
              "   %grmtools\x85{a,a,!a,b,b}", "%grmtools{ſ: K}", "%grmtools{a: [,,1 2,]}", "x"] + c12gen.REAL_HEADERS:
        add_h(t, "corpus")
    # native stack: `[` nested n deep, parsed on an 8 MiB stack (impl only; not sent to the mirror)
    for n in (50, 2000, 60000):
        add("HS", "%grmtools{a: " + "[" * n + "]" * n + "}", "corpus")
    if DEPTH_FIXED:
        # deep nesting: full correspondence on the worker stack (both `required`) and on 8 MiB;
        # the yacc and lex front ends call the section parser first
        for r, t in deep_texts():
            add("H0", t, "deep")
            add("H1", t, "deep")
            add("HS", t, "deep")
            DEEP_RECIPE[t] = r
        for n in (MAX_SETTING_DEPTH + 1, 100000):
            h = "%grmtools{yacckind: Original(NoAction), a: " + "[" * n
            DEEP_RECIPE[h] = '"%%grmtools{yacckind: Original(NoAction), a: " + "[" * %d' % n
            for tail, ws_ in (("", ("L", "YF", "YN")), ("]" * n + "}\n%%\n[a-z] 'A'\n", ("L",)),
                              ("]" * n + "}\n%start S\n%%\nS: 'a';\n", ("YF", "YN"))):
                for w in ws_:
                    add(w, h + tail, "deep")
                    DEEP_RECIPE.setdefault(h + tail, DEEP_RECIPE[h] + " + %r" % tail)
    # ---- white space after '(' / before ')' of a constructor value: a fixed family, in every run; the first ones
    # also through both from_str routes of the yacc parser and through the lex parser
    for i, (t, ref) in enumerate(c12gen.ctor_ws_headers()):
        add_h(t, "ctorws")
        add_h(ref, "ctorws")
        if i < 40 or i % 9 == 0:
            add("YF", t + c12gen.YACC_BODY, "ctorws")
            add("ZF", t + c12gen.YACC_BODY, "ctorws")
            add("L", t + c12gen.LEX_BODY, "ctorws")
    # ---- enum values of the section (yacckind / recoverer / serialisation_format / lexerkind): the audit's three
    # texts first, then the near-valid family; through the section parser (both `required`), both from_str routes
    # of the yacc parser (where YaccKind::try_from runs) and the lex parser
    for t in AUDIT_MULTISPAN:
        add("ZF", t, "corpus")
        add("YF", t, "corpus")
        add_h(t, "corpus")
    for h in c12gen.enum_value_headers(rng, ctx.n(60, 1500)):
        add_h(h, "enum")
        add("YF", h + c12gen.YACC_BODY, "enum")
        add("ZF", h + c12gen.YACC_BODY, "enum")
        add("L", h + c12gen.LEX_BODY, "enum")
    for t in c12gen.LEX_CORPUS:
        add("L", t, "corpus")
    for k, t in c12gen.YACC_CORPUS:
        add("Y" + k, t, "corpus")
    # ---- `//` whole-line comments through new_with_options(allow_wholeline_comments = on): every truncation
    for t in c12gen.LEX_WLC_OPT:
        add("LO", t, "valid")
        for v in c12gen.truncations(t):
            add("LO", v, "near")
    # the from_str route with the flag in the section (LEX_WLC heads LEX_CORPUS): every truncation here too
    # (the general lex loop below truncates every sample as well; these come first so that they are not skipped
    # when a shard runs into many hangs)
    for t in c12gen.LEX_WLC:
        for v in c12gen.truncations(t):
            add("L", v, "near")
    # ---- %prec everywhere (empty productions in particular): every kind x {AST + grammar, YaccGrammar::new}, from_str
    # with a section of every kind (both routes); every truncation through YaccGrammar::new of two kinds
    for t in c12gen.YACC_PREC:
        for k in "NOUGE":
            add("Y" + k, t, "valid")
            add("Z" + k, t, "valid")
        for h in c12gen.YACC_PREC_SECTIONS:
            add("YF", h + t, "valid")
            add("ZF", h + t, "valid")
        for v in c12gen.truncations(t)[:-1]:
            add("ZN", v, "near")
            add("ZG", v, "near")
        add("ZF", t, "near")                 # from_str without a section

    # ---- headers
    n_hdr = ctx.n(260, 2500)
    hdrs = [c12gen.header_section(rng) for _ in range(n_hdr)]
    tails = ["", "", "\n%%\nS: 'a';", "\n%%\n[a-z] 'A'\n", " x", "é"]
    for i, h in enumerate(hdrs):
        t = h + rng.choice(tails)
        add_h(t, "valid")
        nb = c12gen.neighbourhood(rng, h, n_trunc=(400 if i < ctx.n(60, 400) else 6), n_inject=ctx.n(12, 40), n_mut=ctx.n(8, 16))
        for v in nb:
            add("H0" if rng.random() < 0.7 else "H1", v, "near")
    for _ in range(ctx.n(1500, 20000)):
        add("H0", "%grmtools{" + c12gen.random_utf8(rng, rng.randint(0, 12)), "random")
    for _ in range(ctx.n(500, 5000)):
        add(rng.choice(["H0", "H1"]), c12gen.random_utf8(rng, rng.randint(0, 10)), "random")

    # ---- lex
    n_lex = ctx.n(150, 1500)
    for i in range(n_lex):
        s = c12gen.lex_spec(rng) if i >= len(c12gen.LEX_CORPUS) else c12gen.LEX_CORPUS[i]
        add("L", s, "valid")
        # EVERY truncation of every lex sample (the texts are short)
        # (thorough tier: of the first 500 samples; a sample of 5 truncations of the others)
        for v in c12gen.neighbourhood(rng, s, n_trunc=(10 ** 6 if i < ctx.n(10 ** 6, 500) else 5), n_inject=ctx.n(10, 40), n_mut=ctx.n(10, 20)):
            add("L", v, "near")
    for _ in range(ctx.n(600, 6000)):
        add("L", rng.choice(["", "%%\n", "%x S\n%%\n", "%%\na "]) + c12gen.random_utf8(rng, rng.randint(0, 12)), "random")

    # ---- yacc
    pool = c12gen.yacc_pool(rng, ctx.n(40, 300))
    n_y = ctx.n(150, 1500)
    for i in range(n_y):
        kind, s = c12gen.yacc_spec(rng, pool) if i >= len(c12gen.YACC_CORPUS) else c12gen.YACC_CORPUS[i]
        add("Y" + kind, s, "valid")
        if "%grmtools" in s or rng.random() < 0.2:
            add("YF", s, "valid")
        # the one-call routes text -> grammar (YaccGrammar::new / from_str)
        add("Z" + kind, s, "valid")
        if "%grmtools" in s:
            add("ZF", s, "valid")
        for v in c12gen.neighbourhood(rng, s, n_trunc=(400 if i < ctx.n(25, 200) else 5), n_inject=ctx.n(10, 40), n_mut=ctx.n(10, 20)):
            add("Y" + (kind if rng.random() < 0.7 else rng.choice(["N", "G", "E", "F", "F"])), v, "near")
    for _ in range(ctx.n(600, 6000)):
        add("Y" + rng.choice(["N", "G", "E"]), rng.choice(["", "%%\n", "%token a\n%%\n", "%%\nA: "]) + c12gen.random_utf8(rng, rng.randint(0, 12)), "random")

    # ---- odd characters (non-ASCII digits/numerals, case-folding surprises, combining marks, odd
    # blanks, BOM, 4-byte emoji): EVERY one of them inserted at EVERY offset and replacing EVERY
    # character of sample texts of each parser (exhaustive over char x offset x {insert, replace})
    for k, s in c12gen.ODD_YACC:
        add("Y" + k, s, "valid")
        for v in c12gen.odd_everywhere(s):
            add("Y" + k, v, "odd")
    for s in c12gen.ODD_LEX:
        add("L", s, "valid")
        for v in c12gen.odd_everywhere(s):
            add("L", v, "odd")
    for i, s in enumerate(c12gen.ODD_HEADERS):
        add_h(s, "valid")
        for v in c12gen.odd_everywhere(s):
            add("H1" if i == 0 else "H0", v, "odd")
    return cases


def skeleton(text):
    """canonical token skeleton: letters -> a, digits -> 0, other non-ASCII -> u, whitespace collapsed"""
    o = []
    for c in text:
        if c.isalpha():
            k = "a"
        elif c.isdigit():
            k = "0"
        elif c.isspace() or c in "\x85‎‏":
            k = " "
        elif ord(c) > 127:
            k = "u"
        else:
            k = c
        if o and o[-1] == k and k in "a0 u":
            continue
        o.append(k)
    return "".join(o)


TARGET_MB = re.compile(r"[ \t]<[+-]?[A-Za-z][A-Za-z0-9_.]*>['\"][^\n]*[^\x00-\x7f]")


def errs_of(out):
    """[(kind, [(s, e)…])] of an `ERRS n X kind k s e …` line"""
    head = out.split(" # ")[0].split(" ")
    res, i = [], 2
    while i < len(head) and head[i] == "X":
        kind, k = head[i + 1], int(head[i + 2])
        sp = [(int(head[i + 3 + 2 * q]), int(head[i + 4 + 2 * q])) for q in range(k)]
        res.append((kind, sp))
        i += 3 + 2 * k
    return res


def classify_lex_badspan(out, text):
    """known class of a BADSPAN of the lex parser (both are C11 findings seen through C12's eyes)"""
    m = re.search(r"# HDRPOS (\d+) (RELOK|RELBAD)", out)
    if m and int(m.group(1)) > 0 and m.group(2) == "RELOK":
        return K_LEXSPAN
    bad = set((int(a), int(b)) for a, b in re.findall(r"# BADSPAN err (\d+) (\d+)", out))
    if not bad or re.search(r"# BADSPAN (?!err )", out):
        return None
    kinds = set(k for k, sp in errs_of(out) if any(x in bad for x in sp))
    if kinds == {"DuplicateName"} and TARGET_MB.search(text):
        return K_LEXTARGET
    return None


def classify_header_failure(out, m_orig, m_fixed):
    """known class of a PANIC/HANG of the implementation's header parser, judged by the two
    mirror variants on the same text (narrow: the pinned mirror fails the same way and the
    repaired mirror does not)"""
    if out.startswith("HANG") and m_orig == "HANG" and not m_fixed.startswith(("HANG", "PANIC")):
        return K_ARRAY
    if out.startswith("PANIC") and "PosOverflow" in out and m_orig == "PANIC" and not m_fixed.startswith(("HANG", "PANIC")):
        return K_U64
    return None


def run(ctx):
    ctx.gate = core.proof_gate("C12")
    for _ in ctx.gate["theorems"]:
        ctx.oblige(True)
    exe = core.build_harness("c12")
    mexe = core.build_model("c12")
    rng = ctx.rng
    DEEP_RECIPE.clear()
    cases = generate(ctx)

    # ---- mirror first (all variants) on every text: required=1 only for H1 cases, the yacc and
    # lex parsers call the section parser with required=false before anything else.
    # Variants 0 (as first pinned) and 1 (array-loop and u64 repairs) recurse once per '[' and
    # re-slice the text at every step: the deep-nesting texts (HS, origin "deep") are not given to
    # them.  Variant 2 (with the nesting limit) gets every text; the extracted OCaml code needs its
    # own stack for 200 000-character lists (byte_len is not tail recursive), hence the ulimit.
    keys = sorted(set((1 if w == "H1" else 0, t) for w, t, o in cases if w != "HS" and o != "deep"))
    mo = core.run_lines([mexe], ["0 %d %s" % (r, hx(t)) for r, t in keys])
    mf = core.run_lines([mexe], ["1 %d %s" % (r, hx(t)) for r, t in keys])
    m_orig = dict(zip(keys, mo))
    m_fixed = dict(zip(keys, mf))
    keys2 = sorted(set((1 if w == "H1" else 0, t) for w, t, o in cases if DEPTH_FIXED or (w != "HS" and o != "deep")))
    big = ["sh", "-c", "ulimit -s 1000000 2>/dev/null; exec '%s'" % mexe]
    md = core.run_lines(big, ["2 %d %s" % (r, hx(t)) for r, t in keys2])
    m_depth = dict(zip(keys2, md))
    # the nesting limit is inert below MAX_SETTING_DEPTH: on the generated texts (nesting < 10) the
    # mirror with the limit answers exactly as the one without it
    inert = [k for k in keys if m_fixed[k] != m_depth[k]]
    ctx.oblige(not inert, "mirror: the nesting limit changes no result on the %d generated texts (first difference: %r)"
               % (len(keys), (inert[0][1][:200] if inert else None)))
    # variant 3 = variant 2 + white space skipped between '(' and the argument of a constructor value
    mc = core.run_lines(big, ["3 %d %s" % (r, hx(t)) for r, t in keys2])
    m_ctor = dict(zip(keys2, mc))
    # ... which is inert on every text without white space directly after a '(' ...
    inert3 = [k for k in keys2 if m_ctor[k] != m_depth[k] and not ws_after_paren(k[1])]
    ctx.oblige(not inert3, "mirror: skipping white space before a constructor argument changes no result on the %d texts "
               "without white space after a '(' (first difference: %r)" % (len(keys2), (inert3[0][1][:200] if inert3 else None)))
    # ... and on the family the theorems replayed: C12_header_layout_insensitive_ctor (repaired: the value of the section
    # without that white space), C12_header_layout_sensitive_ctor_pinned (pinned: an error whenever there is white space
    # after a '(' that starts an argument)
    fam = c12gen.ctor_ws_headers()
    fam_bad = []
    n_fam_pinned_err = 0
    for t, ref in fam:
        for rq in (0, 1):
            a, b = unspan(m_ctor[(rq, t)]), unspan(m_ctor[(rq, ref)])
            if a is None or a != b:
                fam_bad.append((t, m_ctor[(rq, t)][:120], m_ctor[(rq, ref)][:120]))
            if ws_after_paren(t):
                n_fam_pinned_err += 1
                if not m_depth[(rq, t)].startswith("ERRS 1 X IllegalName 1 "):
                    fam_bad.append((t, "pinned", m_depth[(rq, t)][:120]))
    ctx.oblige(not fam_bad, "mirror on the constructor white-space family (%d sections x 2): repaired = the value of the section "
               "without the white space; pinned = IllegalName on the %d with white space after '(' (first: %r)"
               % (len(fam), n_fam_pinned_err, fam_bad[:1]))
    if CTOR_WS_FIXED and DEPTH_FIXED:
        tied, variant = m_ctor, "repaired + nesting limit + white space before a constructor argument"
    else:
        tied = m_depth if DEPTH_FIXED else (m_fixed if HEADER_FIXED else m_orig)
        variant = "repaired + nesting limit" if DEPTH_FIXED else ("repaired" if HEADER_FIXED else "pinned")

    # ---- a hang costs 2 s of wall clock.  "Risky" = the pinned mirror runs out of fuel on the text.
    # Before the repair only a sample of the risky cases is run on the implementation.  After it
    # (HEADER_FIXED) all of them are run — unless a first sample of them still hangs, in which case
    # the violation is already established and the remaining risky cases are skipped to stay in time.
    budget = ctx.n(48, 400)
    NOMIRROR = "-"
    for w, t, o in cases:
        if w == "HS" or o == "deep":
            rq = 1 if w == "H1" else 0
            m_orig.setdefault((rq, t), NOMIRROR)
            m_fixed.setdefault((rq, t), NOMIRROR)
            m_depth.setdefault((rq, t), NOMIRROR)
            m_ctor.setdefault((rq, t), NOMIRROR)

    def risky(c):
        return m_orig[(1 if c[0] == "H1" else 0, c[1])] == "HANG"

    pred = [c for c in cases if risky(c)]
    firsts = [c for c in pred if c[2] == "corpus"]
    others = [c for c in pred if c[2] != "corpus"]
    rng.shuffle(others)
    byw = {}
    for c in others:
        byw.setdefault(c[0][0], []).append(c)          # some of every parser
    pick = list(firsts)
    while len(pick) < budget and any(byw.values()):
        for w in sorted(byw):
            if byw[w] and len(pick) < budget:
                pick.append(byw[w].pop())
    keep = set(id(c) for c in pick)

    def run_impl(cs):
        ls = ["%s %s" % (w, hx(t)) for w, t, _ in cs]
        # each hang costs a watchdog period: after a dozen per shard the rest of that shard is
        # skipped (the witnesses already found are reported; skipped cases are counted, not judged)
        return ls, core.run_lines([exe], ls, env=TIMEOUT_ENV, timeout=3000, max_bad=12)

    selected = [c for c in cases if not risky(c) or id(c) in keep]
    skipped = len(cases) - len(selected)
    lines, impl = run_impl(selected)
    if HEADER_FIXED and skipped:
        sample_hangs = sum(1 for c, o in zip(selected, impl) if risky(c) and o.startswith("HANG"))
        if sample_hangs == 0:
            rest = [c for c in cases if risky(c) and id(c) not in keep]
            l2, i2 = run_impl(rest)
            selected, lines, impl, skipped = selected + rest, lines + l2, impl + i2, 0

    ndiff = 0
    ncorr = 0
    nwitness = 0
    n_err_rendered = n_warn_rendered = n_conv_rendered = 0
    n_multi = {}            # tag -> number of rendered SpansKind::Error diagnostics with >= 2 spans
    n_multi_by_count = {}   # number of spans -> how many
    nconv = nconv_diff = nconv_err = 0
    deferred = []      # correspondence-only reports: after the property-level witnesses
    for (w, t, origin), line, out in zip(selected, lines, impl):
        rq = 1 if w == "H1" else 0
        mt, mo_, mf_ = tied[(rq, t)], m_orig[(rq, t)], m_fixed[(rq, t)]
        sk = w[0] + skeleton(t)
        ctx.count(w[0] + "_" + origin)
        cls = out.split(" ")[0] if out else "EMPTY"
        ctx.count(w[0] + "_" + cls)
        if w in ("LO",) or w[0] == "Z":
            ctx.count("route_%s_%s" % ("new_with_options" if w == "LO" else "YaccGrammar::new" if w != "ZF" else "YaccGrammar::from_str", cls))
        if cls == "SKIPPED":
            continue
        if cls == "NOTRUN" and w == "LO":
            # new_with_options unwraps the section parser's result: a malformed section is not an input of this route
            continue
        sline = line if len(line) < 8000 else line[:120] + "...(hex of the text, %d chars)" % len(line)
        replay = "echo '%s' | GVH_CASE_TIMEOUT_MS=2000 .work/target/release/c12" % sline
        if t in DEEP_RECIPE and len(line) >= 8000:
            replay = ("python3 -c 'L = %d; print(\"%s\", (%s).encode().hex())' | GVH_CASE_TIMEOUT_MS=2000 .work/target/release/c12"
                      % (MAX_SETTING_DEPTH, w, DEEP_RECIPE[t].replace("'", "'\\''")))
        if t in DEEP_RECIPE:
            ctx.count("deep_" + w)
        base = {"parser": {"H": "GrmtoolsSectionParser::parse (required=%s)%s" % (w == "H1", " on an 8 MiB stack" if w == "HS" else ""), "Y": "ASTWithValidityInfo::%s + YaccGrammar::new_from_ast_with_validity_info" % ("from_str" if w == "YF" else "new, kind " + w[1:]),
                           "Z": "YaccGrammar::from_str" if w == "ZF" else "YaccGrammar::new (new_with_storaget), kind " + w[1:],
                           "L": "LRNonStreamingLexerDef::new_with_options(text, allow_wholeline_comments = Some(true))" if w == "LO" else "LRNonStreamingLexerDef::from_str"}[w[0]],
                "text": t if len(t) < 4000 else t[:200] + " ...(%d chars)... " % len(t) + t[-100:],
                "case": sline, "impl": out[:600], "replay_cmd": replay}
        bad = None
        if cls in ("PANIC", "HANG", "CRASH"):
            bad = cls
        elif "BADSPAN" in out or "NOSPAN" in out:
            bad = "BADSPAN"
        elif "EMPTYERRS" in out:
            bad = "no value and an empty error list"
        elif "OKWITHERRS" in out:
            bad = "a grammar was returned although the AST carries errors"
        elif cls not in ("OK", "ERRS"):
            bad = "unexpected harness output"
        # ---- rendering of everything that was returned
        recs, rpanics, rskips = render_records(out)
        if recs or rpanics:
            tb = t.encode("utf-8")
        render_bad = None
        for r in recs:
            want = str(1 + tb[:r["start"]].count(b"\n"))
            if r["tag"] == "e":
                n_err_rendered += 1
            elif r["tag"] == "w":
                n_warn_rendered += 1
            else:
                n_conv_rendered += 1
            if r["sk"] == "E" and r["n"] >= 2:
                n_multi[r["tag"]] = n_multi.get(r["tag"], 0) + 1
                n_multi_by_count[r["n"]] = n_multi_by_count.get(r["n"], 0) + 1
            if r["len"] == 0:
                render_bad = "the rendering of a returned diagnostic (%s) is empty" % CONV_TAGS.get(r["tag"], r["tag"])
            elif r["fline"] != want or r["lline"] != want:
                render_bad = ("the rendering of a returned diagnostic (%s, first span starts at byte %d) reports line %s "
                              "(format_*) / %s (file_location_msg), the span starts on line %s"
                              % (CONV_TAGS.get(r["tag"], r["tag"]), r["start"], r["fline"], r["lline"], want))
        if not bad:
            head = out.split(" # ")[0].split(" ")
            n_errs = int(head[1]) if cls == "ERRS" and len(head) > 1 else 0
            n_e = sum(1 for x in recs if x["tag"] == "e") + sum(1 for x in rpanics + rskips if x.split(" ")[1] == "e")
            mw = re.search(r" # W (\d+)", out)
            n_w = sum(1 for x in recs if x["tag"] == "w") + sum(1 for x in rpanics + rskips if x.split(" ")[1] == "w")
            if rpanics:
                f = rpanics[0].split(" ")
                bad = ("rendering a returned diagnostic panics: %s of an error of %s with %s span(s) of SpansKind %s: %s"
                       % ("format_warning" if f[1] == "w" else "format_error", CONV_TAGS.get(f[1], f[1]), f[4],
                          {"E": "Error", "D": "DuplicationError"}.get(f[3], f[3]), " ".join(f[5:])[:200]))
            elif "CONVPANIC" in out:
                bad = "PANIC in the conversion of a parsed value: " + out.split(" # CONVPANIC ")[1][:200]
            elif "CONVNOLOC" in out:
                bad = "a value conversion error without a span: " + out.split(" # CONVNOLOC ")[1].split(" ")[0]
            elif render_bad:
                bad = render_bad
            elif rskips or n_e != n_errs or (mw and n_w != int(mw.group(1))):
                bad = "unexpected harness output (not every returned diagnostic was rendered)"
        nontriv = (origin != "random" or cls == "ERRS") and len(t) > 0
        ctx.case(sk, nontriv, {"which": w, "text": t[:200], "impl": out[:200]} if origin == "valid" else None)
        if bad:
            nwitness += 1
            known = None
            if w == "HS":
                # before the nesting limit: the recorded finding; with it a crash is a plain violation
                if not DEPTH_FIXED and cls == "CRASH" and "[" * 10000 in t and ("stack" in out or "rc=-6" in out or "rc=-11" in out):
                    known = K_STACK
            elif cls in ("PANIC", "HANG"):
                # every parser starts with the section parser: attribute by the two mirror variants
                known = classify_header_failure(out, mo_, mf_) if not HEADER_FIXED else None
            elif bad == "BADSPAN" and w in ("L", "LO") and "NOSPAN" not in out:
                known = classify_lex_badspan(out, t)
            d = dict(base)
            if t in DEEP_RECIPE:
                d["text_expr"] = "L = %d; %s" % (MAX_SETTING_DEPTH, DEEP_RECIPE[t])
            d.update({"violated": "C12: " + bad, "mirror_pinned": mo_[:300], "mirror_repaired": mf_[:300],
                      "mirror_nesting_limit": m_depth[(rq, t)][:300], "mirror_ctor_ws": m_ctor[(rq, t)][:300],
                      "authority": "the implementation itself: the property forbids this outcome for every input"})
            ctx.violation(d, known_key=known)
        if w in ("H0", "H1") or (w == "HS" and DEPTH_FIXED):
            # correspondence: class, values, spans, error kinds — the harness appends ` # …` remarks
            # only for span defects, which are reported above
            o = out.split(" # ")[0]
            o = "PANIC" if o.startswith("PANIC") else o
            ncorr += 1
            # the conversions of the parsed values (YaccKind, SerialisationFormat): impl = mirror on every entry
            ci, cm = conv_segments(out), conv_segments(mt)
            nconv += len(cm)
            nconv_err += sum(1 for x in cm if " ERR " in x)
            if ci != cm and "CONVPANIC" not in out and o == mt.split(" # ")[0]:
                nconv_diff += 1
                d = dict(base)
                dif = [(a, b) for a, b in zip(ci, cm) if a != b][:3] or [(len(ci), len(cm))]
                d.update({"mirror": " # ".join(cm)[:600], "impl_conversions": " # ".join(ci)[:600], "first_differences": dif,
                          "broken": "correspondence YaccKind::try_from / SerialisationFormat::try_from <-> C12/Conv.v "
                                    "(C12_yacckind_conv_ok_iff, C12_yacckind_conv_err_spans, C12_serformat_conv_spec, "
                                    "C12_conv_error_spans_wellformed speak about the mirror)"})
                deferred.append(d)
            if o != mt.split(" # ")[0]:
                ndiff += 1
                if not bad:
                    # both are value-or-located-errors outcomes but differ: the theorems are about a
                    # mirror that no longer describes header.rs.  No property-level witness.
                    d = dict(base)
                    if t in DEEP_RECIPE:
                        d["text_expr"] = "L = %d; %s" % (MAX_SETTING_DEPTH, DEEP_RECIPE[t])
                    d.update({"mirror": mt[:600], "variant": variant,
                              "broken": "correspondence header.rs <-> C12/HeaderModel.v (C12_header_total, C12_header_spans_wellformed, C12_header_depth_bounded, C12_header_layout_insensitive_ctor speak about the mirror)"})
                    deferred.append(d)
                # (when the implementation's outcome is itself a C12 witness it was reported above)
    # ---- the constructor white-space family on the implementation: the value (spans apart) of every member = the value
    # of the same section without the white space after '(' / before ')' (C12_header_layout_insensitive_ctor is about the
    # mirror; this is the same statement observed on header.rs, with the failing text as input)
    impl_h = {}
    for (w, t, origin), line, out in zip(selected, lines, impl):
        if origin == "ctorws" and w in ("H0", "H1"):
            impl_h[(w, t)] = (line, out)
    n_fam = n_fam_bad = 0
    if CTOR_WS_FIXED:
        for t, ref in fam:
            for w in ("H0", "H1"):
                if (w, t) not in impl_h or (w, ref) not in impl_h:
                    continue
                (la, oa), (lb, ob) = impl_h[(w, t)], impl_h[(w, ref)]
                n_fam += 1
                if unspan(oa) is None or unspan(oa) != unspan(ob):
                    n_fam_bad += 1
                    ctx.violation({"violated": "C12 (header mirror: C12_header_layout_insensitive_ctor) / C10 (layout clause): the value the "
                                               "section parser returns depends on white space between the '(' of a constructor value and its argument",
                                   "parser": "GrmtoolsSectionParser::parse (required=%s)" % (w == "H1"), "text": t, "reference_text": ref,
                                   "impl": oa[:400], "impl_on_reference": ob[:400], "mirror": m_ctor[(1 if w == "H1" else 0, t)][:400],
                                   "replay_cmd": "echo '%s' | .work/target/release/c12 ; echo '%s' | .work/target/release/c12" % (la, lb)})
        ctx.oblige(n_fam_bad == 0 and n_fam == 2 * len(fam),
                   "implementation on the constructor white-space family: %d of %d (section, required) pairs give the value of the "
                   "section without the white space" % (n_fam - n_fam_bad, 2 * len(fam)))
    ctx.coverage["ctor_ws_family_sections"] = len(fam)
    ctx.coverage["ctor_ws_family_compared_on_impl"] = n_fam
    ctx.coverage["ctor_ws_variant_tied"] = bool(CTOR_WS_FIXED and DEPTH_FIXED)
    for d in deferred[:20]:
        ctx.violation(d, no_input=True)
    ctx.oblige(ndiff == 0, "header correspondence (impl = %s mirror) on %d runs" % (variant, ncorr))
    ctx.oblige(nconv_diff == 0 and nconv > 0, "value conversions (YaccKind::try_from, SerialisationFormat::try_from) = mirror "
               "on %d conversions of parsed values (%d of them errors)" % (nconv, nconv_err))
    # multi-span errors of SpansKind::Error really occurred, through the parsers' own entry points
    ctx.oblige(n_multi.get("e", 0) > 0 and all(n_multi_by_count.get(k, 0) > 0 for k in (2, 3, 4)),
               "errors with 2, 3 and 4 spans under SpansKind::Error were returned and rendered (%r; by source %r)"
               % (n_multi_by_count, n_multi))
    ctx.coverage["errors_rendered"] = n_err_rendered
    ctx.coverage["warnings_rendered"] = n_warn_rendered
    ctx.coverage["conversion_errors_rendered"] = n_conv_rendered
    ctx.coverage["multi_span_errors"] = sum(n_multi.values())
    ctx.coverage["multi_span_errors_by_span_count"] = {str(k): v for k, v in sorted(n_multi_by_count.items())}
    ctx.coverage["multi_span_errors_returned_by_a_parser_entry_point"] = n_multi.get("e", 0)
    ctx.coverage["value_conversions_compared"] = nconv
    ctx.coverage["value_conversion_errors_compared"] = nconv_err
    if DEPTH_FIXED:
        # the deep-nesting texts were really compared (not skipped, not lost): every one of them,
        # with both values of `required` and on the 8 MiB stack
        ndeep = sum(1 for (w, t, o), out in zip(selected, impl) if o == "deep" and w[0] == "H" and out.split(" ")[0] in ("OK", "ERRS"))
        want = 3 * len(deep_texts())
        ctx.oblige(ndeep == want, "deep-nesting texts answered by the implementation with a value or errors: %d of %d" % (ndeep, want))
        ctx.coverage["deep_nesting_runs"] = ndeep
    # C12 itself on the sampled inputs: with HEADER_FIXED the run must be free of witnesses; before
    # the repair the only witnesses allowed are the known classes (anything else is a VIOLATION)
    ctx.oblige(len(ctx.violations) == 0, "no unknown C12 witness among the generated texts")
    ctx.coverage["rule"] = ("valid %%grmtools sections / .l / .y texts of every kind (Gram.render() and a Grmtools-kind renderer, "
                            "random lexers, random sections with arrays, strings, namespaced values, numbers), every truncation of a "
                            "sample of them, char mutations, one-bracket/quote/brace unbalancing, huge integers, multi-byte chars "
                            "injected at every offset, %d odd characters (non-ASCII decimal digits of 5 scripts, superscript/fraction/Roman/"
                            "circled/ideographic numerals, KELVIN SIGN, LONG S, dotted/dotless I, capital sharp S, fullwidth A, combining "
                            "marks, U+2028/2029/0085/00A0/3000/200B, BOM, 4-byte emoji) each inserted at every offset and replacing every "
                            "character of %d sample texts (yacc of 3 kinds + from_str with %%expect/%%expect-rr/%%token/%%prec/actions; lex "
                            "with start states, quoted names, repetition counts; headers with numbers, strings, arrays), random UTF-8; EVERY truncation of EVERY "
                            "lex sample; %d lex texts with `//` whole-line comments in the declarations and rules sections (flag from the section: "
                            "from_str; flag through new_with_options: %d texts), every truncation of them through both routes; %d yacc texts with "
                            "%%prec on empty productions / naming undeclared tokens, rules, nothing / at odd places, each as all 5 kinds through "
                            "ASTWithValidityInfo + new_from_ast_with_validity_info, through YaccGrammar::new and (with a section of each kind) "
                            "through both from_str routes, every truncation through YaccGrammar::new; generated yacc samples also through "
                            "YaccGrammar::new; non-trivial = non-empty text that is not pure random noise "
                            "accepted silently; %d sections with near-valid enum values for yacckind / recoverer / serialisation_format / lexerkind "
                            "(namespace x member x argument namespace x argument, each right / absent / misspelt; other shapes; one-line and "
                            "multi-line), each through the section parser, both from_str routes and the lex parser; distinct by token skeleton (letters/digits/non-ASCII runs collapsed) per parser"
                            % (len(c12gen.ODD_CHARS), len(c12gen.ODD_YACC) + len(c12gen.ODD_LEX) + len(c12gen.ODD_HEADERS),
                               len(c12gen.LEX_WLC), len(c12gen.LEX_WLC_OPT), len(c12gen.YACC_PREC),
                               sum(1 for c in cases if c[2] == "enum" and c[0] == "H0")))
    ctx.coverage["odd_char_cases"] = sum(1 for c in cases if c[2] == "odd")
    ctx.coverage["exhaustive"] = False
    ctx.coverage["cases_generated"] = len(cases)
    ctx.coverage["predicted_hangs_not_run_on_impl"] = skipped
    ctx.coverage["witnesses_seen"] = nwitness
    ctx.coverage["header_variant_tied"] = variant
    ctx.coverage["header_runs_compared"] = ncorr
    ctx.coverage["header_mismatches"] = ndiff
    ctx.assumptions += [
        "regex crate semantics of the four header regexes (leftmost-first, Unicode simple case folding of [A-Z] adds U+017F and U+212A, '.' excludes \\n) are transcribed as scanners",
        "str::to_lowercase on a RE_NAME match maps A-Z to a-z, U+212A to k and leaves the rest",
        ("native stack: modelled as a budget of parse_setting frames (C12_header_depth_bounded: 65 frames always suffice with "
         "MAX_SETTING_DEPTH = 64); the size of one frame is not modelled — the implementation is run on an 8 MiB stack (HS cases) "
         "for nesting 63, 64, 65, 1000, 100000" if DEPTH_FIXED else
         "native stack: header.rs has no nesting limit (C12_header_depth_unbounded_refuted: no stack suffices); the mirror tied "
         "runs on an unbounded stack and generated nesting stays below 10; the overflow itself is the known finding probed by the HS cases"),
        "yacc and lex parsers: impl-only oracle in this check (no mirror yet)",
        "'promptly' is taken as 2 s per text (texts are < 2 KB)",
        "rendering: lrpar::diagnostics::SpannedDiagnosticFormatter is run, not mirrored, here (its rows are C19's subject: "
        "C12_format_spanned_any_number_of_spans re-exports C19's theorem); C12/Conv.v models only its dispatch on (SpansKind, span number); "
        "the reference line number is 1 + the number of '\\n' bytes before the span",
        "RecoveryKind / LexerKind / LexFlags conversions: impl-only oracle (no panic, an error has >= 1 location, every location a "
        "well-formed span, renders); YaccKind and SerialisationFormat are mirrored",
    ]
    c12_markmap.run_part(ctx)
