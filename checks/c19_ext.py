"""C19 extension (run from checks/C19.py): two repaired defects around error pretty-printing.

(a) `SpannedDiagnosticFormatter::format_conflicts` on YaccKind::Eco grammars with `%implicit_tokens` whose
    conflicts name productions THE GRAMMAR ADDS (`~`, `^~`), which have no counterpart in the AST
    (/repo cfcb52e: index out of bounds).  Oracle: no panic (release and debug harness); every reported
    `f:line:col` is the extracted model's `file_location` (C19_file_location_spec) of the span the grammar
    reports through its public accessors (rule_name_span / token_span / prod_span); the rows under each header are
    exactly the model's rows for those spans (C19_underline_rows_spec, C19_spans_on_line_spec); every `N| text` row
    is line N of the source.
(b) the in-tree example programs, built from /repo's working tree into .work/target-examples and fed erroneous
    stdin (/repo 1b943b2: calc_manual_lex handed its lexer a never-fed NewlineCache, every position it had to print
    was the unwrap of a None — C19_lexer_line_col_unfed_panics).  Oracle: the process does not panic; the first
    "line L column C" printed for a stdin line is the extracted model's `pp_position` (C19_lexer_line_col_total_on_fed_cache)
    at the start of the first erroneous lexeme of that line (computed here by a viable-prefix recogniser of the
    example's grammar), every other printed position is the position of SOME boundary of that line; evaluation
    errors of well-formed inputs are reported at the start of the offending sub-expression.
"""
import concurrent.futures
import os
import re
import subprocess
import time
from vlib import core

# ---------------------------------------------------------------------------------------------------------------
# (a) format_conflicts on grammars whose conflicts name added productions
# ---------------------------------------------------------------------------------------------------------------

AUDIT_GRAMMAR = "%implicit_tokens ws\n%start S\n%%\nS: 'a' 'ws' 'b' | 'a' 'b';\n"

# (implicit tokens, start, rules) — rules as token lists; every family member has a conflict whose reduce side is
# the empty production of the added rule `~` (the implicit token is also used explicitly, or starts the input),
# some have reduce/reduce or shift/reduce conflicts among the grammar's own productions as well
ECO_TEMPLATES = [
    (["ws"], "S", ["S", ":", "'a'", "'ws'", "'b'", "|", "'a'", "'b'", ";"]),
    (["ws"], "S", ["S", ":", "'ws'", "'a'", ";"]),
    (["ws", "nl"], "S", ["S", ":", "'a'", "'nl'", "'b'", "|", "'a'", "'ws'", ";"]),
    (["ws"], "S", ["S", ":", "A", "'ws'", "A", ";", "A", ":", "'a'", "|", "'a'", "'b'", ";"]),
    (["ws"], "S", ["S", ":", "'a'", "O", "'b'", ";", "O", ":", "|", "'ws'", ";"]),
    # reduce/reduce among the grammar's own rules (lookahead `$`: no span) + `~` shift/reduce
    (["ws"], "S", ["S", ":", "A", "|", "B", "|", "'ws'", ";", "A", ":", "'a'", ";", "B", ":", "'a'", ";"]),
    # reduce/reduce with a lookahead token that has a span
    (["ws"], "S", ["S", ":", "A", "'c'", "|", "B", "'c'", "|", "'c'", "'ws'", ";", "A", ":", "'a'", ";", "B", ":", "'a'", ";"]),
    # the classic ambiguous expression grammar + an explicit use of the implicit token
    (["ws"], "E", ["E", ":", "E", "'+'", "E", "|", "'n'", "|", "'n'", "'ws'", ";"]),
    (["ws", "nl"], "S", ["S", ":", "S", "'nl'", "S", "|", "'a'", "|", ";"]),
    (["nl", "ws"], "S", ["S", ":", "L", "'nl'", ";", "L", ":", "L", "'ws'", "'a'", "|", "'a'", ";"]),
]
ECO_SEPS = [" ", " ", "  ", "\n", "\r\n", "\t", " /* 中 */ ", " /* é♠ */ ", "\n\n  ", " /* a\n b */ ", "\n  ", " // c\n"]
ECO_LEADS = ["", "", "\n", "\r\n", "// 中 c\n", "/* é */ ", "\n\n", "/* a\r\n */\r\n"]


def eco_sources(rng, n):
    srcs = [AUDIT_GRAMMAR, AUDIT_GRAMMAR.replace("\n", "\r\n"), "\n\n" + AUDIT_GRAMMAR,
            "%start S\n%implicit_tokens ws\n%%\nS: \"a\" \"ws\" \"b\" | \"a\" \"b\";"]
    for _ in range(n):
        imp, start, toks = rng.choice(ECO_TEMPLATES)
        nl = rng.choice(["\n", "\n", "\r\n"])
        decls = ["%implicit_tokens " + rng.choice([" ", "  ", "\t"]).join(imp), "%start " + start]
        if rng.random() < 0.4:
            decls.reverse()
        src = rng.choice(ECO_LEADS) + decls[0] + nl + decls[1] + nl + rng.choice(["", "", "// é\n", nl]) + "%%" + nl
        dq = rng.random() < 0.3
        for t in toks:
            if dq and t.startswith("'"):
                t = '"' + t[1:-1] + '"'
            src += t + rng.choice(ECO_SEPS)
        srcs.append(src)
    # small random grammars over three rules and the tokens a b ws nl (kept when they have a conflict)
    for _ in range(n):
        imp = rng.choice([["ws"], ["ws", "nl"], ["nl"]])
        rules = ["S", "A", "B"][:rng.randint(1, 3)]
        nl = rng.choice(["\n", "\n", "\r\n"])
        src = rng.choice(ECO_LEADS) + "%implicit_tokens " + " ".join(imp) + nl + "%start S" + nl + "%%" + nl
        for r in rules:
            prods = []
            for _ in range(rng.randint(1, 3)):
                prods.append(" ".join(rng.choice(["'a'", "'b'", "'ws'", "'nl'"] + rules) for _ in range(rng.randint(0, 3))))
            src += r + rng.choice([":", " :", ":\n  "]) + " " + (rng.choice([" | ", "\n  | ", "\r\n | "])).join(prods) + rng.choice([" ;", ";", "\n;"]) + nl
        srcs.append(src)
    return srcs


def _dec(field):
    return bytes.fromhex(field[1:]).decode()


def source_lines(src):
    """line N of the source as the formatter prints it: split at '\\n', the CR of a CR LF dropped"""
    ps = src.split("\n")
    return [p[:-1] if (i < len(ps) - 1 and p.endswith("\r")) else p for i, p in enumerate(ps)]


def added_conflicts_part(ctx, exe, exe_dbg, mexe):
    rng = ctx.rng
    srcs = eco_sources(rng, ctx.n(120, 1500))
    lines = ["I " + s.encode().hex() for s in srcs]
    rel = core.run_lines([exe], lines)
    dbg = core.run_lines([exe_dbg], lines)
    # model queries: one X line (spans the grammar reports) per grammar + O lines per group of symbol spans
    xq, oq, plan = [], [], []
    for src, r in zip(srcs, rel):
        parts = r.split(" | ")
        if not parts[0].startswith("K "):
            plan.append(None)
            continue
        tb = src.encode()
        cps = " ".join(str(ord(ch)) for ch in src)
        confs, spans = [], []
        for q in parts[1:]:
            f = q.split()
            if f[0] == "RR":
                sp = [(int(f[2]), int(f[3])), (int(f[4]), int(f[5]))]
                if f[6] != "-":
                    sp.append((int(f[6]), int(f[7])))
                confs.append(("RR", f[1] == "1", sp, [], []))
                spans += sp
            elif f[0] == "SR":
                sp = [(int(f[4]), int(f[5])), (int(f[2]), int(f[3]))]          # printed: shifted token, then reduced rule
                nums = list(map(int, f[7:]))
                sy = list(zip(nums[0::2], nums[1::2]))
                groups = {}
                for s_ in sy:
                    groups.setdefault(tb[:s_[0]].count(b"\n"), []).append(s_)
                gl = []
                for k in sorted(groups):
                    gl.append(len(oq))
                    oq.append("O %s ; %s" % (cps, " ".join("%d %d" % s_ for s_ in groups[k])))
                confs.append(("SR", f[1] == "1", sp, gl, sy))
                spans += sp + sy
            else:
                confs.append((f[0], False, [], [], []))
        plan.append((len(xq), confs))
        xq.append("X %s ; %s" % (cps, " ".join("%d %d" % s_ for s_ in spans)))
    xres = core.run_lines([mexe], xq) if xq else []
    ores = core.run_lines([mexe], oq) if oq else []
    nbad = nadded = nrr = nconf = nhead_rule = 0
    hdr = re.compile(r" at f:(\d+):(\d+)$")
    row = re.compile(r"^(\d+)\| (.*)$", re.S)
    for src, line, a_rel, a_dbg, pl in zip(srcs, lines, rel, dbg, plan):
        if pl is None:
            if a_rel not in ("GRMERR", "TBLERR", "NOCONFLICT"):
                nbad += 1
                ctx.violation({"grammar": src, "yacckind": "Eco", "harness_says": a_rel[:300],
                               "replay_cmd": "echo '%s' | .work/target/release/c19" % line}, no_input=True)
            ctx.count("eco_" + a_rel.split()[0].lower())
            continue
        xi, confs = pl
        has_added = any(c[1] for c in confs)
        ctx.case(line, has_added and "\n" in src.strip(), {"grammar": src, "conflicts": [(c[0], c[1]) for c in confs]})
        ctx.count("eco_conflicted")
        nconf += len(confs)
        nadded += sum(1 for c in confs if c[1])
        nrr += sum(1 for c in confs if c[0] == "RR")
        # the model's answers
        U, F = {}, {}
        for part in xres[xi].split(" | ")[1:]:
            f = part.split()
            if f[0] == "U":
                U[(int(f[1]), int(f[2]))] = f[3]
            elif f[0] == "F":
                F[int(f[1])] = f[2]
        slines = source_lines(src)
        for prof, a in (("release", a_rel), ("debug", a_dbg)):
            base = {"grammar": src, "yacckind": "Eco", "profile": prof,
                    "conflicts(kind, names an added production)": [(c[0], c[1]) for c in confs],
                    "replay_cmd": "echo '%s' | .work/target/%s/c19" % (line, prof)}
            parts = a.split(" | ")
            kv = parts[0].split()[-1]
            if kv == "P":
                nbad += 1
                ctx.violation(dict(base, observed="SpannedDiagnosticFormatter::format_conflicts panicked",
                                   expected="a conflict report: pretty-printing never fails (the same Conflicts value is printed by Conflicts::pp)"))
                continue
            if "ACCESSORPANIC" in a:
                nbad += 1
                ctx.violation(dict(base, observed="a public span accessor of YaccGrammar panicked on a conflict's production/rule/token"), no_input=True)
                continue
            if prof == "debug" and a == a_rel:
                continue                                   # same text as the release build: already judged
            out = _dec(kv)
            paras = out.split("\n\n")
            problems = []
            if paras[-1] != "" or len(paras) - 1 != len(confs):
                problems.append("%d conflict paragraphs printed for %d conflicts" % (len(paras) - 1, len(confs)))
            for para, (kind, _added, sp, groups, sy) in zip(paras, confs):
                head, _, rest = (para + "\n").partition("\n")
                m = hdr.search(head)
                # which of the conflict's spans the header names is the formatter's choice (today: the name of the
                # (first) reduced rule); it must be the position of ONE of the spans the grammar reports for the conflict
                exp_pos = {F.get(s_[0]): s_ for s_ in reversed(sp + sy)}
                got = "%s:%s" % (m.group(1), m.group(2)) if m else None
                if got not in exp_pos:
                    problems.append({"header": head, "positions(line:col) of the spans the grammar reports for this conflict": sorted(k for k in exp_pos if k),
                                     "spans": sp + sy, "authority": "C19_file_location_spec"})
                elif exp_pos[got] == (sp[0] if kind == "RR" else sp[1]):
                    nhead_rule += 1
                blocks = [U.get(s_, "P") for s_ in sp] + [ores[g].split()[-1] for g in groups]
                pos = 0
                for bi, b in enumerate(blocks):
                    if b == "P":
                        problems.append({"model": "the mirror panics on a span the grammar reports", "block": bi})
                        break
                    bt = _dec(b) + ("" if bi < len(sp) else " ")
                    if not rest.startswith(bt, pos):
                        problems.append({"block": bi, "printed": rest[pos:pos + len(bt) + 20], "proved_rows": bt,
                                         "authority": "C19_underline_rows_spec" if bi < len(sp) else "C19_spans_on_line_spec"})
                        break
                    pos = rest.index("\n", pos + len(bt)) + 1 if "\n" in rest[pos + len(bt):] else len(rest)
                else:
                    if pos != len(rest):
                        problems.append({"extra_text_after_the_last_block": rest[pos:pos + 80]})
                # every numbered row is that line of the source
                for ol in para.split("\n"):
                    m2 = row.match(ol)
                    if m2:
                        n_ = int(m2.group(1))
                        if not (1 <= n_ <= len(slines)) or m2.group(2).rstrip("\r") != slines[n_ - 1].rstrip("\r"):
                            problems.append({"row": ol, "is_not_source_line": n_,
                                             "source_line": slines[n_ - 1] if 1 <= n_ <= len(slines) else None})
            if problems:
                nbad += 1
                ctx.violation(dict(base, format_conflicts=out, problems=problems[:6]))
    ctx.oblige(nbad == 0, "format_conflicts on conflicts naming added productions")
    ctx.coverage["eco_conflicts"] = nconf
    ctx.coverage["eco_conflicts_naming_an_added_production"] = nadded
    ctx.coverage["eco_reduce_reduce_conflicts"] = nrr
    ctx.coverage["eco_headers_at_the_reduced_rules_name_span"] = nhead_rule
    ctx.coverage["eco_rule"] = ("%d YaccKind::Eco grammars with %%implicit_tokens (the reported grammar first; %d templates in which an implicit "
                                "token is also used explicitly or starts the input — shift/reduce against the empty production of the added "
                                "rule `~` — some with reduce/reduce and shift/reduce conflicts of the grammar's own productions; random small "
                                "grammars; random separators incl. CRLF, comments with wide characters, text before the first declaration), "
                                "release and debug harness: no panic; header position = model file_location of one of the spans the grammar reports for the conflict; rows = model "
                                "rows of token_span / rule_name_span / symbol spans resp. prod_span; numbered rows are source lines. "
                                "A reduce/reduce conflict can never name an added production (`~` is always reduced before any other symbol "
                                "of a production is reached), so those are covered through the grammar's own productions in such grammars"
                                % (len(srcs), len(ECO_TEMPLATES)))
    # non-vacuity: the family must reach the repaired path
    reach = nadded >= ctx.n(100, 1000)
    ctx.oblige(reach, "family reaches conflicts that name added productions")
    if not reach:
        ctx.violation({"broken": "the Eco grammar family no longer produces conflicts that name added productions (%d found)" % nadded,
                       "note": "the repaired path of format_conflicts is not exercised any more"}, no_input=True)


# ---------------------------------------------------------------------------------------------------------------
# the precondition of the lexer-level queries: LRNonStreamingLexer::new(text, lexemes, cache) with a cache that
# was fed ANOTHER text (the example: nothing)
# ---------------------------------------------------------------------------------------------------------------

def unfed_part(ctx, exe, exe_dbg, mexe):
    """C19_lexer_line_col_unfed_panics / C19_lexer_line_col_total_on_fed_cache tied to the code: for every boundary span of
    the text, pp of a lexing error of that span and line_col, lexer built with the cache of (i) the text, (ii) nothing,
    (iii) texts of another byte length.  (i): answers = model = specified positions.  (ii), (iii): the model panics
    (the unwrap of the None of byte_to_line_num_and_col_num); the implementation must not print a WRONG position
    (accepted: the panic, or — should the library ever repair the cache itself — the positions of (i))."""
    import itertools
    rng = ctx.rng
    A = [97, 233, 10, 13]
    texts = [[50, 32, 43], []]
    for n in range(1, ctx.n(3, 4) + 1):
        texts += [list(t) for t in itertools.product(A, repeat=n)]
    for _ in range(ctx.n(150, 1500)):
        texts.append([rng.choice(A + [9824, 0x1F600, 10]) for _ in range(rng.randint(4, 12))])
    cases = []
    for t in texts:
        feds = [t, []]
        if t:
            feds += [t[:-1], t + [rng.choice(A)], t[:rng.randrange(len(t))], [rng.choice(A) for _ in range(rng.randint(1, 14))]]
        blen = lambda x: len("".join(map(chr, x)).encode())
        seen = []
        for f in feds:
            if f != t and blen(f) == blen(t):
                continue                # same length, other content: "nondeterministic results, including panics" (documented): not compared
            if f not in seen:
                seen.append(f)
                cases.append((t, f))
    def bpairs(t):
        b, off = [0], 0
        for cp in t:
            off += len(chr(cp).encode())
            b.append(off)
        return " ".join("%d %d" % (x, y) for i, x in enumerate(b) for y in b[i:])
    cp = lambda t: " ".join(map(str, t))
    hl = ["N %s ; %s" % (cp(t), cp(f)) for t, f in cases]
    rel = core.run_lines([exe], hl)
    dbg = core.run_lines([exe_dbg], hl)
    m0 = core.run_lines([mexe], ["P0 %s ; %s ; %s" % (cp(t), cp(f), bpairs(t)) for t, f in cases])
    m1 = core.run_lines([mexe], ["P1 %s ; %s ; %s" % (cp(t), cp(f), bpairs(t)) for t, f in cases])
    good = {}
    for (t, f), m in zip(cases, m0):
        if t == f:
            good[tuple(t)] = m
    nbad = nunfed = npanic = 0
    for (t, f), l, a_rel, a_dbg, mo0, mo1 in zip(cases, hl, rel, dbg, m0, m1):
        ctx.case(l, t != f and 10 in t, {"text": t, "cache_fed": f, "impl": a_rel[:120]})
        ctx.count("lexer_cache_%s" % ("fed_the_text" if t == f else "never_fed" if not f else "fed_another_length"))
        for prof, a, m in (("release", a_rel, mo0), ("debug", a_dbg, mo1)):
            if a == m:
                if t != f:
                    nunfed += 1
                    npanic += a.count(" P")
                continue
            data = {"text": t, "text_str": "".join(map(chr, t)), "cache_fed_with": f, "profile": prof, "impl": a[:600], "model": m[:600],
                    "how": "LRNonStreamingLexer::new(text, vec![Err(LRLexError::new(Span::new(s, e)))], cache); "
                           "LexParseError::LexError(..).pp(&lexer, ..) and lexer.line_col(Span::new(s, e)); per span: s e <pp line col> <line_col pairs>",
                    "replay_cmd": "echo '%s' | .work/target/%s/c19" % (l, prof)}
            if t == f:
                nbad += 1
                ctx.violation(dict(data, authority="C19_lexer_line_col_total_on_fed_cache (positions = C19_line_col_spec at the span's start and end)"))
            elif a == good.get(tuple(t)):
                # the library answered as if the cache had been fed the text: no wrong position, nothing to report
                ctx.count("lexer_cache_repaired_by_the_library")
            else:
                nbad += 1
                ea, eg = a.split(" | "), (good.get(tuple(t)) or "").split(" | ")
                wrong = [x for x, g in zip(ea, eg) if x != g and not x.endswith(" P")][:5]
                ctx.violation(dict(data, wrong_positions_printed_without_panic=wrong,
                                   authority="C19_lexer_line_col_unfed_panics: with a cache of another byte length every position query is the "
                                             "unwrap of a None; the implementation printed positions that are not those of the text"),
                              no_input=not wrong)
    ctx.oblige(nbad == 0, "lexer-level positions under the fed / unfed cache")
    ctx.coverage["lexer_cache_cases"] = len(cases)
    ctx.coverage["lexer_cache_unfed_cases_agreeing_with_the_model"] = nunfed
    ctx.coverage["lexer_cache_unfed_panics_observed"] = npanic
    ctx.coverage["lexer_cache_rule"] = ("every text over {a,é,\\n,\\r} up to length %d + random longer ones x cache fed {the text, nothing, the text minus its last "
                                        "character, plus one character, a proper prefix, a random text} (same byte length with other content excluded: "
                                        "documented as nondeterministic) x every boundary span: pp of a lexing error + line_col, release and debug harness, "
                                        "against lexer_case of the extracted model (FedModel.v)" % ctx.n(3, 4))

# ---------------------------------------------------------------------------------------------------------------
# (b) the in-tree example programs
# ---------------------------------------------------------------------------------------------------------------

# char::is_whitespace (Unicode White_Space)
RUST_WS = set([9, 10, 11, 12, 13, 32, 0x85, 0xA0, 0x1680, 0x2028, 0x2029, 0x202F, 0x205F, 0x3000]) | set(range(0x2000, 0x200B))


def _calc_lex(text, ws, unmatched):
    """tokens (kind, byte start, byte end) of one stdin line for the calc examples; a character no rule matches is
    ('U', ..) when the lexer has an UNMATCHED rule, else the first such character is a lexing error ('LEXERR', ..)"""
    toks, off, i = [], 0, 0
    while i < len(text):
        ch = text[i]
        n = len(ch.encode())
        if ws(ch):
            pass
        elif ch in "+*()":
            toks.append((ch, off, off + 1))
        elif ch in "0123456789":
            j = i
            while j < len(text) and text[j] in "0123456789":
                j += 1
            toks.append(("INT", off, off + (j - i)))
            off += j - i
            i = j
            continue
        elif unmatched:
            toks.append(("U", off, off + n))
        else:
            return toks, ("LEXERR", off, off)
        off += n
        i += 1
    return toks, None


def _calc_first_error(toks):
    """byte span start of the first lexeme the LR parser cannot accept (correct-prefix property: the first lexeme
    after which the input read so far is not a prefix of any sentence of Expr: Expr '+' Term | Term; Term: Term '*'
    Factor | Factor; Factor: '(' Expr ')' | 'INT'), None for a sentence; at the end of the input the erroneous
    lexeme is the end-of-input lexeme, which lrpar places at the end of the last lexeme"""
    operand, depth = True, 0
    for k, s, e in toks:
        if operand:
            if k == "INT":
                operand = False
            elif k == "(":
                depth += 1
            else:
                return s
        else:
            if k in ("+", "*"):
                operand = True
            elif k == ")" and depth > 0:
                depth -= 1
            else:
                return s
    if operand or depth > 0:
        return toks[-1][2] if toks else 0
    return None


_ascii_ws = lambda ch: ch in "\t\n "
EXAMPLES = {
    # package: (directory, lexer, first-error oracle, words for the generator, prints evaluation errors with a position)
    "calc_manual_lex": ("lrlex/examples/calc_manual_lex", lambda t: _calc_lex(t, lambda ch: ord(ch) in RUST_WS, True), _calc_first_error, "calc", True),
    "calc_ast": ("lrpar/examples/calc_ast", lambda t: _calc_lex(t, _ascii_ws, True), _calc_first_error, "calc", True),
    "calc_ast_arena": ("lrpar/examples/calc_ast_arena", lambda t: _calc_lex(t, _ascii_ws, True), _calc_first_error, "calc", True),
    "calc_actions": ("lrpar/examples/calc_actions", lambda t: _calc_lex(t, _ascii_ws, False), _calc_first_error, "calc", False),
    "calc_parsetree": ("lrpar/examples/calc_parsetree", lambda t: _calc_lex(t, _ascii_ws, False), _calc_first_error, "calc", False),
}
NOT_COVERED = {"calclex": "prints no positions",
               "clone_param": "its grammar action unwraps the INT lexeme ($1...unwrap()): whenever recovery inserts an INT (input `+`) the "
                              "example's OWN action code panics during the parse, before any position is printed — not a position defect",
               "start_states": "its grammar (Expr: Expr Text | ;) accepts every lexeme sequence and its lexer matches every character: no error can be reported"}


# programs whose OWN evaluator panics on some repaired parses (calc_parsetree: `parse::<u64>().unwrap()` on the empty text of
# an inserted INT, main.rs:86): run one stdin line per process so that the other lines are still judged
OWN_PANICS = {"calc_parsetree"}
PANIC_AT = re.compile(r"panicked at ([^\s:]+):(\d+)")


def own_code_panic(out):
    """the panic location lies in the example's own sources (src/main.rs, the generated parser's action code), not in the
    libraries: the program's own evaluator failed, after the positions of the line were printed"""
    m = PANIC_AT.search(out)
    return bool(m) and ("/examples/" in "/" + m.group(1) or "/out/" in m.group(1))


def examples_target():
    return os.path.join(core.SCRATCH, "target-examples") if core.SCRATCH else os.path.join(core.WORK, "target-examples")


def build_examples(pkgs, limit_s):
    """cargo build (dev profile: overflow checks on) of the example packages of /repo's workspace into a target
    directory of our own.  Returns (dict pkg -> exe, seconds, note); note is set when nothing could be built in time."""
    t0 = time.time()
    tgt = examples_target()
    cmd = ["cargo", "build", "--offline", "--locked"] + [x for p in pkgs for x in ("-p", p)]
    env = dict(os.environ, CARGO_TARGET_DIR=tgt, CARGO_NET_OFFLINE="true")
    env.pop("RUSTFLAGS", None)
    try:
        p = subprocess.run(cmd, cwd=core.REPO, env=env, stdout=subprocess.PIPE, stderr=subprocess.PIPE, text=True, timeout=limit_s)
    except subprocess.TimeoutExpired:
        return None, time.time() - t0, "NOTE: the build of the example programs did not finish within %d s (cold cache); example part skipped in this run" % limit_s
    if p.returncode != 0 and "--locked was passed" in p.stderr:
        return None, time.time() - t0, ("NOTE: %s/Cargo.lock is not up to date and the check does not write into the repository; "
                                        "example part skipped in this run" % core.REPO)
    if p.returncode != 0:
        raise core.GateFailure("example-build (%s)" % " ".join(pkgs), p.stderr[-4000:])
    return {k: os.path.join(tgt, "debug", k) for k in pkgs}, time.time() - t0, None


def _sep(rng, pkg):
    if pkg == "calc_manual_lex":
        return rng.choice(["", " ", " ", "  ", "\t", "\u00a0", "\u3000", " \r ", "\u2003"])
    return rng.choice(["", " ", " ", "  ", "\t", " \t"])


def example_lines(rng, pkg, kind, n_random, maxlen):
    """stdin lines (without terminator): every word sequence up to `maxlen` words (each once, random separators),
    plus random longer ones"""
    import itertools
    words = ["1", "23", "+", "*", "(", ")", "x", "é"]
    if pkg == "calc_manual_lex":
        words = words + ["♠"]
    seqs = []
    for n in range(1, maxlen + 1):
        seqs += [list(s) for s in itertools.product(words, repeat=n)]
    for _ in range(n_random):
        seqs.append([rng.choice(words) for _ in range(rng.randint(maxlen + 1, 9))])
    out = []
    for s in seqs:
        t = _sep(rng, pkg) if rng.random() < 0.3 else ""
        for i, w in enumerate(s):
            sep = _sep(rng, pkg)
            if i and sep == "" and w[0].isdigit() and s[i - 1][-1].isdigit():
                sep = " "
            t += (sep if i else "") + w
        t += _sep(rng, pkg) if rng.random() < 0.3 else ""
        out.append(t)
    return out


BIG = "18446744073709551615"
HUGE = "99999999999999999999999"


def eval_lines(rng, pkg):
    """well-formed inputs whose evaluation fails, with the byte offset at which the offending sub-expression starts"""
    out = []
    for _ in range(24):
        lead = "".join(_sep(rng, pkg) for _ in range(rng.randint(0, 2))).replace("\r", " ")
        a, b, c = _sep(rng, pkg) or " ", _sep(rng, pkg) or " ", _sep(rng, pkg)
        shape = rng.randint(0, 4)
        if shape == 0:
            t, at = lead + BIG + a + "+" + b + "1", len(lead.encode())
        elif shape == 1:
            pre = lead + "7" + a + "*" + b + "(" + c
            t, at = pre + BIG + a + "+" + b + "1" + c + ")", len(pre.encode())
        elif shape == 2:
            t, at = lead + HUGE, len(lead.encode())
        elif shape == 3:
            pre = lead + "3" + a + "+" + b
            t, at = pre + HUGE, len(pre.encode())
        else:
            pre = lead + "(" + c
            t, at = pre + BIG + a + "*" + b + "2" + c + ")" + a + "+" + b + "1", len(pre.encode())
        out.append((t, at))
    return [("18446744073709551615 + 1", 0)] + out


def _run_example(exe, stdin_text):
    try:
        p = subprocess.run([exe], input=stdin_text.encode(), stdout=subprocess.PIPE, stderr=subprocess.STDOUT, timeout=120,
                           env=dict(os.environ, RUST_BACKTRACE="0"))
    except subprocess.TimeoutExpired as e:
        return None, (e.stdout or b"").decode(errors="replace")
    return p.returncode, p.stdout.decode(errors="replace")


POS = re.compile(r"line (\d+) column (\d+)")


def examples_part(ctx, mexe, fut):
    rng = ctx.rng
    exes, secs, note = fut.result()
    ctx.coverage["examples_build_s"] = round(secs, 1)
    ctx.coverage["examples_not_covered"] = NOT_COVERED
    if note:
        ctx.coverage["examples_note"] = note
        print(note)
        return
    t0 = time.time()
    jobs = []                 # (pkg, [(line text, terminator)], {index: expected eval-error offset})
    for pkg, exe in exes.items():
        _dir, lex, first_error, kind, evalpos = EXAMPLES[pkg]
        quick_main = ctx.quick and pkg == "calc_manual_lex"
        ls = example_lines(rng, pkg, kind, ctx.n(150, 1500), ctx.n(3, 4))
        ls = ["2 +", "2 + 3", "(2 * 3", "2 ) 3 4"] + ls if kind == "calc" else ls
        rng.shuffle(ls)
        per = 1 if pkg in OWN_PANICS else 12
        for i in range(0, len(ls), per):
            chunk = ls[i:i + per]
            if rng.random() < 0.2:
                chunk.insert(rng.randrange(len(chunk) + 1), rng.choice(["", " ", "\t"]))      # blank stdin lines are skipped
            style = rng.choice(["lf", "lf", "crlf", "mixed"])
            terms = [("\n" if style == "lf" else "\r\n" if style == "crlf" else rng.choice(["\n", "\r\n"])) for _ in chunk]
            if rng.random() < 0.3 and chunk[-1] != "":
                terms[-1] = ""                                                               # last line without terminator
            jobs.append((pkg, list(zip(chunk, terms)), {}))
        if evalpos:
            ev = eval_lines(rng, pkg)
            terms = [rng.choice(["\n", "\r\n"]) for _ in ev]
            jobs.append((pkg, [(t, tm) for (t, _), tm in zip(ev, terms)], {i: at for i, (_, at) in enumerate(ev)}))
    with concurrent.futures.ThreadPoolExecutor(max_workers=core.NPROC) as ex:
        outs = list(ex.map(lambda j: _run_example(exes[j[0]], "".join(t + tm for t, tm in j[1])), jobs))
    # model: pp_position at every boundary of every distinct line (lexer with the cache of that line)
    texts = sorted({t for _, ch, _ in jobs for t, _ in ch if t.strip("".join(map(chr, RUST_WS)))})
    def bounds(t):
        b, off = [0], 0
        for ch in t:
            off += len(ch.encode())
            b.append(off)
        return b
    ml = ["P1 %s ; %s ; %s" % (" ".join(str(ord(ch)) for ch in t), " ".join(str(ord(ch)) for ch in t),
                               " ".join("%d %d" % (b, b) for b in bounds(t))) for t in texts]
    mres = core.run_lines([mexe], ml) if ml else []
    MP = {}
    for t, r in zip(texts, mres):
        d = {}
        for part in r.split(" | ")[1:]:
            f = part.split()
            d[int(f[0])] = (f[2], f[3]) if len(f) >= 4 else None
        MP[t] = d
    nbad = nlines = nfirst = nother = neval = nown = 0
    per_pkg = {}
    for (pkg, chunk, evals), (rc, out) in zip(jobs, outs):
        _dir, lex, first_error, kind, evalpos = EXAMPLES[pkg]
        stdin_text = "".join(t + tm for t, tm in chunk)
        base = {"example": pkg, "stdin": stdin_text, "source": os.path.join(core.REPO, _dir, "src/main.rs"),
                "exe": exes[pkg],
                "replay_cmd": "python3 -c \"import json,subprocess,sys; d=json.load(open(sys.argv[1])); "
                              "subprocess.run([d['exe']], input=d['stdin'].encode())\" <this file>   (build: cargo build --offline --locked -p %s "
                              "in the repository with CARGO_TARGET_DIR=%s)" % (pkg, examples_target())}
        ctx.case("EX " + pkg + " " + stdin_text, any(ord(c) > 127 for c in stdin_text) and "\r" in stdin_text,
                 {"example": pkg, "stdin": stdin_text, "output": out[:200]})
        ctx.count("example_" + pkg)
        own = "panicked at" in out and own_code_panic(out)
        if own:
            nown += 1
            out = out[:out.index("\nthread '")] if "\nthread '" in out else out[:out.index("panicked at")]
        if rc is None:
            nbad += 1
            ctx.violation(dict(base, observed="the example program did not finish within 120 s", output_tail=out[-600:]), no_input=True)
            continue
        if (rc != 0 or "panicked at" in out) and not own:
            nbad += 1
            m = re.search(r"panicked at [^\n]*\n[^\n]*", out)
            ctx.violation(dict(base, observed="the example program %s" % ("panicked" if "panicked at" in out else "ended with status %s" % rc),
                               panic=m.group(0) if m else None, output_tail=out[-600:],
                               expected="every error is reported with its line and column (C19_lexer_line_col_total_on_fed_cache); "
                                        "a lexer handed a never-fed NewlineCache panics on every position (C19_lexer_line_col_unfed_panics)"))
            continue
        segs = out.split(">>> ")
        # one prompt per stdin line + the one at end of input
        if own:
            chunk = chunk[:len(segs) - 1]          # the last line read is the one whose evaluation panicked; later lines were not read
            segs = segs + [""]
        if len(segs) != len(chunk) + 2 or segs[0] != "":
            nbad += 1
            ctx.violation(dict(base, observed="%d prompts for %d stdin lines" % (len(segs) - 1, len(chunk)), output=out[:1500]), no_input=True)
            continue
        for i, ((text, _tm), seg) in enumerate(zip(chunk, segs[1:])):
            nlines += 1
            per_pkg[pkg] = per_pkg.get(pkg, 0) + 1
            found = [(m.group(1), m.group(2)) for m in POS.finditer(seg)]
            if text not in MP:                      # blank line: skipped by the example
                if found:
                    nbad += 1
                    ctx.violation(dict(base, line=text, observed="a position is printed for a blank line: " + seg[:200]), no_input=True)
                continue
            mp = MP[text]
            toks, lexerr = lex(text)
            if i in evals:
                exp_first, what = evals[i], "evaluation error: start of the sub-expression that cannot be evaluated"
                neval += 1
            elif lexerr:
                exp_first, what = lexerr[1], "lexing error: the first character no lex rule matches"
            else:
                exp_first, what = first_error(toks), "parse error: start of the first lexeme that cannot continue a sentence (end of the last lexeme at end of input)"
            problems = []
            if exp_first is None:
                # a sentence: no parse error; an evaluation error may still be printed (not predicted here)
                if any("error at" in l and "Evaluation" not in l for l in seg.split("\n")):
                    problems.append({"printed": seg[:200], "expected": "no syntax error: the line is a sentence of the grammar"})
            else:
                nfirst += 1
                if not found:
                    problems.append({"printed": seg[:200], "expected_position": mp.get(exp_first), "what": what})
                elif found[0] != mp.get(exp_first):
                    problems.append({"printed_position": found[0], "expected_position": mp.get(exp_first), "byte_offset": exp_first,
                                     "what": what, "printed": seg[:200],
                                     "authority": "C19_lexer_line_col_total_on_fed_cache / C19_line_col_spec at that offset of the line"})
            allpos = set(v for v in mp.values() if v)
            for fp in found[1:] if exp_first is not None else found:
                nother += 1
                if fp not in allpos:
                    problems.append({"printed_position": fp, "is_the_position_of_no_boundary_of_the_line": text})
            if problems:
                nbad += 1
                if nbad <= 30:
                    ctx.violation(dict(base, line=text, line_code_points=[ord(c) for c in text], problems=problems[:4]))
    ctx.oblige(nbad == 0, "example programs report positions")
    ctx.coverage["example_lines"] = nlines
    ctx.coverage["example_lines_per_program"] = per_pkg
    ctx.coverage["example_first_error_positions_checked"] = nfirst
    ctx.coverage["example_evaluation_error_positions_checked"] = neval
    ctx.coverage["example_other_positions_checked"] = nother
    ctx.coverage["example_runs_ended_by_a_panic_in_the_examples_own_evaluator(positions printed before it are judged)"] = nown
    ctx.coverage["examples_run_s"] = round(time.time() - t0, 1)
    ctx.coverage["examples_rule"] = ("example programs %s built (dev profile) from the working tree of %s into %s; stdin = batches of 12 lines "
                                     "(every sequence of up to 3 (quick) words over numbers, operators, parentheses, unmatched ASCII / 2-byte / 3-byte "
                                     "characters, random separators incl. tabs, for the manual lexer also U+00A0, U+3000, U+2003 and a bare CR; "
                                     "random longer ones; blank lines; LF / CRLF / mixed terminators, last line with or without one) + well-formed "
                                     "inputs whose evaluation overflows or has an unrepresentable number; per line: first printed position = model "
                                     "pp_position at the first erroneous lexeme (viable-prefix recogniser of the example's grammar, end-of-input lexeme "
                                     "at the end of the last lexeme), other positions = position of some boundary of the line; no panic"
                                     % (", ".join(sorted(exes)), core.REPO, examples_target()))
    ctx.assumptions += ["example programs: BufRead::lines() strips one final LF or CR LF; each stdin line is lexed and parsed on its own (always line 1); "
                        "the first erroneous lexeme is computed by a hand-written recogniser of the example grammars (Expr/Term/Factor) "
                        "and lexers (calc_manual_lex: char::is_whitespace = Unicode White_Space; lrlex examples: [\\t\\n ]; a character no rule matches is a "
                        "lexing error reported before any parsing)"]
