"""C01 (construction, end to end) — lrtable::from_yacc against the composition of its two mirrors.

Proof (theories/C01/Pipeline*.v, exported from Properties/C01.v, C04.v, C16.v): `from_yacc_mirror` =
`pager_mirror` (C02: pager_stategraph + gc, key orders an oracle) followed by `table_mirror` (C03: StateTable::new,
iteration orders an oracle).  For EVERY grammar, oracle, StorageT bound: the table it returns passes validS and validE
(C01_construction_validated), hence every accepted input has a valid derivation tree (C01_construction_sound) — with
conflicts resolved by precedence or by default as well; when nothing is reported and precedence settled no cell the
table equals the automaton induced by the graph and passes validC/single_candidate (C01_construction_conflict_free),
hence every sentence is accepted with its tree (C01_construction_complete, C01_construction_noprec_complete); for LR(1)
grammars all of it holds unconditionally (C01_construction_lr1_correct); the construction fails only by a StorageT check
or Err(AcceptReduceConflict) (C01_construction_total).

Tie (this file): each of the two mirrors is tied to the code on its own (C02: loop replay; C03: cell comparison on
the implementation's item sets).  Here the COMPOSITION is run, for a sample of the generated grammars that contains
every grammar with a reported conflict or a precedence declaration: the extracted `from_yacc_mirror` replays the key
orders recorded by the cfg(grmtools_verif) hook in pager_stategraph, takes the implementation's token/production
precedences, and must return a table equal to the implementation's StateTable — every action cell and every goto
cell, the number of states and the numbers of reported shift/reduce and reduce/reduce conflicts (C02's tie compares
tables of conflict-free grammars only).  The validators are evaluated on the mirror's table: validS/validE must hold,
and validC must hold when nothing is reported and no precedence is declared.
"""
from vlib import core

CORR = ("from_yacc_mirror (pager_mirror ; table_mirror: validS/validE always, validC without conflicts) vs "
        "lrtable::from_yacc's (StateGraph, StateTable), replaying lrtable::verif_take_pager_trace")
THEOREMS = "C01_construction_validated / C01_construction_sound / C01_construction_conflict_free / C01_construction_complete"


def _cells(line):
    return sorted(x.strip() for x in line.split(" # ") if x.startswith("A ") or x.startswith("T "))


def _has_prec(r):
    return any(s and s[0] in ("TP", "PP") for s in r.secs)


class _Extra:
    """a grammar given by its source only (no generated inputs)"""
    def __init__(self, src):
        self.src, self.ok, self.conflicts, self.secs, self.inputs, self.impl_out, self.verdict = src, True, None, [], [], [], {}


def run_part(ctx, results, n_plain, extra_srcs=()):
    """results: list of vlib.lr.LRResult; extra_srcs: further grammar sources (expression grammars with
    %left/%right/%nonassoc declarations).  One obligation per sampled grammar."""
    from checks import c01_close
    exe = core.build_harness("c02")
    mexe = core.build_model("c01pipe")
    oks = [r for r in results if r.ok]
    special = [r for r in oks if r.conflicts is not None or _has_prec(r)]
    plain = [r for r in oks if not (r.conflicts is not None or _has_prec(r))]
    sample = special + plain[:n_plain] + [_Extra(x) for x in extra_srcs]
    lines = ["P O %s" % r.src.encode().hex() for r in sample]
    impl = core.run_lines([exe], lines)
    good = [(r, out) for r, out in zip(sample, impl) if out.startswith("G ")]
    model = core.run_lines([mexe], [o for _, o in good], timeout=2400) if good else []
    tot = {"grammars": 0, "with_reported_conflicts": 0, "with_precedence": 0, "resolved_silently": 0,
           "cells": 0, "tables_equal": 0, "validC_demanded": 0}
    for r, out in zip(sample, impl):
        if not out.startswith("G "):
            if isinstance(r, _Extra):
                ctx.count("pipeline_tie_extra_rejected")
                continue
            ctx.oblige(False)
            ctx.violation({"what": "the c02 harness (trace mode) did not answer for a grammar the lr harness built",
                           "grammar": r.src, "impl": out[:300], "broken_correspondence": CORR}, no_input=True)
    reported = 0
    for (r, out), mo in zip(good, model):
        bad = []
        tot["grammars"] += 1
        prec = " # TP " in out or " # PP " in out
        xs = [s.split() for s in out.split(" # ") if s.startswith("X ")]
        x = xs[0] if xs else ["X", "none"]
        isr, irr = (0, 0) if x[1] == "none" else (int(x[1]), int(x[2]))
        tot["with_reported_conflicts"] += (isr + irr > 0)
        tot["with_precedence"] += prec
        if not mo.startswith("FY "):
            bad.append({"what": "from_yacc_mirror did not return a table when replaying the implementation's trace (%s) although "
                                "the implementation built one — excluded by C01_construction_total unless the traces differ" % mo[:60]})
        else:
            head = mo.split(" # ")[0].split()
            kv = dict(t.split("=") for t in head[2:])
            n_i = [s.split() for s in out.split(" # ") if s.startswith("N ")]
            if not n_i or int(n_i[0][1]) != int(head[1]):
                bad.append({"what": "number of states: implementation %s, mirror %s" % (n_i[0][1] if n_i else "?", head[1])})
            ta, tb = _cells(out), _cells(mo)
            tot["cells"] += len(ta)
            if ta != tb:
                bad.append({"what": "the implementation's StateTable differs from the table of from_yacc_mirror (cells listed: "
                                    "symmetric difference, `A state token action` / `T state rule target`)",
                            "cells": sorted(set(ta) ^ set(tb))[:10], "conflicts_reported": [isr, irr], "precedence_declared": prec})
            else:
                tot["tables_equal"] += 1
            if (int(kv.get("sr", -1)), int(kv.get("rr", -1))) != (isr, irr):
                bad.append({"what": "reported conflicts differ: implementation sr=%d rr=%d, mirror sr=%s rr=%s"
                                    % (isr, irr, kv.get("sr"), kv.get("rr"))})
            if kv.get("S") != "1" or kv.get("E") != "1":
                bad.append({"what": "validS/validE reject the table of from_yacc_mirror (S=%s E=%s) — excluded by "
                                    "C01_construction_validated" % (kv.get("S"), kv.get("E"))})
            if isr + irr == 0 and kv.get("single") != "1":
                tot["resolved_silently"] += 1
            if isr + irr == 0 and (not prec or kv.get("single") == "1"):
                tot["validC_demanded"] += 1
                if kv.get("C") != "1":
                    bad.append({"what": "nothing reported and nothing settled by precedence, yet validC rejects the table of "
                                        "from_yacc_mirror (C=%s single=%s) — excluded by C01_construction_conflict_free"
                                        % (kv.get("C"), kv.get("single"))})
        ctx.oblige(not bad)
        if bad:
            fi = None if isinstance(r, _Extra) else c01_close._failing_input(r)
            for b in bad[:2]:
                reported += 1
                if reported > 6:
                    break
                v = dict(b, grammar=r.src, broken_correspondence=CORR, theorems=THEOREMS,
                         replay_cmd="echo 'P O <hex of grammar>' | .work/target/release/c02 | .work/ocaml/c01pipe/gvm_c01pipe")
                if fi:
                    v.update(fi)
                ctx.violation(v, no_input=fi is None)
    for k, v in tot.items():
        ctx.count("pipeline_tie_" + k, v)
    ctx.coverage["pipeline_tie"] = dict(tot, rule=(
        "sample = every generated grammar with a reported conflict or a precedence declaration + the first %d others + "
        "expression grammars with random %%left/%%right/%%nonassoc declarations; the "
        "extracted from_yacc_mirror replays the recorded key orders with the implementation's precedences and must return "
        "the implementation's StateTable cell by cell, the same number of states and of reported conflicts" % n_plain))
    return tot
