"""Registry of claimed checks (MANIFEST.json is generated from this by tools/mkmanifest.py)."""

HOOK_COMMITS = ["3b247a2", "c8d7b64", "ee663fa"]

_TB = ("Coq 8.16.1 kernel; no axioms (Print Assumptions: Closed under the global context); extraction via ExtrOcamlBasic only; "
       "the hand-written model is tied to /repo by the correspondence run (Rust harness + OCaml driver + Python comparison are trusted); ")

CHECKS = [
 {"id": "C19",
  "text": "Coq theorems over ALL texts, chunkings, offsets and spans: the mirror of NewlineCache returns exactly the declaratively "
          "specified line, column and line range and never panics; the mirror is tied to the code by running both on every text up to "
          "length 5 (7 thorough) over {a,é,♠,LF,CR} with random chunkings and on random longer texts, every offset and span. Error "
          "pretty-printing (SpannedDiagnosticFormatter: underline_span_with_text, file_location_msg, format_spanned, "
          "underline_spans_on_line_with_text) is mirrored too: C19_underline_rows_spec (the rows printed are exactly the lines of the span "
          "with their numbers, texts and underlines; no panic), refuted for the pinned code on CRLF / empty last line (repaired 358b143); "
          "tied in release and debug builds.",
  "design_ref": "DESIGN.md §5 C19",
  "note": _TB + "binary_search modelled by its documented contract on strictly increasing slices; UnicodeWidthStr::width is abstract in the theorems and restricted to characters of known width in the correspondence.",
  "technique": "Coq proof (mirror model = declarative spec, induction over character lists) + differential correspondence with extracted model"},
 {"id": "C01",
  "text": "Coq theorems for ANY grammar/automaton dump that passes the boolean validators and for ALL token sequences: an accepted input "
          "yields a valid derivation of exactly that input from the start rule (lr_sound), the parser's panic sites are unreachable "
          "(lr_never_panics), every sentence is accepted with its tree (lr_complete) and no non-sentence is (lr_rejects_nonsentences). "
          "Per generated grammar the implementation's own item sets, edges and table cells are validated, and the interpreter model is "
          "run against Parser::lr on the same tables. Construction: mirrors of Itemset::close and Itemset::goto are PROVED to compute the "
          "LR(1) closure / goto for every grammar, key order and fuel bound (close_mirror_sound/complete/terminates/order_insensitive, "
          "goto_mirror_spec) and are tied to the code on every state and edge. END TO END: from_yacc_mirror = mirror of pager_stategraph+gc "
          "(C02) ; StorageT assert ; mirror of StateTable::new (C03) is proved, for every grammar, hash-order oracle and bound, to return a "
          "table that always passes validS/validE (C01_construction_sound: every accepted input has a valid derivation tree, also with "
          "conflicts resolved by precedence/default; never_panics; rejects_nonsentences), that passes validC/single_candidate and accepts "
          "every sentence when no conflict is reported and no cell was settled by precedence (C01_construction_complete; conflicts() = None "
          "alone is refuted as a hypothesis by a %nonassoc witness), and that fails only by a StorageT check or AcceptReduceConflict "
          "(C01_construction_total). Tie of the composition: the extracted pipeline replays the implementation's pager trace with the "
          "implementation's precedences and must rebuild the identical StateTable (every cell, state count, conflict counts).",
  "design_ref": "DESIGN.md §5 C01, §5A",
  "note": _TB + "validators' inputs are dumps taken through public accessors; Earley/tree-validity oracles (Python) only search for failing inputs.",
  "technique": "Coq proof of a verified validator (LR soundness/completeness from per-grammar certificate) + interpreter/implementation differential"},
 {"id": "C02",
  "text": "Coq theorems for ALL grammars: Pager's theorem mechanised on the LR(1) model — the mirror of Itemset::weakly_compatible decides "
          "Pager's weak compatibility for every hash order (weakly_compatible_mirror_spec), weakly_merge is the exact union, continuations are "
          "linear in the contexts (closure_linear, goto_linear, la_origin), merging weakly compatible kernels with conflict-free canonical "
          "continuations creates no conflict (weak_merge_safe); for the MIRROR of pager_stategraph + gc and every key-order oracle the loop "
          "terminates, reaches no panic site, every closed state is the exact LR(1) closure of its core, edges are exactly the gotos, and the "
          "induced automaton passes validS/validE always and validC/single_candidate whenever the grammar is LR(1) "
          "(pager_construction_correct), hence agrees on ALL inputs with any validated automaton, the canonical one in particular "
          "(pager_parser_agrees, validated_automata_agree); lr1_check is a proved-sound certificate for LR(1)-ness. Tie per generated grammar: "
          "the weak-compat/merge hook vs mirror vs declarative spec on real and perturbed item sets; the extracted loop mirror replays the "
          "implementation's recorded key orders and must rebuild the identical StateGraph; induced table = StateTable cell by cell; validated "
          "canonical LR(1) automaton (extracted canon_lr1): no conflict reported, no more states, same outcome on all generated inputs. "
          "'Never more states than the canonical automaton' is observed per grammar only (no proof found).",
  "design_ref": "DESIGN.md §5 C02",
  "note": _TB + "canon_lr1 is unverified but its output is validated per grammar by the proved validators.",
  "technique": "Coq proof (Pager's theorem and correctness of a mirror of pager_stategraph for all grammars; agreement of validated automata) + replay of the implementation's run by the extracted mirror + validated canonical LR(1) reference differential"},
 {"id": "C04",
  "text": "Coq theorems for any validated dump of a productive grammar and ALL inputs: a Reject at lexeme k implies the first k lexemes are "
          "a prefix of a sentence (shifted_prefix_viable) and the first k+1 are not (first_error_not_viable). For the mirrored construction "
          "(C01's from_yacc_mirror) both hold for every grammar: C04_construction_shifted_prefix_viable always, "
          "C04_construction_first_error_not_viable when no conflict is reported and none settled by precedence. Tie as C01, plus error "
          "count, absent value and first error under CPCT+ against an Earley viable-prefix oracle on every generated input.",
  "design_ref": "DESIGN.md §5 C04, §5A",
  "note": _TB + "Earley oracle (Python) used for the failing-input search and the with-recovery clause.",
  "technique": "Coq proof of a verified validator (viable-prefix property) + interpreter/implementation differential"},
 {"id": "C09",
  "text": "Coq theorems about a literal mirror of the lexer's scan loop (parameterised by a match oracle for the regex crate), for ALL rule "
          "tables, start-state tables, oracles and inputs: termination within fuel and no panic, longest non-empty match among the active "
          "rules with the earliest rule on ties, contiguity/tiling up to the end or a single error, named rules emit / unnamed skip, the "
          "run-length-encoded start-state stack refines a plain stack (push/pop/replace, pop-to-empty resets to INITIAL), inclusive/exclusive "
          "activity, and set_rule_ids returns exactly the names missing on either side. The mirror is tied to the code by running it, with "
          "a match table computed independently with the regex crate, against LRNonStreamingLexerDef on generated specs x inputs.",
  "design_ref": "DESIGN.md §5 C09",
  "note": _TB + "regex semantics is the regex crate's (oracle, not modelled); start-state ids/exclusive flags are read from Debug output.",
  "technique": "Coq proof (mirror of the scan loop meets a declarative spec, induction over the input) + differential correspondence with a regex-crate match table"},
 {"id": "C11",
  "text": "Coq theorems about a function-by-function mirror of the lex-spec parser (LexParser, unescape, trim_end_unescaped, the header "
          "slicing of from_str) for ALL texts: the escape rewriting equals a declarative map_escapes, the parser is total (never panics, "
          "fuel |src|+2 suffices), an error result is non-empty, and every name/start-state span indexes the text the user wrote "
          "(spans_index_source; the pinned code is refuted by C11_spans_index_source_refuted / C11_target_span_refuted and was repaired). "
          "Tie: impl vs mirror transcripts on generated, mutated and truncated specs; an abstract-spec oracle (rules in order, names, "
          "start states, targets, span texts), regex equivalence through the regex crate on string batteries, flag probes. The whole-file "
          "round trip lex_from_str (print_spec layout spec) = spec_of spec is PROVED (C11_lex_roundtrip) and the formal printer's text is fed "
          "to the real parser on every run.",
  "design_ref": "DESIGN.md §5 C11, §A.3",
  "note": _TB + "the %grmtools header end position and regex compilability are inputs of the mirror (header parser: C12; regex crate: oracle).",
  "technique": "Coq proof on a mirror of the lex parser (escape rewriting = spec, totality, span indexing) + abstract-spec oracle + impl/mirror differential"},
 {"id": "C12",
  "text": "Coq theorems about a mirror of the %grmtools section parser for ALL strings: total with fuel 2|src|+4, never panics, a value or a "
          "non-empty error list, every span well-formed on char boundaries (the pinned code is refuted: C12_header_total_refuted, "
          "C12_header_orig_diverges, C12_header_orig_panics; repaired). Totality of the yacc and lex parsers: C12_yacc_parse_total "
          "(whole ASTWithValidityInfo::new mirror, fuel |src|+1, never Panic) and C12_lex_parse_total / C12_lex_errs_nonempty, proved about "
          "the C10/C11 mirrors which are tied to the code by transcript equality. Plus mass differential: ~32k (quick) near-valid strings per run through all three real "
          "parsers under catch_unwind and a watchdog, every error/warning span checked against is_char_boundary.",
  "design_ref": "DESIGN.md §5 C12, §5E",
  "note": _TB + "span well-formedness of yacc errors/warnings/AST spans and of lex errors is proved for the repaired code (C12_yacc_error_spans_wellformed, C12_lex_error_spans_wellformed; action-span ends and pre-fix lex spans refuted); the native stack is modelled as a frame budget: with the repaired parser (nesting limit 64) 65 frames always suffice (C12_header_depth_bounded); the pinned parser is refuted for every budget (C12_header_depth_unbounded_refuted).",
  "technique": "Coq proof (header, yacc and lex parser mirrors total; header spans well-formed) + impl/mirror differential + panic/hang/bad-span oracle on mutated specifications"},
 {"id": "C15",
  "text": "Coq permutation theorems on mirrors whose hash-iteration orders are explicit parameters: Eco implicit-token numbering (pinned code "
          "refuted and shown order-sensitive for every list of >= 2 tokens; repaired variant order-insensitive), avoid_insert bits, Pager gc "
          "(reachable set and renumbering independent of the pop schedule), one StateTable row (cells/gotos equal, conflict lists "
          "Permutation-equal; sorted = literally equal), and an abstract OnceLock (every thread observes f ()). Tie: the harness runs as 8 "
          "(16) separate processes per grammar and digests of every grammar/graph/table query and generated module bytes must coincide; "
          "8 threads first-use a OnceLock-guarded reconstitution.",
  "design_ref": "DESIGN.md §5 C15",
  "note": _TB + "hash seeds and thread interleavings are sampled on the implementation (quantified in the model); OnceLock model is an assumption about std.",
  "technique": "Coq proof (order-insensitivity by Permutation induction; schedule induction for OnceLock) + cross-process digest differential"},
 {"id": "C17",
  "text": "Coq theorems: the reference nullable/FIRST/FOLLOW/reachability analyses are exact for ALL grammars (iff with declarative "
          "definitions over sentential forms) and total; verified certificate checkers decide true minimum/maximum/unbounded sentence costs "
          "(C17_certified_costs_exact); MIRRORS of the implementation's own YaccFirsts::new / YaccFollows::new loops are proved exact and "
          "terminating for every well-formed grammar (firsts_mirror_exact, follows_mirror_exact, *_terminates; the pre-fix FOLLOW loop "
          "refuted) and tied bit for bit to the code; the mirrored PINNED min-cost iteration provably diverges on a productive derivation cycle (repaired in /repo 00106ef); the "
          "NEW cost algorithms are mirrored and proved exact for every grammar and cost function (C17_min_costs_fixed_exact, "
          "C17_max_costs_fixed_exact, C17_fixed_costs_terminate, panic exactly when a true finite cost >= 65535). Tie: the "
          "implementation's firsts/follows/has_path/min/max costs/min_sentence(s) are compared bit for bit with the proved-exact references "
          "and certified costs on generated grammars (Earley check of generated sentences).",
  "design_ref": "DESIGN.md §5 C17",
  "note": _TB + "cost search code is unverified, only its certificate checkers are; FOLLOW is strict/textbook-bracketed when rules are unreachable.",
  "technique": "Coq proof (reference analyses exact; verified cost certificates) + exact differential against the implementation"},
 {"id": "C18",
  "text": "Coq theorems by induction over ALL operation histories (edits, option changes, broken sources, builds) on a mirror of both "
          "builders' regeneration decisions: a successful build leaves exactly the outputs of a clean build, regenerated() iff the "
          "configuration changed since the last parser-successful build, an immediate rebuild is a no-op, which setting escapes the cache "
          "string (StorageT; refuted, repaired), a failed build leaves nothing stale (refuted for the pinned code, proved for the repaired "
          "variant). Tie: random and targeted histories replayed against the real CTLexerBuilder/CTParserBuilder, one process per build, "
          "explicit mtimes, each step compared with the mirror and with a clean build.",
  "design_ref": "DESIGN.md §5 C18",
  "note": _TB + "file contents are abstract descriptors in the model (bijection with bytes checked per run); mtimes are set by the harness.",
  "technique": "Coq proof (invariant over build histories on a mirror of the builders) + history replay differential against the real builders"},
 {"id": "C03",
  "text": "Coq theorems for ALL states, precedence assignments and BOTH hash iteration orders (as list parameters): the mirror of the "
          "StateTable::new fold yields in every cell the action of a declarative Yacc rule (earliest production among reductions; shift vs "
          "reduce by level then associativity, %nonassoc = error, shift when a side lacks precedence), reports exactly the default-resolved "
          "shift/reduce triples and k-1 well-formed reduce/reduce pairs per cell, accept/reduce = hard error; precedence levels follow "
          "declaration order, production precedence = %prec token else last token; the %expect rule (pinned code refuted, repaired). Tie: "
          "every cell and conflict list of every generated table vs the extracted spec on the implementation's own items/edges; TP/PP vs "
          "declarations; CTParserBuilder Ok/Err vs the %expect spec.",
  "design_ref": "DESIGN.md §5 C03",
  "note": _TB + "which k-1 reduce/reduce pairs are listed for k>2 candidates is only constrained (count, membership, losers), as the property leaves it open.",
  "technique": "Coq proof (mirror of table population = declarative cell spec for every iteration order) + exhaustive per-cell differential"},
 {"id": "C10",
  "text": "Coq theorems on two mirrors. (b) text->AST: character-level mirror of YaccParser + validation, total for ALL sources "
          "(yacc_parse_total), white space/comment skipping (refuted for the pinned code, proved for the repaired scanner), lexical round "
          "trips, action spans (refuted; repair blocked by a pinned test, known finding). (a) AST->grammar: build_faithful (exact shape of "
          "the indexed grammar for every well-formed AST), build_total, dense in-range indices for the repaired constructor (pinned code "
          "refuted). Tie: whole-transcript equality impl vs mirror on printed, mutated and truncated sources; print-then-parse oracle over "
          "abstract grammars x 7 layouts; every accessor on every valid index vs the mirror.",
  "design_ref": "DESIGN.md §5 C10",
  "note": _TB + "the whole-file round-trip law parse (print layout ag) = ast_of ag is PROVED (C10round_yacc_roundtrip) for all three dialects (Original, Grmtools "
          "with per-rule action types, Eco with %implicit_tokens), all 12 declaration kinds (%start %token %left/%right/%nonassoc %epp %avoid_insert "
          "%expect %expect-rr %actiontype %parse-param %parse-generics %expect-unused %implicit_tokens), the programs section, all layouts of "
          "blanks/newlines/comments and quoting styles; the Coq printer's text is what the check feeds the real parser. Outside the theorem: a "
          "%grmtools header in the text (C12's mirror), values starting with '/', token names containing both quote kinds.",
  "technique": "Coq proof on mirrors of the yacc parser and grammar builder (totality, faithfulness, ranges, lexical round trips) + print-then-parse oracle + transcript differential"},
 {"id": "C13",
  "text": "Coq theorems for the logic Coq can carry: the $-substitution scanner mirror meets its tokenisation spec for ALL action texts "
          "(never panics), the wrapper's argument unpacking = map over the production's symbols ($k denotes the k-th, Ok iff not faulty), "
          "flag regeneration = default filling. PIPELINE: the generated parser module is modelled as {format, encode g, encode t, recovery kind, "
          "entry point} whose parse() reconstitutes both constants (C14's codec) and calls the run-time parser, any function of the decoded "
          "values: C13_ct_equals_rt proves the generated parse() returns exactly the run-time call on the built objects for both formats and "
          "every width (ct_lexerdef_equals_rt for the generated lexerdef()); the facts about the generated TEXT this model assumes are checked "
          "statically on every generated module (data constants used only in the two _reconstitute arms with the arm's encoding, configured "
          "format and recoverer, entry point of the yacc kind, embedded bytes = serialisation of the run-time-built objects, one lex_flags). "
          "In addition the equivalence is decided by execution per generated program: generate, include!, compile once with rustc, run, and "
          "compare lexemes, values, errors and repair sets with the run-time pipeline and with the model's predictions.",
  "design_ref": "DESIGN.md §5 C13",
  "category": "proof",
  "note": _TB + "rustc, quote!/prettyplease and the generated text are outside the model: pipeline equivalence is translation validation by compile-and-run (partial).",
  "technique": "Coq proof (scanner/wrapper/flag models; compile-time pipeline = run-time pipeline over the verified codec) + static check of the generated module text + compile-and-run differential against the run-time pipeline"},
 {"id": "C14",
  "text": "Coq theorems: codec_roundtrip for ALL schemas/values/configurations (fixint and varint), decode soundness, canonicity (fixint; "
          "varint refuted as in wincode, minimal-preimage variant proved), and reconstitute never fails on the schemas GENERATED from the "
          "Rust sources on every run (translator tools/schema_of_rust.py; a skipped/retyped/lost field breaks schema_wf and the proof gate). "
          "Tie: the extracted decoder consumes the implementation's bytes completely and re-encodes them identically for every generated "
          "grammar x {fix,var} x {u8,u16,u32}; decoded fields equal API answers; every public query and parse on the reconstituted objects "
          "equals the originals.",
  "design_ref": "DESIGN.md §5 C14",
  "note": _TB + "the translator (regex reader of the derive'd structs and vendored crates) is trusted; strings are byte lists; wincode's layout was read off the vendored crate.",
  "technique": "Coq proof (codec round trip over a schema regenerated from the source) + byte-level and query-level differential"},
 {"id": "C16",
  "text": "Coq theorems: coherent_b is sound for the seven clauses of the statement (actions/shifts lists, targets = graph edges, "
          "core_reduces per (rule,length), reduce-only flag, reachability, closed = LR(1) closure of core), views computed from final "
          "cells are coherent for ANY cells, the mirror's state_actions = non-error cells plus %nonassoc-erased ones (refutation of the "
          "pinned code; repaired). For the mirrored construction (C01's from_yacc_mirror) coherence holds for EVERY grammar: "
          "C16_construction_coherent (all row clauses, every state reachable after gc: pager_mirror_all_reachable, every closed state the "
          "LR(1) closure of its core). Tie: coherent_b and an independent re-computation on every state/token/rule of every generated table.",
  "design_ref": "DESIGN.md §5 C16",
  "note": _TB + "reachability and closure clauses of coherent_b are proved sound only; completeness is covered by the independent Python re-computation.",
  "technique": "Coq proof (verified coherence validator + mirror of the view computation) + exhaustive per-state differential"},
 {"id": "C08",
  "text": "Coq theorems on a literal mirror of Parser::lr / lr_upto / apply_repairs with value and span stacks and an action log, for ANY "
          "validated table and ALL inputs: the log is the post-order of the returned tree, exactly one call per reduction with the "
          "production's rule, one argument per symbol in order (lexeme / child value) and the parameter; the actions-built tree equals the "
          "generic tree; the replay copy of the reduce code equals the main one; every call's span is the hull of the lexemes under its node, "
          "zero-length when there are none (proved for the repaired span computation, refuted by vm_compute for the pinned one; repaired), "
          "also with recovery for any replayed repair sequence. Tie: recording closures through parse_actions vs the mirror's log, plus an "
          "independent Python re-computation of post-order and hull spans from the implementation's own log and tree.",
  "design_ref": "DESIGN.md §5 C08",
  "note": _TB + "the CPCT+ search itself is not mirrored here: the mirror replays the repair sequence the implementation reports.",
  "technique": "Coq proof (refinement of the LR interpreter by a mirror with value/span stacks; post-order and hull invariants) + action-log differential"},
 {"id": "C20",
  "text": "Coq theorems on a mirror of the size bookkeeping with narrow w n = n mod 2^w: for the repaired guards, passing the guards implies "
          "no reported size or index wraps (guards_imply_no_wrap), observations are width-independent, and the grammar guards refuse nothing "
          "that fits (exactness); the pinned guards are refuted at the 2^w boundary classes (repaired); state-count guards and the lexer "
          "rule-id guard characterised exactly. Tie: generated grammars and lexers with counts at 2^8-6..2^8+1 (and 2^16) built with "
          "u8/u16/u32 in release and debug: refusal class, which guard refuses and every reported size vs the mirror, and transcripts "
          "(canonically renumbered) equal across accepting widths. TABLE/PARSE level: in C01's from_yacc_mirror a width is exactly the bound "
          "max_st plus the hash-order oracles; proved for all grammars: the narrow run is a StorageT refusal or EQUALS the wide run under the "
          "same oracles (construction_bound_only_refuses, refusal_is_storage_check, construction_sizes_fit) and, for LR(1) grammars or "
          "conflict-free reports, any two successful runs with arbitrary bounds and oracles give the same tree or first-error position on "
          "EVERY input (parse_results_width_independent); with resolved conflicts both are sound, equality remains differential.",
  "design_ref": "DESIGN.md §5 C20",
  "note": _TB + "equality of table contents and parse results across widths is carried by the differential run, not by a theorem (partial).",
  "technique": "Coq proof (modular-arithmetic model of the width guards; width independence of the mirrored table construction and of parse results) + boundary-configuration and merge-family differential across storage widths"},
 {"id": "C05",
  "text": "Coq theorems on the repair-sequence semantics (mirror of lr_upto/lr_cactus/apply_repairs over the LR interpreter) for ALL tables, "
          "inputs and oracles: a valid repair makes the plain parse of the REPAIRED token string succeed over the next N lexemes or to "
          "acceptance (valid_repair_plain_parse); after a sequence whose every step did what it says the driver behaves exactly as on the "
          "repaired input (continue_as_if_applied: same value shape, later errors, outcome); stripping trailing shifts keeps validity; "
          "Del/Ins commute; search moves are sound under reduce-confluence, and refuted without it (search_sound_refuted: the witness is a "
          "sequence the implementation reports). The property is decided per reported sequence: valid_repair is evaluated by the extracted "
          "model on EVERY sequence of every error, and the mirror driver replays the implementation's first sequences and must reproduce "
          "positions, states and the tree (faulty zero-length leaves for inserts).",
  "design_ref": "DESIGN.md §5 C05, §5B",
  "note": _TB + "the bucketed search (dijkstra, merging, ranking) is not mirrored; time budget raised through the guarded hook.",
  "technique": "Coq proof (repair semantics: validity implies plain continuation; replay equivalence) + per-sequence validity evaluation and driver replay differential"},
 {"id": "C07",
  "text": "Coq theorems on the mirror of the recovery driver loop for ALL tables/inputs/oracles of valid repairs: error positions are "
          "spaced by at least N lexemes and lie within the input (errors_spaced, errors_strictly_increase), their number is bounded by "
          "|input|/N + 1, the outer loop terminates within 2|input|+3 iterations given that each run of reductions ends, a value is "
          "returned iff every error is repaired, only the last error may lack repairs, a clean accept equals the plain LR accept. Tie: the "
          "inequalities evaluated on the implementation's (value, errors) for generated erroneous inputs; first error and clean accept "
          "cross-checked against the LR interpreter; watchdog for termination on acyclic grammars.",
  "design_ref": "DESIGN.md §5 C07",
  "note": _TB + "termination of runs of reductions (no epsilon-reduction cycle in the table) is a hypothesis; on conflict-resolved tables it fails (known findings).",
  "technique": "Coq proof (progress invariant of the recovery driver by induction over errors) + differential of error lists and outcomes"},
 {"id": "C06",
  "text": "Coq theorems on a verified REFERENCE: all_min_repairs enumerates (by iterative deepening on cost, pure sequence semantics, no "
          "arbitrary length bound since a success stops at N shifts: first_success_length) exactly the stripped minimum-cost successes that "
          "parse furthest (reference_complete / reference_none, enum_exact), Del/Ins commute (so the normal form loses no cheaper repair), "
          "the simplified output is NoDup, ends in no Shift, is sorted by (avoid_insert, length), never inserts EOF and has one cost "
          "(simplify_postconditions). An executable MIRROR of the bucketed search (dijkstra + merging + rank + simplify) exists and the "
          "pinned search is refuted against the reference (search_complete_refuted; repaired in /repo). SOUNDNESS of the search mirror is "
          "proved for all inputs (node_invariant, buckets_in_cost_order, first_success_is_minimal_among_explored, returned_same_cost, "
          "reported_are_successes, mirror_output_form; under reduce-confluence reported_valid and reported_cost_ge_reference); its "
          "COMPLETENESS and MINIMALITY are proved too, for minimum costs <= 65535 (dijkstra_complete: the Dijkstra invariant with node "
          "merging, for every table; reported_cost_minimal; search_complete_bounded / search_reports_exactly on reduce-confluent tables; "
          "validated_search_complete on validated tables; search_complete_needs_cost_bound: above 65535 the u16 search reports nothing, a "
          "known finding replayed on the implementation). Per generated error the "
          "implementation's list is compared with the reference set (missing / extra / over-priced sequence = witness) and the ordering, "
          "dedup, equal-cost, no-trailing-shift, no-EOF clauses are checked directly.",
  "design_ref": "DESIGN.md §5 C06, §5B",
  "note": _TB + "completeness/minimality theorems are about the search MIRROR (tied to the code by the correspondence run) and carry cmin <= 65535; the implementation's set is compared per generated error with the proved-exact reference; reference capped by enumeration size (skipped cases counted).",
  "technique": "Coq proof (verified exhaustive reference for minimum-cost repair sets) + set-equality differential with the implementation's repair lists"},
]

_PENDING = "check not built yet in this round (work in progress; see DESIGN.md §10 build order)"
NOT_APPLICABLE = [{"property_id": "C%02d" % i, "reason": _PENDING} for i in range(1, 21) if "C%02d" % i not in [c["id"] for c in CHECKS]]
