"""Registry of claimed checks (MANIFEST.json is generated from this by tools/mkmanifest.py)."""

HOOK_COMMITS = ["3b247a2", "c8d7b64", "ee663fa"]

_TB = ("Coq 8.16.1 kernel; no axioms (Print Assumptions: Closed under the global context); extraction via ExtrOcamlBasic only; "
       "the hand-written model is tied to /repo by the correspondence run (Rust harness + OCaml driver + Python comparison are trusted); ")

CHECKS = [
 {"id": "C19",
  "text": "Coq theorems over ALL texts, chunkings, offsets and spans: the mirror of NewlineCache returns exactly the declaratively "
          "specified line, column and line range and never panics; the mirror is tied to the code by running both on every text up to "
          "length 5 (7 thorough) over {a,é,♠,LF,CR} with random chunkings and on random longer texts, every offset and span. Error "
          "pretty-printing (SpannedDiagnosticFormatter: underline_span_with_text, file_location_msg, format_spanned, "
          "underline_spans_on_line_with_text) is mirrored too: C19_underline_rows_spec (the rows printed are exactly the lines of the span "
          "with their numbers, texts and underlines; no panic), refuted for the pinned code on CRLF / empty last line (repaired 358b143); "
          "tied in release and debug builds. "
          "Audit round: a cache that was not fed the lexer's text answers None at every offset, so LRNonStreamingLexer::line_col and the position "
          "LexParseError::pp prints panic for every span, and are total on a fed cache (C19_line_col_requires_fed_cache, C19_lexer_line_col_unfed_panics, "
          "C19_lexer_line_col_total_on_fed_cache; the in-tree manual-lexer example built such a lexer, repaired 1b943b2). Tie additionally: format_conflicts on Eco "
          "grammars whose conflicts name ADDED productions (out-of-bounds panic repaired cfcb52e; headers and rows vs the extracted file_location / underline rows), "
          "lexers handed a cache of {the text, nothing, another length} x every boundary span, and the in-tree example programs built from the working tree and fed "
          "erroneous stdin (first printed position = the model's).",
  "design_ref": "DESIGN.md §5 C19",
  "note": _TB + "binary_search modelled by its documented contract on strictly increasing slices; UnicodeWidthStr::width is abstract in the theorems and restricted to characters of known width in the correspondence. The example part builds /repo's example crates into .work/target-examples (cargo --offline --locked; skipped, never failed, when the build exceeds its limit) and uses a hand-written Python first-error oracle for the calc grammar.",
  "technique": "Coq proof (mirror model = declarative spec, induction over character lists) + differential correspondence with extracted model"},
 {"id": "C01",
  "text": "Coq theorems for ANY grammar/automaton dump that passes the boolean validators and for ALL token sequences: an accepted input "
          "yields a valid derivation of exactly that input from the start rule (lr_sound), the parser's panic sites are unreachable "
          "(lr_never_panics), every sentence is accepted with its tree (lr_complete) and no non-sentence is (lr_rejects_nonsentences). "
          "Per generated grammar the implementation's own item sets, edges and table cells are validated, and the interpreter model is "
          "run against Parser::lr on the same tables. Construction: mirrors of Itemset::close and Itemset::goto are PROVED to compute the "
          "LR(1) closure / goto for every grammar, key order and fuel bound (close_mirror_sound/complete/terminates/order_insensitive, "
          "goto_mirror_spec) and are tied to the code on every state and edge. END TO END: from_yacc_mirror = mirror of pager_stategraph+gc "
          "(C02) ; StorageT assert ; mirror of StateTable::new (C03) is proved, for every grammar, hash-order oracle and bound, to return a "
          "table that always passes validS/validE (C01_construction_sound: every accepted input has a valid derivation tree, also with "
          "conflicts resolved by precedence/default; never_panics; rejects_nonsentences), that passes validC/single_candidate and accepts "
          "every sentence when no conflict is reported and no cell was settled by precedence (C01_construction_complete; conflicts() = None "
          "alone is refuted as a hypothesis by a %nonassoc witness), and that fails only by a StorageT check or AcceptReduceConflict "
          "(C01_construction_total). Tie of the composition: the extracted pipeline replays the implementation's pager trace with the "
          "implementation's precedences and must rebuild the identical StateTable (every cell, state count, conflict counts).",
  "design_ref": "DESIGN.md §5 C01, §5A",
  "note": _TB + "validators' inputs are dumps taken through public accessors; Earley/tree-validity oracles (Python) only search for failing inputs.",
  "technique": "Coq proof of a verified validator (LR soundness/completeness from per-grammar certificate) + interpreter/implementation differential"},
 {"id": "C02",
  "text": "Coq theorems for ALL grammars: Pager's theorem mechanised on the LR(1) model — the mirror of Itemset::weakly_compatible decides "
          "Pager's weak compatibility for every hash order (weakly_compatible_mirror_spec), weakly_merge is the exact union, continuations are "
          "linear in the contexts (closure_linear, goto_linear, la_origin), merging weakly compatible kernels with conflict-free canonical "
          "continuations creates no conflict (weak_merge_safe); for the MIRROR of pager_stategraph + gc and every key-order oracle the loop "
          "terminates, reaches no panic site, every closed state is the exact LR(1) closure of its core, edges are exactly the gotos, and the "
          "induced automaton passes validS/validE always and validC/single_candidate whenever the grammar is LR(1) "
          "(pager_construction_correct), hence agrees on ALL inputs with any validated automaton, the canonical one in particular "
          "(pager_parser_agrees, validated_automata_agree); lr1_check is a proved-sound certificate for LR(1)-ness. Tie per generated grammar: "
          "the weak-compat/merge hook vs mirror vs declarative spec on real and perturbed item sets; the extracted loop mirror replays the "
          "implementation's recorded key orders and must rebuild the identical StateGraph; induced table = StateTable cell by cell; validated "
          "canonical LR(1) automaton (extracted canon_lr1): no conflict reported, no more states, same outcome on all generated inputs. "
          "'Never more states than the canonical automaton' is observed per grammar only (no proof found). "
          "Audit round: 'LR(1)' in these theorems (lr1_grammar) is stated over the closure relation that FOLLOWS THE CODE, which keeps items with an empty "
          "lookahead set; the property's textbook notion is now formalised too (lr1_textbook_grammar, certificate lr1_textbook_check with "
          "C02_lr1_textbook_check_sound), the code's notion implies it (C02_lr1_grammar_textbook) and the two coincide on PRODUCTIVE grammars "
          "(C02_lr1_notions_agree_productive), so every C02 theorem is about textbook LR(1) there; with an unproductive rule they differ and the "
          "construction costs a textbook-LR(1) grammar its determinism (C02_phantom_item_costs_determinism_refuted, C02_lr1_notions_differ_refuted, "
          "C02_phantom_needs_unproductive): known finding C02-phantom-item-unproductive-rule, reproduced in every run by a family of grammars with "
          "unproductive rules of empty FIRST judged by an independent textbook oracle over (production, dot, token) triples; the same failure on a "
          "productive grammar is a violation. "
          "Third session, last clause (never more states than the canonical automaton): C02_live_state_covers_canonical, C02_pager_run_complete, C02_pg_run_deterministic, C02_state_has_viable_path, C02_pager_states_le_canonical_partial (an injection states -> canonical states under the NAMED condition path_function), C02_pager_states_le_canonical_distinct_cores (a theorem for every graph without split cores; executable test distinct_coresb); the full statement pager_states_le_canonical_stmt is stated, unproved, and FALSE on grammars with unproductive rules (known finding C02-more-states-than-canonical-unproductive: 75 vs 72 states, reproduced in every run); per generated graph the check records which argument covers it (quick: 205 distinct cores, 45 path_function, 0 observed only); a construction panic on a generated grammar is a VIOLATION.",
  "design_ref": "DESIGN.md §5 C02",
  "note": _TB + "canon_lr1 is unverified but its output is validated per grammar by the proved validators; canon_lr1 and the validators' closure condition share the code's closure notion (items without lookahead), the textbook side is an independent Python oracle + the extracted canon_tb certified by lr1_textbook_check.",
  "technique": "Coq proof (Pager's theorem and correctness of a mirror of pager_stategraph for all grammars; agreement of validated automata) + replay of the implementation's run by the extracted mirror + validated canonical LR(1) reference differential"},
 {"id": "C04",
  "text": "Coq theorems for any validated dump of a productive grammar and ALL inputs: a Reject at lexeme k implies the first k lexemes are "
          "a prefix of a sentence (shifted_prefix_viable) and the first k+1 are not (first_error_not_viable). For the mirrored construction "
          "(C01's from_yacc_mirror) both hold for every grammar: C04_construction_shifted_prefix_viable always, "
          "C04_construction_first_error_not_viable when no conflict is reported and none settled by precedence. Tie as C01, plus error "
          "count, absent value and first error under CPCT+ against an Earley viable-prefix oracle on every generated input.",
  "design_ref": "DESIGN.md §5 C04, §5A",
  "note": _TB + "Earley oracle (Python) used for the failing-input search and the with-recovery clause.",
  "technique": "Coq proof of a verified validator (viable-prefix property) + interpreter/implementation differential"},
 {"id": "C09",
  "text": "Coq theorems about a literal mirror of the lexer's scan loop (parameterised by a match oracle for the regex crate), for ALL rule "
          "tables, start-state tables, oracles and inputs: termination within fuel and no panic, longest non-empty match among the active "
          "rules with the earliest rule on ties, contiguity/tiling up to the end or a single error, named rules emit / unnamed skip, the "
          "run-length-encoded start-state stack refines a plain stack (push/pop/replace, pop-to-empty resets to INITIAL), inclusive/exclusive "
          "activity, and set_rule_ids returns exactly the names missing on either side. The mirror is tied to the code by running it, with "
          "a match table computed independently with the regex crate, against LRNonStreamingLexerDef on generated specs x inputs. "
          "Audit round: the run depends on the match oracle only through the consulted cells (C09_lex_table_extensional); the harness now computes TWO tables - "
          "the anchored match on the remaining slice (what lexer.rs asks: ties the model to the code) and the match of the written regex at that offset of the "
          "WHOLE text (what the regex denotes) - and the lexer must equal the model run on the second. They differ exactly for look-behind assertions "
          "(^ under multi_line, \\A, \\b, \\B, ...): C09_lookbehind_tables_differ_refuted; known finding C09-lookbehind-slice, reproduced in every run; a table "
          "difference in a rule without such an assertion (decided on the regex-syntax HIR) is a violation.",
  "design_ref": "DESIGN.md §5 C09",
  "note": _TB + "regex semantics is the regex crate's (oracle, not modelled); start-state ids/exclusive flags are read from Debug output. The whole-text table trusts Regex::find_at + 'starts at i' as the anchored match at i; the harness depends on regex-syntax to read each rule's HIR.",
  "technique": "Coq proof (mirror of the scan loop meets a declarative spec, induction over the input) + differential correspondence with a regex-crate match table"},
 {"id": "C11",
  "text": "Coq theorems about a function-by-function mirror of the lex-spec parser (LexParser, unescape, trim_end_unescaped, the header "
          "slicing of from_str) for ALL texts: the escape rewriting equals a declarative map_escapes, the parser is total (never panics, "
          "fuel |src|+2 suffices), an error result is non-empty, and every name/start-state span indexes the text the user wrote "
          "(spans_index_source; the pinned code is refuted by C11_spans_index_source_refuted / C11_target_span_refuted and was repaired). "
          "Tie: impl vs mirror transcripts on generated, mutated and truncated specs; an abstract-spec oracle (rules in order, names, "
          "start states, targets, span texts), regex equivalence through the regex crate on string batteries, flag probes. The whole-file "
          "round trip lex_from_str (print_spec layout spec) = spec_of spec is PROVED (C11_lex_roundtrip) and the formal printer's text is fed "
          "to the real parser on every run. "
          "Audit round (five repairs, 1205854 20c9d3b 326ccca c002878 0905507): the escape table equals the declarative list of escapes the regex engine gives a "
          "meaning (C11_esc_table_spec; \\B and braced \\x{..} \\u{..} \\U{..}: C11_esc_table_orig_refuted), a rule's regex is trimmed of spaces and tabs only "
          "(C11_trim_end_unescaped_spec, C11_trim_orig_refuted), the names of a %s/%x declaration are the maximal runs of non-white-space (C11_declared_names_spec, "
          "C11_decl_blanks_refuted); totality and non-empty errors hold for all 2^8 combinations of repairs; the round trip covers several blanks between state names "
          "and regexes ending in FF/NEL/LRM/RLM. Not mirrored, decided by direct clauses: numeric flags >= 2^32 are in force as written or refused with one located "
          "Header error; a regex with unbalanced parentheses is exactly one RegexError; ANCH: every emitted lexeme is matched by its rule's regex, compiled on its "
          "own, at offset 0 of the remaining input. "
          "Second audit round (a1aadcd, ff0cd55 + 0ffd98f): only the OCTAL digits stay escaped - \\8 and \\9 are escapes neither of lex nor of the regex crate and "
          "stand for the digit (C11_esc_table_digit_refuted, C11_lex_esc_digit_refuted, C11_nonoctal_digit_plain: for c = 8, 9, every flag setting and every "
          "following text the image of \\c is c); the mirror has nine selectable repairs, totality and non-empty errors hold for all 2^9 combinations. Not mirrored, "
          "decided by a direct clause: the nest limit in force is the one given, on the written regex - a rule is accepted iff the regex crate on its own builds the "
          "written regex under the limit given (29 regexes x nest_limit 0..5 x three routes, and no limit x depths 5..300; before the repairs the limit in force was "
          "two less: the \\A(?:..) wrapper is a concatenation AND a group; the first repair was one short and the check's grid found it). "
          "Third session: family limits_in_force — size_limit / dfa_size_limit must be in force on the RegexBuilder limit of their own name (reference = the same wrapped regex compiled with exactly the given limits: builds iff, same CompiledTooBig payload, same lexemes).",
  "design_ref": "DESIGN.md §5 C11, §A.3",
  "note": _TB + "the %grmtools header end position and regex compilability are inputs of the mirror (header parser: C12; regex crate: oracle). Numeric limits are observed through the public LexFlags::try_from on the parsed section; for the nest limit the reference is the regex crate itself (RegexBuilder::new(written).nest_limit(n), i.e. regex-syntax's notion of nesting depth: groups, classes, repetitions, alternations and concatenations count one level each); ANCH trusts the regex crate's leftmost-first search; look-behind across lexemes is C09's known finding; alternation inside one rule is the regex crate's leftmost-first choice (observation, recorded per run).",
  "technique": "Coq proof on a mirror of the lex parser (escape rewriting = spec, totality, span indexing) + abstract-spec oracle + impl/mirror differential"},
 {"id": "C12",
  "text": "Coq theorems about a mirror of the %grmtools section parser for ALL strings: total with fuel 2|src|+4, never panics, a value or a "
          "non-empty error list, every span well-formed on char boundaries (the pinned code is refuted: C12_header_total_refuted, "
          "C12_header_orig_diverges, C12_header_orig_panics; repaired). Totality of the yacc and lex parsers: C12_yacc_parse_total "
          "(whole ASTWithValidityInfo::new mirror, fuel |src|+1, never Panic) and C12_lex_parse_total / C12_lex_errs_nonempty, proved about "
          "the C10/C11 mirrors which are tied to the code by transcript equality. Plus mass differential: ~32k (quick) near-valid strings per run through all three real "
          "parsers under catch_unwind and a watchdog, every error/warning span checked against is_char_boundary. "
          "Audit round, clause 'so it can always be rendered': YaccKind::try_from / SerialisationFormat::try_from are mirrored (Ok exactly on the documented forms: "
          "C12_yacckind_conv_ok_iff; otherwise the error carries exactly the faulty components, 1..4 well-formed spans: C12_yacckind_conv_err_spans, "
          "C12_conv_error_spans_wellformed); the renderer's label dispatch is total for any number of spans (C12_span_labels_total; before 87315cb it panicked iff "
          "SpansKind::Error and >= 2 spans: C12_span_labels_orig_panics_iff, C12_render_invalid_entry_refuted). Tie: EVERY error and warning returned on every "
          "generated text and every value conversion of a parsed section is rendered with SpannedDiagnosticFormatter under catch_unwind (no panic, non-empty, right "
          "first line number); conversions = extracted mirror on every entry (~22 000 per quick run); multi-span errors are an obligation of every run. "
          "Second audit round, white space before a constructor argument (/repo fdd053a, mirror flag fixed_ctor_ws): C12_header_ctor_ws_refuted (pinned: "
          "`Original( NoAction)` is IllegalName; repaired: the value of `Original(NoAction)`), C12_header_layout_insensitive_ctor (repaired: the same value for "
          "EVERY run of white space after the '('), C12_header_layout_sensitive_ctor_pinned; a fixed family of 440 sections in every run: implementation = mirror, "
          "value = value of the section without that white space. "
          "Third session: cfgrammar::markmap::MarkMap (what Header<T> is) mirrored function by function with explicit panics; C12_markmap_sorted_inv / _reachable_sorted / _never_panics over every operation sequence incl. the Entry API and merges; refinement to the abstract map (C12_markmap_insert/mark/get/remove_spec), merge_from per behaviour (C12_markmap_merge_spec, C12_merge_point_table, C12_merge_conflict_iff), unused/missing/keys exact; witnesses C12_merge_not_atomic, C12_merge_theirs_erases_value, C12_markmap_iter_complete_refuted (latent API defects, unreachable from the builders: C13_settings_never_use_theirs). Tie: 1 500 / 30 000 operation sequences on the real MarkMap<String,u32> vs the compiled model (vm_compute), transcripts equal.",
  "design_ref": "DESIGN.md §5 C12, §5E",
  "note": _TB + "span well-formedness of yacc errors/warnings/AST spans and of lex errors is proved for the repaired code (C12_yacc_error_spans_wellformed, C12_lex_error_spans_wellformed; action-span ends and pre-fix lex spans refuted); the native stack is modelled as a frame budget: with the repaired parser (nesting limit 64) 65 frames always suffice (C12_header_depth_bounded); the pinned parser is refuted for every budget (C12_header_depth_unbounded_refuted). SpannedDiagnosticFormatter is executed, not mirrored, in C12 (its row printer is C19's mirror; C12_format_spanned_any_number_of_spans re-exports C19's theorem).",
  "technique": "Coq proof (header, yacc and lex parser mirrors total; header spans well-formed) + impl/mirror differential + panic/hang/bad-span oracle on mutated specifications"},
 {"id": "C15",
  "text": "Coq permutation theorems on mirrors whose hash-iteration orders are explicit parameters: Eco implicit-token numbering (pinned code "
          "refuted and shown order-sensitive for every list of >= 2 tokens; repaired variant order-insensitive), avoid_insert bits, Pager gc "
          "(reachable set and renumbering independent of the pop schedule), one StateTable row (cells/gotos equal, conflict lists "
          "Permutation-equal; sorted = literally equal), and an abstract OnceLock (every thread observes f ()). Tie: the harness runs as 8 "
          "(16) separate processes per grammar and digests of every grammar/graph/table query and generated module bytes must coincide; "
          "8 threads first-use a OnceLock-guarded reconstitution. "
          "Audit round. Failing builds: sources with 2-6 independent faults of one kind, sources with several warnings, lexer sources and the error strings / stderr "
          "of the compile-time builders give the same complete transcript in 16 processes (conflict diagnostics and missing-token lists as multisets); the %epp loop "
          "is mirrored (C15_validate_epp_order_insensitive; pinned loop refuted and proved order-sensitive whenever two names are unknown; repaired 3e32e4e). CPCT+ "
          "results incl. the ordered repairs() list - inputs with several first-rank repairs included (repaired ca69cd1) - are part of the cross-process digest and of "
          "the 8-thread comparison. Every iteration over a randomly seeded container on the build path is listed from the source on each run with an audited "
          "verdict; a new one alarms.",
  "design_ref": "DESIGN.md §5 C15",
  "note": _TB + "hash seeds and thread interleavings are sampled on the implementation (quantified in the model); OnceLock model is an assumption about std. The table of hash-iteration sites comes from a textual scan (receivers recognised by name, one level of aliasing); CPCT+ results are compared only where the wall clock cannot decide them and only on conflict-free tables without precedence.",
  "technique": "Coq proof (order-insensitivity by Permutation induction; schedule induction for OnceLock) + cross-process digest differential"},
 {"id": "C17",
  "text": "Coq theorems: the reference nullable/FIRST/FOLLOW/reachability analyses are exact for ALL grammars (iff with declarative "
          "definitions over sentential forms) and total; verified certificate checkers decide true minimum/maximum/unbounded sentence costs "
          "(C17_certified_costs_exact); MIRRORS of the implementation's own YaccFirsts::new / YaccFollows::new loops are proved exact and "
          "terminating for every well-formed grammar (firsts_mirror_exact, follows_mirror_exact, *_terminates; the pre-fix FOLLOW loop "
          "refuted) and tied bit for bit to the code; the mirrored PINNED min-cost iteration provably diverges on a productive derivation cycle (repaired in /repo 00106ef); the "
          "NEW cost algorithms are mirrored and proved exact for every grammar and cost function (C17_min_costs_fixed_exact, "
          "C17_max_costs_fixed_exact, C17_fixed_costs_terminate, panic exactly when a true finite cost >= 65535). Tie: the "
          "implementation's firsts/follows/has_path/min/max costs/min_sentence(s) are compared bit for bit with the proved-exact references "
          "and certified costs on generated grammars (Earley check of generated sentences). "
          "Audit round, the public queries one by one: for every grammar, cost function and rule the mirrored query answers the true cost or panics, and it panics "
          "iff the rule's OWN cost or ANOTHER rule's true finite cost is >= 65535 (C17_cost_query_exact_or_foreign_overflow, "
          "C17_cost_query_panics_only_if_own_or_foreign; the second disjunct is known finding C17-overflow-unrelated-rule: C17_cost_panic_unrelated_rule_refuted). "
          "Native stack of min_sentences as a frame budget: rules_len() frames always suffice and the bound is attained (C17_min_sentences_depth_le_rules, "
          "_bound_tight, _chain_threshold); for every budget a chain grammar exhausts it (C17_min_sentences_depth_unbounded_refuted: known finding "
          "C17-min_sentences-recursion-depth). Tie: every query of every rule asked on its own on an overflow family, each panic classified against the certified "
          "costs; min_sentences on chains of 501..12001 rules in processes of their own on 2 MiB stacks; min_sentences = its extracted mirror, list in order. Third known finding (second audit): min_sentences enumerates every simple path of a unit-production clique (C17_min_sentences_clique_copies on the mirror, m = 2..7; the implementation's lists equal the mirror's and the copy counts grow factorially: deterministic detector, no timing).",
  "design_ref": "DESIGN.md §5 C17",
  "note": _TB + "cost search code is unverified, only its certificate checkers are; FOLLOW is strict/textbook-bracketed when rules are unreachable. FIRST is over sentential forms (textbook reading); the frame-budget model is tied only through abort / answer at the measured depths; no complexity clause (min_sentence is exponential on a doubling chain).",
  "technique": "Coq proof (reference analyses exact; verified cost certificates) + exact differential against the implementation"},
 {"id": "C18",
  "text": "Coq theorems by induction over ALL operation histories (edits, option changes, broken sources, builds) on a mirror of both "
          "builders' regeneration decisions: a successful build leaves exactly the outputs of a clean build, regenerated() iff the "
          "configuration changed since the last parser-successful build, an immediate rebuild is a no-op, which settings escape the cache "
          "string (StorageT, then LexemeT; each refuted and repaired - 9933a08 - and now C18_cache_records_all_generated_inputs: two settings generate "
          "the same parser file from a grammar text IFF they give the same cache string; C18_type_params_recorded_cache_injective discharges the "
          "hypothesis cache_injective for the builders as they are), a failed build leaves nothing stale (refuted for the pinned code, proved for the "
          "repaired variant). The lexer builder's test_files inspector is an abstract verdict: the main theorem holds for histories in which it accepts "
          "at every build (C18_incremental_equals_clean_inspector), is refuted otherwise (known finding C18-testfiles-cached: the check is skipped when "
          "the parser output is cached), and every deviation from the clean build is exactly 'parser stage not regenerated and inspector rejects' "
          "(C18_incremental_differs_only_by_skipped_inspector, C18_failed_build_no_stale_or_skipped_inspector). Tie: random and targeted histories replayed against the real CTLexerBuilder/CTParserBuilder, one process per build, "
          "explicit mtimes, each step compared with the mirror and with a clean build. "
          "Plus a static part on the source text of rebuild_cache (every type_name argument and every builder field flows into the cache string or is one of the "
          "six documented-as-ignored fields), the parser builder's type parameter as an option of the histories, and test_files histories. "
          "Second audit round, manual-lexer flow (CTParserBuilder::build ; CTTokenMapBuilder::build, /repo 746e223): after any history a build whose parser stage "
          "succeeds leaves $OUT_DIR/<mod>.rs as a clean build does, absent if the token map build fails (C18_tokmap_incremental_equals_clean; "
          "C18_tokmap_build_is_function_of_inputs; pinned variant refuted: C18_tokmap_failed_build_leaves_stale_refuted); identical content is not rewritten, and only "
          "then (C18_tokmap_written_iff_changed, C18_tokmap_rebuild_is_noop); scope: a failing PARSER build ends the script before the token map builder runs and "
          "keeps the other builder's module (C18_manual_flow_parser_failure_keeps_tokmap). Tie: manual-flow histories, one process per build with OUT_DIR in its "
          "environment, every module file vs the mirror and vs a build into an empty OUT_DIR, plus a panic probe.",
  "design_ref": "DESIGN.md §5 C18",
  "note": _TB + "file contents are abstract descriptors in the model (bijection with bytes checked per run); mtimes are set by the harness. The static cache-coverage part is a hand-written reader of Rust source text (syntactic over-approximation of 'is recorded'); the inspector's verdict is abstract in Coq and instantiated by a hand-made table checked against every clean build; replacing a source by a file with an OLDER mtime is outside the operation set. Manual flow: 'is an identifier after renaming' (renamed) is abstract in Coq and instantiated by Python's str.isidentifier on T_ + the upper-cased name (agreement with the real builder checked on every build); write errors of the token map builder are not generated.",
  "technique": "Coq proof (invariant over build histories on a mirror of the builders) + history replay differential against the real builders"},
 {"id": "C03",
  "text": "Coq theorems for ALL states, precedence assignments and BOTH hash iteration orders (as list parameters): the mirror of the "
          "StateTable::new fold yields in every cell the action of a declarative Yacc rule (earliest production among reductions; shift vs "
          "reduce by level then associativity, %nonassoc = error, shift when a side lacks precedence), reports exactly the default-resolved "
          "shift/reduce triples and k-1 well-formed reduce/reduce pairs per cell, accept/reduce = hard error; precedence levels follow "
          "declaration order, production precedence = %prec token else last token; the %expect rule (pinned code refuted, repaired). Tie: "
          "every cell and conflict list of every generated table vs the extracted spec on the implementation's own items/edges; TP/PP vs "
          "declarations; CTParserBuilder Ok/Err vs the %expect spec. "
          "Audit round, three-way cells (a shift and >= 2 reductions on one token): byacc's remove_conflicts and bison's set_conflicts are executable definitions "
          "(cell_yacc, cell_bison); outside three-way cells they coincide with each other and with the cell spec (C03_yacc_agrees_outside_three_way, "
          "C03_cell_bison_eq_yacc_outside_three_way, C03_yacc_disagreement_is_three_way); on concrete three-way cells the mirror of StateTable::new differs from "
          "Yacc for EVERY iteration order (C03_three_way_left_refuted, _nonassoc_refuted, _report_refuted: known finding C03-three-way-cell); byacc and bison differ "
          "from each other on some (C03_bison_yacc_differ). Tie: every cell and conflict list vs cell_yacc (either Yacc accepted where they differ); "
          "CTParserBuilder Ok/Err vs the counts of the Yacc reports. "
          "Second audit round (/repo 4ff022d: a token named only by %prec was reported unused, so the default build of the textbook unary-minus grammar failed "
          "without any conflict): the warnings OWED by a grammar (unreachable rules; tokens no reachable production uses as a symbol or names by %prec - the notion "
          "proved about the parser mirror in C10_prec_token_is_used) are computed independently of the implementation; warnings_are_errors(true) is combined with "
          "exactly the grammars that owe none (before: those for which the implementation reported none - a spurious warning excused itself), the implementation's "
          "warning count is compared with the owed number on every case, and grammars with precedence pseudo-tokens are built with CTParserBuilder's DEFAULT "
          "options for each %expect variant: Err iff the counts differ.",
  "design_ref": "DESIGN.md §5 C03",
  "note": _TB + "which k-1 reduce/reduce pairs are listed for k>2 candidates is only constrained (count, membership, losers), as the property leaves it open. The byacc model is corroborated informationally by ocamlyacc's conflict totals; the bison model is read off the source and only used to accept more.",
  "technique": "Coq proof (mirror of table population = declarative cell spec for every iteration order) + exhaustive per-cell differential"},
 {"id": "C10",
  "text": "Coq theorems on two mirrors. (b) text->AST: character-level mirror of YaccParser + validation, total for ALL sources "
          "(yacc_parse_total), white space/comment skipping (refuted for the pinned code, proved for the repaired scanner), lexical round "
          "trips, action spans (refuted; repair blocked by a pinned test, known finding). (a) AST->grammar: build_faithful (exact shape of "
          "the indexed grammar for every well-formed AST), build_total, dense in-range indices for the repaired constructor (pinned code "
          "refuted). Tie: whole-transcript equality impl vs mirror on printed, mutated and truncated sources; print-then-parse oracle over "
          "abstract grammars x 7 layouts; every accessor on every valid index vs the mirror. "
          "Audit round: the span of every production of a printed grammar ends after its last item, with or without an action (C10round_ast_of_prod_spans, "
          "C10round_prod_span_ends_after_last_symbol; pinned variant refuted, repaired 69c4b9b; the oracle demands that end exactly); which of several unknown %epp "
          "names is reported = the first declared (repaired 3e32e4e; no longer canonicalised by the harness). Two further known findings are live in every run, each "
          "with a refutation witness and a named well-formedness condition of the round trip: braces inside Rust literals/comments of action code "
          "(C10round_action_literal_brace_refuted, C10round_wf_layout_split) and layout kept after action types (C10round_actiontype_layout_refuted). "
          "Second audit round. Used tokens (/repo 4ff022d; GrammarAST::unused_symbols mirrored, flag fu): for EVERY AST the %prec token of a production of a "
          "reachable rule is never reported unused (C10_prec_token_is_used; reachability stated independently of the work list), nor is a token that occurs as a "
          "symbol of a reachable production (C10_symbol_token_is_used); warnings = projection of the unused list (C10_warnings_are_unused); the pinned walk is refuted "
          "on the unary-minus grammar (C10_prec_only_token_unused_refuted) and a pseudo-token named only by an unreachable production IS reported "
          "(C10_prec_token_unreachable_reported). Tie: a family of grammars with precedence pseudo-tokens whose warnings must equal a first-principles expectation "
          "exactly (kind, span, order). Layout of the %grmtools header (/repo fdd053a): kind spellings with white space after the '(' of Original(..); a header "
          "rejected only because of that white space (the same text without it is accepted) is a counterexample of the layout clause.",
  "design_ref": "DESIGN.md §5 C10",
  "note": _TB + "the whole-file round-trip law parse (print layout ag) = ast_of ag is PROVED (C10round_yacc_roundtrip) for all three dialects (Original, Grmtools "
          "with per-rule action types, Eco with %implicit_tokens), all 12 declaration kinds (%start %token %left/%right/%nonassoc %epp %avoid_insert "
          "%expect %expect-rr %actiontype %parse-param %parse-generics %expect-unused %implicit_tokens), the programs section, all layouts of "
          "blanks/newlines/comments and quoting styles; the Coq printer's text is what the check feeds the real parser. Outside the theorem: a "
          "%grmtools header in the text (C12's mirror), values starting with '/', token names containing both quote kinds.",
  "technique": "Coq proof on mirrors of the yacc parser and grammar builder (totality, faithfulness, ranges, lexical round trips) + print-then-parse oracle + transcript differential"},
 {"id": "C13",
  "text": "Coq theorems for the logic Coq can carry: the $-substitution scanner mirror meets its tokenisation spec for ALL action texts "
          "(never panics), the wrapper's argument unpacking = map over the production's symbols ($k denotes the k-th, Ok iff not faulty), "
          "flag regeneration = default filling. PIPELINE: the generated parser module is modelled as {format, encode g, encode t, recovery kind, "
          "entry point} whose parse() reconstitutes both constants (C14's codec) and calls the run-time parser, any function of the decoded "
          "values: C13_ct_equals_rt proves the generated parse() returns exactly the run-time call on the built objects for both formats and "
          "every width (ct_lexerdef_equals_rt for the generated lexerdef()); the facts about the generated TEXT this model assumes are checked "
          "statically on every generated module (data constants used only in the two _reconstitute arms with the arm's encoding, configured "
          "format and recoverer, entry point of the yacc kind, embedded bytes = serialisation of the run-time-built objects, one lex_flags). "
          "In addition the equivalence is decided by execution per generated program: generate, include!, compile once with rustc, run, and "
          "compare lexemes, values, errors and repair sets with the run-time pipeline and with the model's predictions. "
          "PER RUN: with the run-time parser a relation (one run may return r) the generated parse() has the same set of outcomes (C13_ct_runs_are_rt_runs); equal "
          "value, errors and repairs() lists on every input - erroneous ones with several equally ranked repair sequences included - under "
          "applied_repair_determined, the fact /repo ca69cd1 established (C13_ct_equals_rt_value; C13_ct_equals_rt_value_refuted for the pinned hash-order "
          "selection). The execution part compares value, number of errors and every repairs() list IN ORDER on every input, calls the generated parse() three "
          "times per erroneous input, and reaches >= 50 inputs with >= 2 first-rank repair sequences per quick run; specifications whose generated module rustc "
          "rejects (names differing only in case, %parse-param named like a local of parse()) are measured as scope observations. Static fact P2: each "
          "_reconstitute arm reads with the very configuration expression ctbuilder.rs serialises that format with (both read from the source). "
          "Third session: the settings in force — mirror of the header sequence of CTParserBuilder::build_inner on the MarkMap model: C13_settings_in_force (builder's value wins, else the section's, else the documented fallback / Missing yacckind; unused() = the section's other keys; never a panic or a merge conflict), C13_settings_merge_never_conflicts, C13_builder_setting_wins, C13_section_setting_used_otherwise, C13_unknown_keys_reported; tied by builder_sequence cases on the real MarkMap (part of ./check C12).",
  "design_ref": "DESIGN.md §5 C13",
  "category": "proof",
  "note": _TB + "rustc, quote!/prettyplease and the generated text are outside the model: pipeline equivalence is translation validation by compile-and-run (partial).",
  "technique": "Coq proof (scanner/wrapper/flag models; compile-time pipeline = run-time pipeline over the verified codec) + static check of the generated module text + compile-and-run differential against the run-time pipeline"},
 {"id": "C14",
  "text": "Coq theorems: codec_roundtrip for ALL schemas/values/configurations (fixint and varint), decode soundness, canonicity (fixint; "
          "varint refuted as in wincode, minimal-preimage variant proved), and reconstitute never fails on the schemas GENERATED from the "
          "Rust sources on every run (translator tools/schema_of_rust.py; a skipped/retyped/lost field breaks schema_wf and the proof gate). "
          "Tie: the extracted decoder consumes the implementation's bytes completely and re-encodes them identically for every generated "
          "grammar x {fix,var} x {u8,u16,u32}; decoded fields equal API answers; every public query and parse on the reconstituted objects "
          "equals the originals. "
          "Audit round: wincode's 4 MiB preallocation limit (in force in both configurations until /repo 40b4e42) is modelled explicitly: decode_limited is exactly "
          "decode restricted to values all of whose sequences pass the size check (C14_decode_limited_exact), a sequence one word above the limit round-trips "
          "without and is refused with the limit (C14_codec_roundtrip_limited_refuted), and under a limit the build fails iff the limited reader refuses "
          "(C14_limited_build_fails_iff); codec_roundtrip no longer assumes any length bound. Tie: the harness serialises with the configuration expressions copied "
          "from ctbuilder.rs on every build, a serialisation error of a built grammar is a violation, and a family of sources with one sequence just above / at / "
          "below 4 MiB runs in every tier.",
  "design_ref": "DESIGN.md §5 C14",
  "note": _TB + "the translator (regex reader of the derive'd structs and vendored crates) is trusted; strings are byte lists; wincode's layout was read off the vendored crate. vlib/ctconfig.py (regex-level reader of the two call sites in ctbuilder.rs, fails closed) generates harness/src/c14_config.rs; Model.mem_size is compared with size_of per run and enters no theorem tied to the current code.",
  "technique": "Coq proof (codec round trip over a schema regenerated from the source) + byte-level and query-level differential"},
 {"id": "C16",
  "text": "Coq theorems: coherent_b is sound for the seven clauses of the statement (actions/shifts lists, targets = graph edges, "
          "core_reduces per (rule,length), reduce-only flag, reachability, closed = LR(1) closure of core), views computed from final "
          "cells are coherent for ANY cells, the mirror's state_actions = non-error cells plus %nonassoc-erased ones (refutation of the "
          "pinned code; repaired). For the mirrored construction (C01's from_yacc_mirror) coherence holds for EVERY grammar: "
          "C16_construction_coherent (all row clauses, every state reachable after gc: pager_mirror_all_reachable, every closed state the "
          "LR(1) closure of its core). Tie: coherent_b and an independent re-computation on every state/token/rule of every generated table. "
          "Third session: the checker is EXACT — C16_coherent_b_exact / _exact_dump (accepted <-> coherent) from C16_all_reachable_b_reflects (saturation within nstates rounds) and C16_lr1_closure_exact / C16_closure_b_reflects (the reference closure's fuel suffices), under wf_grammar, vS1, vS5 and two dump conditions the extracted model evaluates on every dump (K exact=).",
  "design_ref": "DESIGN.md §5 C16",
  "note": _TB + "coherent_b is proved exact for dumps meeting the five boolean hypotheses of C16_coherent_b_exact_dump (evaluated on every dump of a run); the independent Python re-computation remains as a cross-check.",
  "technique": "Coq proof (verified coherence validator + mirror of the view computation) + exhaustive per-state differential"},
 {"id": "C08",
  "text": "Coq theorems on a literal mirror of Parser::lr / lr_upto / apply_repairs with value and span stacks and an action log, for ANY "
          "validated table and ALL inputs: the log is the post-order of the returned tree, exactly one call per reduction with the "
          "production's rule, one argument per symbol in order (lexeme / child value) and the parameter; the actions-built tree equals the "
          "generic tree; the replay copy of the reduce code equals the main one; every call's span is the hull of the lexemes under its node, "
          "zero-length when there are none (proved for the repaired span computation, refuted by vm_compute for the pinned one; repaired), "
          "also with recovery for any replayed repair sequence. With recovery BOTH modes: for one and the same recoverer function (lexemes, laidx, "
          "parse stack) -> applied sequence the generic-mode mirror returns exactly the erased tree, errors and applied sequences of the action-mode "
          "mirror on every grammar, table and input (C08_actions_equal_generic_same_recoverer), and two recoverers differing at one tied "
          "configuration give different trees (C08_actions_differ_generic_if_recoverer_differs_refuted: the pinned defect of /repo before ca69cd1). "
          "Tie: recording closures through parse_actions vs the mirror's log, plus an independent Python re-computation of post-order and hull spans "
          "from the implementation's own log and tree; plus, for every erroneous input, parse_actions and parse_map run 1 + 4 times each in one "
          "process must agree on verdict, tree, errors and the ordered repairs() lists; parse_map vs the generic-mode mirror.",
  "design_ref": "DESIGN.md §5 C08",
  "note": _TB + "the CPCT+ search itself is not mirrored here: the recoverer is a function parameter of the mirrors; the correspondence feeds it the sequences the implementation reports; runs cut by the recovery time budget are not compared.",
  "technique": "Coq proof (refinement of the LR interpreter by a mirror with value/span stacks; post-order and hull invariants) + action-log differential"},
 {"id": "C20",
  "text": "Coq theorems on a mirror of the size bookkeeping with narrow w n = n mod 2^w: for the repaired guards, passing the guards implies "
          "no reported size or index wraps (guards_imply_no_wrap), observations are width-independent, and the grammar guards refuse nothing "
          "that fits (exactness); the pinned guards are refuted at the 2^w boundary classes (repaired); state-count guards and the lexer "
          "rule-id guard characterised exactly. Tie: generated grammars and lexers with counts at 2^8-6..2^8+1 (and 2^16) built with "
          "u8/u16/u32 in release and debug: refusal class, which guard refuses and every reported size vs the mirror, and transcripts "
          "(canonically renumbered) equal across accepting widths. TABLE/PARSE level: in C01's from_yacc_mirror a width is exactly the bound "
          "max_st plus the hash-order oracles; proved for all grammars: the narrow run is a StorageT refusal or EQUALS the wide run under the "
          "same oracles (construction_bound_only_refuses, refusal_is_storage_check, construction_sizes_fit) and, for LR(1) grammars or "
          "conflict-free reports, any two successful runs with arbitrary bounds and oracles give the same tree or first-error position on "
          "EVERY input (parse_results_width_independent); with resolved conflicts both are sound, equality remains differential. "
          "Audit round: the composition of the four state-count sites refuses iff the state count is >= MAX-1, and every such refusal carries the one documented "
          "message class (C20_state_count_refused_iff, C20_state_count_boundary, C20_construction_state_count_refused; exactly MAX-1 / MAX states died in a bare "
          "assert until /repo 394c6e3). Tie: grammars with exactly 253..256 (65533..65536) states x widths x profiles: a width accepts iff states <= MAX-2 and then "
          "equals the u32 build, otherwise the panic text must be the documented one; a bare assertion during construction is a violation.",
  "design_ref": "DESIGN.md §5 C20",
  "note": _TB + "equality of table contents and parse results across widths is carried by the differential run, not by a theorem (partial).",
  "technique": "Coq proof (modular-arithmetic model of the width guards; width independence of the mirrored table construction and of parse results) + boundary-configuration and merge-family differential across storage widths"},
 {"id": "C05",
  "text": "Coq theorems on the repair-sequence semantics (mirror of lr_upto/lr_cactus/apply_repairs over the LR interpreter) for ALL tables, "
          "inputs and oracles: a valid repair makes the plain parse of the REPAIRED token string succeed over the next N lexemes or to "
          "acceptance (valid_repair_plain_parse); after a sequence whose every step did what it says the driver behaves exactly as on the "
          "repaired input (continue_as_if_applied: same value shape, later errors, outcome); stripping trailing shifts keeps validity; "
          "Del/Ins commute; search moves are sound under reduce-confluence, and refuted without it (search_sound_refuted: the witness is a "
          "sequence the implementation reports). The property is decided per reported sequence: valid_repair is evaluated by the extracted "
          "model on EVERY sequence of every error, and the mirror driver replays the implementation's first sequences and must reproduce "
          "positions, states and the tree (faulty zero-length leaves for inserts). "
          "The reported list and the applied sequence are a function of the input: the tail of simplify_repairs (insertion-ordered dedup + any stable sort) "
          "determines the list uniquely (simplify_deterministic, simplify_stable, simplify_same_set; the pinned HashSet + unstable sort refuted: "
          "simplify_refuted_orig; repaired ca69cd1); tie: every erroneous input parsed 8 times in one process and in 4 processes - identical repairs() lists (order "
          "included), applied sequences, values and later errors. Deep parse stacks: see C07.",
  "design_ref": "DESIGN.md §5 C05, §5B",
  "note": _TB + "the bucketed search (dijkstra, merging, ranking) is not mirrored; time budget raised through the guarded hook. dedup_keep_first = IndexSet::from_iter, and that slice::sort_by is stable, are the libraries' contracts (any stable sort gives the same list).",
  "technique": "Coq proof (repair semantics: validity implies plain continuation; replay equivalence) + per-sequence validity evaluation and driver replay differential"},
 {"id": "C07",
  "text": "Coq theorems on the mirror of the recovery driver loop for ALL tables/inputs/oracles of valid repairs: error positions are "
          "spaced by at least N lexemes and lie within the input (errors_spaced, errors_strictly_increase), their number is bounded by "
          "|input|/N + 1, the outer loop terminates within 2|input|+3 iterations given that each run of reductions ends, a value is "
          "returned iff every error is repaired, only the last error may lack repairs, a clean accept equals the plain LR accept. Tie: the "
          "inequalities evaluated on the implementation's (value, errors) for generated erroneous inputs; first error and clean accept "
          "cross-checked against the LR interpreter; watchdog for termination on acyclic grammars. "
          "'A parse always returns' with the native stack as an explicit resource: releasing the recoverer's copy of the parse stack needs length(pstack) nested "
          "Rc::drop frames in the pinned code (recover_drop_depth_unbounded_refuted) and at most 2 with the unwinding guard (drop_iterative_depth, "
          "recover_drop_depth_bounded; repaired 4f40408); tie: nesting depths 2 000 .. 1 000 000 on 2 / 8 MiB threads, one process per parse, analytic oracle (one "
          "error, [Delete c] / [Insert c], leaves = repaired input). Determinism of the reported lists as C05; the deadline sweep compares lists.",
  "design_ref": "DESIGN.md §5 C07",
  "note": _TB + "termination of runs of reductions (no epsilon-reduction cycle in the table) is a hypothesis; on conflict-resolved tables it fails (known findings). The frame-count model of Rc::drop is read off cactus::Cactus and tied to the code only through outcomes (abort / no abort at the measured depths).",
  "technique": "Coq proof (progress invariant of the recovery driver by induction over errors) + differential of error lists and outcomes"},
 {"id": "C06",
  "text": "Coq theorems on a verified REFERENCE: all_min_repairs enumerates (by iterative deepening on cost, pure sequence semantics, no "
          "arbitrary length bound since a success stops at N shifts: first_success_length) exactly the stripped minimum-cost successes that "
          "parse furthest (reference_complete / reference_none, enum_exact), Del/Ins commute (so the normal form loses no cheaper repair), "
          "the simplified output is NoDup, ends in no Shift, is sorted by (avoid_insert, length), never inserts EOF and has one cost "
          "(simplify_postconditions). An executable MIRROR of the bucketed search (dijkstra + merging + rank + simplify) exists and the "
          "pinned search is refuted against the reference (search_complete_refuted; repaired in /repo). SOUNDNESS of the search mirror is "
          "proved for all inputs (node_invariant, buckets_in_cost_order, first_success_is_minimal_among_explored, returned_same_cost, "
          "reported_are_successes, mirror_output_form; under reduce-confluence reported_valid and reported_cost_ge_reference); its "
          "COMPLETENESS and MINIMALITY are proved too, for minimum costs <= 65535 (dijkstra_complete: the Dijkstra invariant with node "
          "merging, for every table; reported_cost_minimal; search_complete_bounded / search_reports_exactly on reduce-confluent tables; "
          "validated_search_complete on validated tables; search_complete_needs_cost_bound: above 65535 the u16 search reports nothing, a "
          "known finding replayed on the implementation). Per generated error the "
          "implementation's list is compared with the reference set (missing / extra / over-priced sequence = witness) and the ordering, "
          "dedup, equal-cost, no-trailing-shift, no-EOF clauses are checked directly. "
          "Second audit round (/repo 00915cc): the RANK is the distance capped at in_laidx + TRY_PARSE_AT_MOST for every candidate (C06_rank_fixed_spec: the repaired "
          "rank_cnds keeps exactly the candidates whose capped distance - measured by a parse that never goes beyond the cap, C06_parse_below_within / "
          "C06_cap_dist_is_capped_distance / C06_far_is_capped_distance - is maximal; the pinned ranking, which parsed a candidate whose own repairs end beyond the "
          "cap on without limit, is refuted: C06_rank_cap_refuted_orig, and the reference that had mirrored it is corrected: C06_reference_orig_uncapped); families "
          "whose repairs reach past the cap (>= 243 cheap deletions against one dear insertion; >= 60 unit-cost edits) run first.",
  "design_ref": "DESIGN.md §5 C06, §5B",
  "note": _TB + "completeness/minimality theorems are about the search MIRROR (tied to the code by the correspondence run) and carry cmin <= 65535; the implementation's set is compared per generated error with the proved-exact reference; reference capped by enumeration size (skipped cases counted). On the unit-cost families past the look-ahead cap the exhaustive reference is out of reach and the oracle is the search mirror under C06_validated_search_complete_at_error, its hypotheses evaluated by the extracted code on the dump.",
  "technique": "Coq proof (verified exhaustive reference for minimum-cost repair sets) + set-equality differential with the implementation's repair lists"},
]

_PENDING = "check not built yet in this round (work in progress; see DESIGN.md §10 build order)"
NOT_APPLICABLE = [{"property_id": "C%02d" % i, "reason": _PENDING} for i in range(1, 21) if "C%02d" % i not in [c["id"] for c in CHECKS]]
