"""Registry of claimed checks (MANIFEST.json is generated from this by tools/mkmanifest.py)."""

HOOK_COMMITS = ["3b247a2"]

_TB = ("Coq 8.16.1 kernel; no axioms (Print Assumptions: Closed under the global context); extraction via ExtrOcamlBasic only; "
       "the hand-written model is tied to /repo by the correspondence run (Rust harness + OCaml driver + Python comparison are trusted); ")

CHECKS = [
 {"id": "C19",
  "text": "Coq theorems over ALL texts, chunkings, offsets and spans: the mirror of NewlineCache returns exactly the declaratively "
          "specified line, column and line range and never panics; the mirror is tied to the code by running both on every text up to "
          "length 5 (7 thorough) over {a,é,♠,LF,CR} with random chunkings and on random longer texts, every offset and span.",
  "design_ref": "DESIGN.md §5 C19",
  "note": _TB + "binary_search modelled by its documented contract on strictly increasing slices.",
  "technique": "Coq proof (mirror model = declarative spec, induction over character lists) + differential correspondence with extracted model"},
 {"id": "C01",
  "text": "Coq theorems for ANY grammar/automaton dump that passes the boolean validators and for ALL token sequences: an accepted input "
          "yields a valid derivation of exactly that input from the start rule (lr_sound), the parser's panic sites are unreachable "
          "(lr_never_panics), every sentence is accepted with its tree (lr_complete) and no non-sentence is (lr_rejects_nonsentences). "
          "Per generated grammar the implementation's own item sets, edges and table cells are validated, and the interpreter model is "
          "run against Parser::lr on the same tables. 'All grammars' for table construction is by sampling + per-grammar certificate, "
          "not a proof of Pager's algorithm.",
  "design_ref": "DESIGN.md §5 C01, §5A",
  "note": _TB + "validators' inputs are dumps taken through public accessors; Earley/tree-validity oracles (Python) only search for failing inputs.",
  "technique": "Coq proof of a verified validator (LR soundness/completeness from per-grammar certificate) + interpreter/implementation differential"},
 {"id": "C02",
  "text": "Coq theorem validated_automata_agree: two validated automata of a productive grammar give the same tree or first-error position "
          "on ALL inputs. Per generated reduced grammar the canonical LR(1) automaton (extracted, validated per grammar) certifies LR(1)-ness; "
          "the implementation must then report no conflict, have no more states, pass the validators and agree on all generated inputs. "
          "The universal claim over grammars (Pager's theorem) is decided per generated grammar only: partial.",
  "design_ref": "DESIGN.md §5 C02",
  "note": _TB + "canon_lr1 is unverified but its output is validated per grammar by the proved validators.",
  "technique": "Coq proof (agreement of validated automata) + validated canonical LR(1) reference differential"},
 {"id": "C04",
  "text": "Coq theorems for any validated dump of a productive grammar and ALL inputs: a Reject at lexeme k implies the first k lexemes are "
          "a prefix of a sentence (shifted_prefix_viable) and the first k+1 are not (first_error_not_viable). Tie as C01, plus error "
          "count, absent value and first error under CPCT+ against an Earley viable-prefix oracle on every generated input.",
  "design_ref": "DESIGN.md §5 C04, §5A",
  "note": _TB + "Earley oracle (Python) used for the failing-input search and the with-recovery clause.",
  "technique": "Coq proof of a verified validator (viable-prefix property) + interpreter/implementation differential"},
 {"id": "C09",
  "text": "Coq theorems about a literal mirror of the lexer's scan loop (parameterised by a match oracle for the regex crate), for ALL rule "
          "tables, start-state tables, oracles and inputs: termination within fuel and no panic, longest non-empty match among the active "
          "rules with the earliest rule on ties, contiguity/tiling up to the end or a single error, named rules emit / unnamed skip, the "
          "run-length-encoded start-state stack refines a plain stack (push/pop/replace, pop-to-empty resets to INITIAL), inclusive/exclusive "
          "activity, and set_rule_ids returns exactly the names missing on either side. The mirror is tied to the code by running it, with "
          "a match table computed independently with the regex crate, against LRNonStreamingLexerDef on generated specs x inputs.",
  "design_ref": "DESIGN.md §5 C09",
  "note": _TB + "regex semantics is the regex crate's (oracle, not modelled); start-state ids/exclusive flags are read from Debug output.",
  "technique": "Coq proof (mirror of the scan loop meets a declarative spec, induction over the input) + differential correspondence with a regex-crate match table"},
 {"id": "C11",
  "text": "Coq theorems about a function-by-function mirror of the lex-spec parser (LexParser, unescape, trim_end_unescaped, the header "
          "slicing of from_str) for ALL texts: the escape rewriting equals a declarative map_escapes, the parser is total (never panics, "
          "fuel |src|+2 suffices), an error result is non-empty, and every name/start-state span indexes the text the user wrote "
          "(spans_index_source; the pinned code is refuted by C11_spans_index_source_refuted / C11_target_span_refuted and was repaired). "
          "Tie: impl vs mirror transcripts on generated, mutated and truncated specs; an abstract-spec oracle (rules in order, names, "
          "start states, targets, span texts), regex equivalence through the regex crate on string batteries, flag probes.",
  "design_ref": "DESIGN.md §5 C11, §A.3",
  "note": _TB + "the %grmtools header end position and regex compilability are inputs of the mirror (header parser: C12; regex crate: oracle).",
  "technique": "Coq proof on a mirror of the lex parser (escape rewriting = spec, totality, span indexing) + abstract-spec oracle + impl/mirror differential"},
 {"id": "C12",
  "text": "Coq theorems about a mirror of the %grmtools section parser for ALL strings: total with fuel 2|src|+4, never panics, a value or a "
          "non-empty error list, every span well-formed on char boundaries (the pinned code is refuted: C12_header_total_refuted, "
          "C12_header_orig_diverges, C12_header_orig_panics; repaired). The yacc and lex parsers' totality is carried by the C10/C11 mirrors' "
          "theorems (lex: C11_lex_parse_total) and by mass differential: ~32k (quick) near-valid strings per run through all three real "
          "parsers under catch_unwind and a watchdog, every error/warning span checked against is_char_boundary.",
  "design_ref": "DESIGN.md §5 C12, §5E",
  "note": _TB + "for the yacc parser the totality claim rests on execution (and on the C10 mirror tie), not on a closed Coq theorem: partial.",
  "technique": "Coq proof (header parser mirror total, spans well-formed) + impl/mirror differential + panic/hang/bad-span oracle on mutated specifications"},
 {"id": "C15",
  "text": "Coq permutation theorems on mirrors whose hash-iteration orders are explicit parameters: Eco implicit-token numbering (pinned code "
          "refuted and shown order-sensitive for every list of >= 2 tokens; repaired variant order-insensitive), avoid_insert bits, Pager gc "
          "(reachable set and renumbering independent of the pop schedule), one StateTable row (cells/gotos equal, conflict lists "
          "Permutation-equal; sorted = literally equal), and an abstract OnceLock (every thread observes f ()). Tie: the harness runs as 8 "
          "(16) separate processes per grammar and digests of every grammar/graph/table query and generated module bytes must coincide; "
          "8 threads first-use a OnceLock-guarded reconstitution.",
  "design_ref": "DESIGN.md §5 C15",
  "note": _TB + "hash seeds and thread interleavings are sampled on the implementation (quantified in the model); OnceLock model is an assumption about std.",
  "technique": "Coq proof (order-insensitivity by Permutation induction; schedule induction for OnceLock) + cross-process digest differential"},
 {"id": "C17",
  "text": "Coq theorems: the reference nullable/FIRST/FOLLOW/reachability analyses are exact for ALL grammars (iff with declarative "
          "definitions over sentential forms) and total; verified certificate checkers decide true minimum/maximum/unbounded sentence costs "
          "(C17_certified_costs_exact); the mirrored min-cost iteration provably diverges on a productive derivation cycle. Tie: the "
          "implementation's firsts/follows/has_path/min/max costs/min_sentence(s) are compared bit for bit with the proved-exact references "
          "and certified costs on generated grammars (Earley check of generated sentences).",
  "design_ref": "DESIGN.md §5 C17",
  "note": _TB + "cost search code is unverified, only its certificate checkers are; FOLLOW is strict/textbook-bracketed when rules are unreachable.",
  "technique": "Coq proof (reference analyses exact; verified cost certificates) + exact differential against the implementation"},
 {"id": "C18",
  "text": "Coq theorems by induction over ALL operation histories (edits, option changes, broken sources, builds) on a mirror of both "
          "builders' regeneration decisions: a successful build leaves exactly the outputs of a clean build, regenerated() iff the "
          "configuration changed since the last parser-successful build, an immediate rebuild is a no-op, which setting escapes the cache "
          "string (StorageT; refuted, repaired), a failed build leaves nothing stale (refuted for the pinned code, proved for the repaired "
          "variant). Tie: random and targeted histories replayed against the real CTLexerBuilder/CTParserBuilder, one process per build, "
          "explicit mtimes, each step compared with the mirror and with a clean build.",
  "design_ref": "DESIGN.md §5 C18",
  "note": _TB + "file contents are abstract descriptors in the model (bijection with bytes checked per run); mtimes are set by the harness.",
  "technique": "Coq proof (invariant over build histories on a mirror of the builders) + history replay differential against the real builders"},
]

_PENDING = "check not built yet in this round (work in progress; see DESIGN.md §10 build order)"
NOT_APPLICABLE = [{"property_id": "C%02d" % i, "reason": _PENDING} for i in range(1, 21) if "C%02d" % i not in [c["id"] for c in CHECKS]]
