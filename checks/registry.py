"""Registry of claimed checks (MANIFEST.json is generated from this by tools/mkmanifest.py)."""

HOOK_COMMITS = ["3b247a2"]

_TB = ("Coq 8.16.1 kernel; no axioms (Print Assumptions: Closed under the global context); extraction via ExtrOcamlBasic only; "
       "the hand-written model is tied to /repo by the correspondence run (Rust harness + OCaml driver + Python comparison are trusted); ")

CHECKS = [
 {"id": "C19",
  "text": "Coq theorems over ALL texts, chunkings, offsets and spans: the mirror of NewlineCache returns exactly the declaratively "
          "specified line, column and line range and never panics; the mirror is tied to the code by running both on every text up to "
          "length 5 (7 thorough) over {a,é,♠,LF,CR} with random chunkings and on random longer texts, every offset and span.",
  "design_ref": "DESIGN.md §5 C19",
  "note": _TB + "binary_search modelled by its documented contract on strictly increasing slices.",
  "technique": "Coq proof (mirror model = declarative spec, induction over character lists) + differential correspondence with extracted model"},
 {"id": "C01",
  "text": "Coq theorems for ANY grammar/automaton dump that passes the boolean validators and for ALL token sequences: an accepted input "
          "yields a valid derivation of exactly that input from the start rule (lr_sound), the parser's panic sites are unreachable "
          "(lr_never_panics), every sentence is accepted with its tree (lr_complete) and no non-sentence is (lr_rejects_nonsentences). "
          "Per generated grammar the implementation's own item sets, edges and table cells are validated, and the interpreter model is "
          "run against Parser::lr on the same tables. 'All grammars' for table construction is by sampling + per-grammar certificate, "
          "not a proof of Pager's algorithm.",
  "design_ref": "DESIGN.md §5 C01, §5A",
  "note": _TB + "validators' inputs are dumps taken through public accessors; Earley/tree-validity oracles (Python) only search for failing inputs.",
  "technique": "Coq proof of a verified validator (LR soundness/completeness from per-grammar certificate) + interpreter/implementation differential"},
 {"id": "C02",
  "text": "Coq theorem validated_automata_agree: two validated automata of a productive grammar give the same tree or first-error position "
          "on ALL inputs. Per generated reduced grammar the canonical LR(1) automaton (extracted, validated per grammar) certifies LR(1)-ness; "
          "the implementation must then report no conflict, have no more states, pass the validators and agree on all generated inputs. "
          "The universal claim over grammars (Pager's theorem) is decided per generated grammar only: partial.",
  "design_ref": "DESIGN.md §5 C02",
  "note": _TB + "canon_lr1 is unverified but its output is validated per grammar by the proved validators.",
  "technique": "Coq proof (agreement of validated automata) + validated canonical LR(1) reference differential"},
 {"id": "C04",
  "text": "Coq theorems for any validated dump of a productive grammar and ALL inputs: a Reject at lexeme k implies the first k lexemes are "
          "a prefix of a sentence (shifted_prefix_viable) and the first k+1 are not (first_error_not_viable). Tie as C01, plus error "
          "count, absent value and first error under CPCT+ against an Earley viable-prefix oracle on every generated input.",
  "design_ref": "DESIGN.md §5 C04, §5A",
  "note": _TB + "Earley oracle (Python) used for the failing-input search and the with-recovery clause.",
  "technique": "Coq proof of a verified validator (viable-prefix property) + interpreter/implementation differential"},
 {"id": "C09",
  "text": "Coq theorems about a literal mirror of the lexer's scan loop (parameterised by a match oracle for the regex crate), for ALL rule "
          "tables, start-state tables, oracles and inputs: termination within fuel and no panic, longest non-empty match among the active "
          "rules with the earliest rule on ties, contiguity/tiling up to the end or a single error, named rules emit / unnamed skip, the "
          "run-length-encoded start-state stack refines a plain stack (push/pop/replace, pop-to-empty resets to INITIAL), inclusive/exclusive "
          "activity, and set_rule_ids returns exactly the names missing on either side. The mirror is tied to the code by running it, with "
          "a match table computed independently with the regex crate, against LRNonStreamingLexerDef on generated specs x inputs.",
  "design_ref": "DESIGN.md §5 C09",
  "note": _TB + "regex semantics is the regex crate's (oracle, not modelled); start-state ids/exclusive flags are read from Debug output.",
  "technique": "Coq proof (mirror of the scan loop meets a declarative spec, induction over the input) + differential correspondence with a regex-crate match table"},
]

_PENDING = "check not built yet in this round (work in progress; see DESIGN.md §10 build order)"
NOT_APPLICABLE = [{"property_id": "C%02d" % i, "reason": _PENDING} for i in range(1, 21) if "C%02d" % i not in [c["id"] for c in CHECKS]]
