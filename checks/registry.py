"""Registry of claimed checks (MANIFEST.json is generated from this by tools/mkmanifest.py)."""

HOOK_COMMITS = []

_TB = ("Coq 8.16.1 kernel; no axioms (Print Assumptions: Closed under the global context); extraction via ExtrOcamlBasic only; "
       "the hand-written model is tied to /repo by the correspondence run (Rust harness + OCaml driver + Python comparison are trusted); ")

CHECKS = [
 {"id": "C19",
  "text": "Coq theorems over ALL texts, chunkings, offsets and spans: the mirror of NewlineCache returns exactly the declaratively "
          "specified line, column and line range and never panics; the mirror is tied to the code by running both on every text up to "
          "length 5 (7 thorough) over {a,é,♠,LF,CR} with random chunkings and on random longer texts, every offset and span.",
  "design_ref": "DESIGN.md §5 C19",
  "note": _TB + "binary_search modelled by its documented contract on strictly increasing slices.",
  "technique": "Coq proof (mirror model = declarative spec, induction over character lists) + differential correspondence with extracted model"},
]

_PENDING = "check not built yet in this round (work in progress; see DESIGN.md §10 build order)"
NOT_APPLICABLE = [{"property_id": "C%02d" % i, "reason": _PENDING} for i in range(1, 21) if "C%02d" % i not in [c["id"] for c in CHECKS]]
