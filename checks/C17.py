"""C17 — grammar analyses (nullable, FIRST, FOLLOW, has_path, sentence costs) are exact and terminate.

Proof (theories/Base + theories/C17): the reference nullable/FIRST/FOLLOW/reachability
functions are exact for every well-formed grammar (C17_*_exact, C17_*_total); the
reference sentence costs are produced together with certificates that verified
checkers accept (C17_certified_costs_exact: reported minimum / maximum / 'unbounded' /
'unproductive' are true for every grammar and cost function on which it answers).
Tie: the implementation's answers for every generated grammar are compared bit for
bit with the extracted references run on the implementation's own grammar dump.
Failing-input search: every difference is a concrete (grammar, rule, token / cost) on
which the implementation contradicts a proved-exact value; generated minimal
sentences are checked by an independent Earley recogniser; hangs are observed by a
watchdog and explained by the mirrored iteration (C17_mc_run_spec).
Sentence costs, COSTS_FIXED = True (the repaired rule_min_costs / rule_max_costs, notes/C17-costs-fix.diff): the
implementation's min_sentence_cost / max_sentence_cost of EVERY rule of EVERY generated grammar (cyclic and
unproductive ones included) are compared bit for bit with the extracted MIRROR of the repaired functions
(theories/C17/CostMirror.v), proved for all grammars and cost functions to terminate and to return the true
minimum / maximum / u16::MAX for unbounded (C17_min_costs_fixed_exact, C17_max_costs_fixed_exact); a hang or a
panic of the implementation where the mirror returns values is a violation; no known-finding class applies.
COSTS_FIXED = True (the original functions): the four recorded defect classes are matched as known findings.
The queries one by one (checks/c17_queries.py, harness bin c17q, theories/C17/Query*.v): (1) every cost query of every rule of an
overflow family under its own catch_unwind, each panic classified against the certified costs — own cost >= 65535: accepted
refusal; only another rule's: known finding C17-overflow-unrelated-rule; none: violation (C17_cost_query_exact_or_foreign_overflow,
C17_cost_query_panics_only_if_own_or_foreign); (2) min_sentences on a thread with an explicit 2 MiB stack, one process per run,
chains of distinct rules and shallow controls — stack overflow inside min_sentences at a recursion depth >= 1000: known finding
C17-min_sentences-recursion-depth, any other crash or a wrong answer: violation (C17_min_sentences_depth_le_rules,
C17_min_sentences_depth_unbounded_refuted); (3) min_sentences = its extracted mirror, sentence list in order; (4) min_sentences of
every rule of the clique of unit productions `R0: R1 | 'x'; Ri: every other rule` (m = 4..8), whole lists: an element other than
['x']: violation; the number of copies grows factorially and the list is the mirror's: known finding
C17-min_sentences-factorial-paths (C17_min_sentences_clique_copies); one copy everywhere: quiet.
"""
import itertools
import os
from vlib import core, cfg
from gen import grammars as G
from gen import c17gen as CG

U16MAX = 65535

# False: /repo has the ORIGINAL rule_min_costs / rule_max_costs (known findings C17-min-cycle, C17-min-unproductive,
#        C17-max-recursive, C17-max-early are expected and matched);
# True:  /repo has the repaired functions of notes/C17-costs-fix.diff: exact comparison with the proved mirror, no known_key.
COSTS_FIXED = True
# development aid (tools/scratch_eval.sh runs): GV_C17_COSTS_FIXED=1/0 overrides the flag for one process
if os.environ.get("GV_C17_COSTS_FIXED") in ("0", "1"):
    COSTS_FIXED = os.environ["GV_C17_COSTS_FIXED"] == "1"

K_FOLLOW = "FOLLOW: symbols after a nullable rule are not looked through (one-symbol lookahead)"
K_MIN_CYCLE = "min cost: iteration never terminates on a derivation cycle of productive rules"
K_MIN_UNPROD = "min cost: overflow panic or endless loop when some rule is unproductive"
K_MAX_REC = "max cost: reaching a recursive rule is reported as unbounded although no cycle adds tokens"
K_MAX_EARLY = "max cost: rule finalised before all its productions are complete (maximum too small)"
K_MS = "min_sentence: scan continues after descending into a rule (missing break)"


# query orders on ONE SentenceGenerator (harness c17 `order_steps`); 0 = every query group on its own fresh generator.
# The generator caches what its first queries compute: the answers are demanded to be the model's whatever the order.
ORDERS = {0: "own generator per query group (min | min_sentence, min_sentences | max)",
          1: "one generator: max, min, min_sentence, min_sentences",
          2: "one generator: min, max, min_sentence, min_sentences",
          3: "one generator: min_sentence, max, min, min_sentences",
          4: "one generator: min_sentences, max, min, min_sentence",
          5: "one generator: every query twice (min min max max min_sentence x2 min_sentences x2 max min)",
          6: "one generator: per rule min max min_sentence, twice; then max, min_sentences, min",
          7: "one generator: max, min_sentences, min_sentence, min, max"}


def case_line(src, costs, order=0):
    return "O %s%s ; %s" % (src.encode().hex(), " ord=%d" % order if order else "",
                            " ".join("%s=%d" % (k, v) for k, v in sorted(costs.items())))


def sections(line):
    if line.startswith("HANGCOST # "):
        line = line[len("HANGCOST # "):]
    return [s.split() for s in line.split(" # ")]


class Impl:
    def __init__(self, line):
        self.line = line
        self.ok = line.startswith("G ") or line.startswith("HANGCOST # G ")
        self.secs = sections(line) if self.ok else []
        self.nul, self.fi, self.fo, self.hp = set(), {}, {}, set()
        self.cost, self.min, self.max, self.ms, self.mss, self.mssbig = {}, {}, {}, {}, {}, {}
        self.flags = {}
        self.order = 0
        self.unstable = []        # (query, rule, first answer, later answer): a repeated query answered differently
        seen = {}
        for s in self.secs:
            if not s:
                continue
            k = s[0]
            if k in ("MIN", "MAX", "MS", "MSS", "MSSBIG") and len(s) > 1:
                a, b = seen.get((k, s[1])), s[2:]
                if k == "MSS" and a is not None:
                    # min_sentences: order and duplicates are free
                    canon = lambda v: sorted(set(" ".join(v).split(";")))
                    if canon(a) != canon(b):
                        self.unstable.append((k, int(s[1]), " ".join(a), " ".join(b)))
                elif a is not None and a != b:
                    self.unstable.append((k, int(s[1]), " ".join(a), " ".join(b)))
                seen.setdefault((k, s[1]), b)
            if k == "ORD":
                self.order = int(s[1])
            elif k == "NUL":
                self.nul = set(map(int, s[1:]))
            elif k == "FI":
                self.fi[int(s[1])] = set(map(int, s[2:]))
            elif k == "FO":
                self.fo[int(s[1])] = set(map(int, s[2:]))
            elif k == "HP":
                v = list(map(int, s[1:]))
                self.hp = set(zip(v[0::2], v[1::2]))
            elif k == "COST":
                v = list(map(int, s[1:]))
                self.cost = dict(zip(v[0::2], v[1::2]))
            elif k == "MIN":
                self.min[int(s[1])] = int(s[2])
            elif k == "MAX":
                self.max[int(s[1])] = None if s[2] == "inf" else int(s[2])
            elif k == "MS":
                self.ms[int(s[1])] = tuple(map(int, s[2:]))
            elif k == "MSS":
                sents, cur = [], None
                for x in s[2:]:
                    if x == ";":
                        if cur is not None:
                            sents.append(tuple(cur))
                        cur = []
                    else:
                        cur.append(int(x))
                if cur is not None:
                    sents.append(tuple(cur))
                self.mss[int(s[1])] = sents
            elif k == "MSSBIG":
                self.mssbig[int(s[1])] = int(s[2])
            elif k.endswith("HANG") or k.endswith("PANIC"):
                self.flags[k] = " ".join(s[1:])


class Model:
    def __init__(self, line):
        self.line = line
        self.ok = line.startswith("WF ")
        self.wf = False
        self.nul, self.fi, self.fos, self.fot, self.hp = None, {}, {}, {}, None
        self.cm = None      # rule -> None (unproductive) | (min, max|None)
        self.mm = None      # ("done", [..]) | ("panic",) | ("diverges",) | ("fuel",)
        self.fxmin = self.fxmax = None   # ("vals", [u16 per rule]) | ("panic", []) | ("fuel", [])   (mirror of the repaired functions)
        if not self.ok:
            return
        for s in [x.split() for x in line.split(" # ")]:
            if not s:
                continue
            k = s[0]
            if k == "WF":
                self.wf = s[1] == "1"
            elif k == "NUL":
                self.nul = set(map(int, s[1:]))
            elif k == "FI":
                self.fi[int(s[1])] = set(map(int, s[2:]))
            elif k == "FOS":
                self.fos[int(s[1])] = set(map(int, s[2:]))
            elif k == "FOT":
                self.fot[int(s[1])] = set(map(int, s[2:]))
            elif k == "HP":
                v = list(map(int, s[1:]))
                self.hp = set(zip(v[0::2], v[1::2]))
            elif k == "CM":
                if self.cm is None:
                    self.cm = {}
                self.cm[int(s[1])] = None if s[2] == "unproductive" else (int(s[2]), None if s[3] == "inf" else int(s[3]))
            elif k == "MM":
                self.mm = (s[1], list(map(int, s[2:])))
            elif k in ("FXMIN", "FXMAX"):
                v = (s[1], []) if len(s) > 1 and s[1] in ("panic", "fuel") else ("vals", list(map(int, s[1:])))
                if k == "FXMIN":
                    self.fxmin = v
                else:
                    self.fxmax = v


# ---- mirrors of the unchanged algorithms: used ONLY to decide whether a violation that was
# ---- established against the proved references belongs to an already reported class

def follows_mirror(g, nul, fi):
    fo = {r: set() for r in range(g.nrules)}
    fo[g.prods[g.start_prod][0]].add(g.eof)
    while True:
        changed = False
        for l, rhs in g.prods:
            eps = True
            for i in reversed(range(len(rhs))):
                x = rhs[i]
                if x % 2 == 0:
                    eps = False
                    continue
                s = x // 2
                add = set()
                if eps:
                    add |= fo[l]
                if s not in nul:
                    eps = False
                if i < len(rhs) - 1:
                    nx = rhs[i + 1]
                    add |= {nx // 2} if nx % 2 == 0 else fi.get(nx // 2, set())
                if not add <= fo[s]:
                    fo[s] |= add
                    changed = True
        if not changed:
            return fo


def max_mirror(g, cost, hp):
    n = g.nrules
    done, costs = [False] * n, [0] * n
    for r in range(n):
        if (r, r) in hp:
            costs[r], done[r] = U16MAX, True
    for _ in range(100000):
        all_done = True
        for i in range(n):
            if done[i]:
                continue
            all_done = False
            hc = hn = None
            for p in g.by_rule.get(i, []):
                c, cm, brk = 0, True, False
                for x in g.prods[p][1]:
                    if x % 2 == 0:
                        sc = cost.get(x // 2, 1)
                    else:
                        s = x // 2
                        if costs[s] == U16MAX:
                            hc, brk = U16MAX, True
                            break
                        if not done[s]:
                            cm = False
                        sc = costs[s]
                    c += sc
                    if c >= U16MAX:
                        return None
                if brk:
                    break
                if cm and (hc is None or c > hc):
                    hc = c
                elif not cm and (hn is None or c > hn):
                    hn = c
            if hc is not None and (hn is None or hc > hn):
                costs[i], done[i] = hc, True
            elif hn is not None:
                costs[i] = hn
        if all_done:
            return {r: (None if costs[r] == U16MAX else costs[r]) for r in range(n)}
    return None


def ms_mirror(g, cost, mins, r):
    def cheapest(rr):
        low = idx = None
        for p in g.by_rule.get(rr, []):
            sc = sum(mins[x // 2] if x % 2 else cost.get(x // 2, 1) for x in g.prods[p][1])
            if low is None or sc < low:
                low, idx = sc, p
        return idx
    out, st, steps = [], [(cheapest(r), 0)], 0
    while st:
        p, si = st.pop()
        rhs = g.prods[p][1]
        for sidx in range(si, len(rhs)):
            x = rhs[sidx]
            if x % 2:
                st.append((p, sidx + 1))
                st.append((cheapest(x // 2), 0))
            else:
                out.append(x // 2)
        steps += 1
        if steps > 20000 or len(out) > 20000:
            return None
    return tuple(out)


# ---- oracle: the set of all minimum-cost sentences, from the certified minima --------------

def tight_prods(g, cost, cm):
    res = {}
    for p, (l, rhs) in enumerate(g.prods):
        if cm.get(l) is None or any(x % 2 and cm.get(x // 2) is None for x in rhs):
            continue
        if sum(cm[x // 2][0] if x % 2 else cost.get(x // 2, 1) for x in rhs) == cm[l][0]:
            res.setdefault(l, []).append(p)
    return res


def min_sentence_count(g, cost, cm, cap=2000):
    """number of combinations the implementation's enumeration would produce (cap = too many / cyclic)"""
    tp = tight_prods(g, cost, cm)
    memo, active = {}, set()

    def cnt(r):
        if r in memo:
            return memo[r]
        if r in active:
            return cap
        active.add(r)
        tot = 0
        for p in tp.get(r, []):
            k = 1
            for x in g.prods[p][1]:
                if x % 2:
                    k = min(cap, k * cnt(x // 2))
            tot = min(cap, tot + k)
        active.discard(r)
        memo[r] = tot
        return tot
    return max([cnt(r) for r in range(g.nrules) if cm.get(r) is not None] + [0])


def min_sentence_count_fixed(g, cost, cm, cap=2000):
    """the same for the repaired enumeration (derivations that do not use a rule again below itself); cap = too many"""
    tp = tight_prods(g, cost, cm)
    budget = [20000]

    def cnt(r, active):
        budget[0] -= 1
        if budget[0] < 0:
            return cap
        tot = 0
        active.add(r)
        for p in tp.get(r, []):
            rhs = g.prods[p][1]
            if any(x % 2 and x // 2 in active for x in rhs):
                continue
            k = 1
            for x in rhs:
                if x % 2:
                    k = min(cap, k * cnt(x // 2, active))
                    if k == 0:
                        break
            tot = min(cap, tot + k)
        active.discard(r)
        return tot
    return max([cnt(r, set()) for r in range(g.nrules) if cm.get(r) is not None] + [0])


def min_sentence_sets(g, cost, cm, cap=400):
    tp = tight_prods(g, cost, cm)
    S = {r: set() for r in range(g.nrules)}
    for _ in range(4 * g.nrules + 4):
        changed = False
        for r, ps in tp.items():
            for p in ps:
                parts, size = [], 1
                for x in g.prods[p][1]:
                    part = S[x // 2] if x % 2 else {(x // 2,)}
                    size *= len(part)
                    parts.append(part)
                if size == 0:
                    continue
                if size > cap:
                    return None
                for combo in itertools.product(*parts):
                    s = tuple(t for c in combo for t in c)
                    if s not in S[r]:
                        S[r].add(s)
                        changed = True
                if len(S[r]) > cap:
                    return None
        if not changed:
            return S
    return None


# ---- generation -------------------------------------------------------------------------------

def cost_corpus():
    """recursion with and without gain: where the cost of a round trip comes from decides bounded / unbounded"""
    t, r, Gram = CG.t, CG.r, G.Gram
    return [
        # gain only through a sibling whose token sits two levels down
        Gram("xy", [("S", [[r("S"), r("A")], [t("x")]]), ("A", [[r("B")]]), ("B", [[t("y")]])]),
        # the sibling derives only the empty string: no gain, maximum cost('x')
        Gram("x", [("S", [[r("S"), r("A")], [t("x")]]), ("A", [[r("B")]]), ("B", [[]])]),
        # a cycle through two rules, the gain is optional
        Gram("xy", [("S", [[r("A")], [t("x")]]), ("A", [[r("B"), r("S")], [t("x")]]), ("B", [[], [t("y")]])]),
        # the only growing production needs an unproductive rule: bounded
        Gram("xy", [("S", [[r("A"), t("y")]]), ("A", [[r("A")], [t("x")], [r("U"), r("A"), t("y")]]), ("U", [[r("U")]])]),
        # a bounded rule above an unbounded one and beside a bounded one
        Gram("xy", [("S", [[r("A"), r("B")], [r("B")]]), ("A", [[r("A"), t("x")], []]), ("B", [[r("B")], [t("y"), t("y")]])]),
        # an unproductive rule inside the (only) recursive production of a bounded rule: A derives only 'x'
        Gram("xyz", [("A", [[t("x")], [r("A"), r("B"), t("y")]]), ("B", [[r("B"), t("z")]])]),
        # the same below the start rule, the unproductive rule first / two levels down / beside a nullable rule
        Gram("xyz", [("S", [[r("A"), t("z")]]), ("A", [[t("x")], [r("B"), r("A")]]), ("B", [[r("B"), t("y")]])]),
        Gram("xyz", [("S", [[r("A")], [r("S"), r("C"), t("z")]]), ("A", [[t("x"), t("x")], [r("N"), r("A"), r("C")]]), ("C", [[r("B")]]),
                     ("B", [[r("B"), t("y")], [r("C")]]), ("N", [[]])]),
    ]


def pump_family(rng):
    """a cycle of rules whose productions carry siblings of different kinds (nullable only, token several levels down,
    a single token — which may get cost 0 —, unproductive), plus non-recursive alternatives"""
    t, r, Gram = CG.t, CG.r, G.Gram
    k = rng.randint(1, 3)
    names = ["S", "A", "B"][:k]
    pool = {"N": [[]], "D": [[r("E")]], "Z": [[t("z")]], "U": [[r("U"), t("y")]], "M": [[], [t("y")]]}
    used = set()
    rules = []
    for i, n in enumerate(names):
        nxt = names[(i + 1) % k]
        alts = []
        for _ in range(rng.randint(1, 2)):
            sib = lambda: [r(x) for x in rng.sample(sorted(pool), rng.choice([0, 0, 1, 1, 2]))]
            a, b = sib(), sib()
            used.update(x[1] for x in a + b)
            alts.append(a + [r(nxt)] + b)
        if i == k - 1 or rng.random() < 0.5:
            alts.append([t("x")] * rng.randint(0, 2))
        if rng.random() < 0.3:
            alts.append([r(rng.choice(names)), t("y")] if rng.random() < 0.5 else [t("y"), t("x")])
        rules.append((n, CG._uniq(alts)))
    for x in sorted(used):
        rules.append((x, pool[x]))
    if "D" in used:
        rules.append(("E", [[t("y")]]))
    return Gram("xyz", rules)


def gen_cases(ctx, n):
    rng = ctx.rng
    cases = []
    for g in CG.corpus() + cost_corpus() + G.classic_corpus():
        cases.append(("corpus", g, {x: 1 for x in g.tokens}))
        cases.append(("corpus", g, CG.costs_for(rng, g)))
    # true costs beyond u16: the documented answer is the overflow panic (C17_*_panic_iff), never a silently wrong number
    t_, r_ = CG.t, CG.r
    dbl = [("S", [[r_("A9")], [t_("t")]]), ("T", [[r_("A9")]]), ("A0", [[t_("t")]])] + \
          [("A%d" % i, [[r_("A%d" % (i - 1)), r_("A%d" % (i - 1))]]) for i in range(1, 10)]
    long1 = [("S", [[t_("t")] * 258, [t_("u")]]), ("T", [[r_("S"), r_("S")]])]
    for g, costs in ((G.Gram(["t"], dbl), {"t": 255}), (G.Gram(["t"], dbl), {"t": 128}), (G.Gram(["t"], dbl), {"t": 1}),
                     (G.Gram(["t", "u"], long1), {"t": 255, "u": 1}), (G.Gram(["t", "u"], long1), {"t": 254, "u": 255})):
        cases.append(("corpus", g, costs))
    fams = [("random", lambda: G.random_grammar(rng)),
            ("reduced", lambda: G.reduced_random_grammar(rng)),
            ("nullable", lambda: G.nullable_heavy(rng)),
            ("expr", lambda: G.expr_grammar(rng)),
            ("notlalr", lambda: G.not_lalr_template(rng)),
            ("unitcyclic", lambda: CG.unit_cyclic(rng)),
            ("nullbetween", lambda: CG.nullable_between(rng)),
            ("dag", lambda: CG.dag(rng)),
            ("unreachable", lambda: CG.with_unreachable(rng)),
            ("pumpgain", lambda: pump_family(rng))]
    weights = [5, 3, 4, 1, 1, 3, 4, 4, 3, 4]
    while len(cases) < n:
        name, f = rng.choices(fams, weights)[0]
        g = f()
        if g is None:
            continue
        costs = CG.costs_for(rng, g)
        if COSTS_FIXED and rng.random() < 0.2:
            # zero-cost tokens (outside the documented domain of the sentence generator, inside the cost functions'):
            # only min/max_sentence_cost are compared on these cases
            for x in list(costs):
                if rng.random() < 0.4:
                    costs[x] = 0
        if COSTS_FIXED and name == "pumpgain" and "z" in costs and rng.random() < 0.5:
            costs["z"] = 0
        cases.append((name, g, costs))
    return cases


def gen_orders(ctx, cases):
    """the query order of each case (drawn after the grammars so that these stay what they were)"""
    rng = ctx.rng
    ncorpus = sum(1 for c in cases if c[0] == "corpus")
    orders = []
    for i, c in enumerate(cases):
        if c[0] == "corpus":
            orders.append(i % len(ORDERS))
        else:
            orders.append(rng.choice(sorted(ORDERS)))
    return orders


def corpus_all_orders(cases):
    """every corpus grammar with unit costs under every one-generator order"""
    out, seen = [], set()
    for fam, g, costs in cases:
        if fam != "corpus" or id(g) in seen:
            continue
        seen.add(id(g))
        for o in sorted(ORDERS):
            if o:
                out.append((("corpus", g, {x: 1 for x in g.tokens}), o))
    return out


# ---- evaluation ---------------------------------------------------------------------------------

class Reporter:
    def __init__(self, ctx):
        self.ctx = ctx
        self.per_key = {}

    def violation(self, data, key=None, no_input=False):
        k = key or data.get("what")
        self.per_key[k] = self.per_key.get(k, 0) + 1
        self.ctx.count("violation: " + (key or "UNCLASSIFIED " + str(data.get("what"))))
        if self.per_key[k] <= 2:
            self.ctx.violation(data, known_key=key, no_input=no_input)


def names(g):
    return {"rules": {str(k): v for k, v in sorted(g.rnames.items())}, "tokens": {str(k): v for k, v in sorted(g.tnames.items())}}


def evaluate(ctx, rep, fam, src, costs, im, mo, bad, order=0):
    """compare one case; `bad` collects the aspects with a difference"""
    g = cfg.DGram(im.secs)
    base = {"grammar": src, "costs_by_token_name": costs, "names": names(g), "query_order": ORDERS[order],
            "replay_cmd": "echo '%s' | .work/target/release/c17 | tee /dev/stderr | .work/ocaml/c17/gvm_c17" % case_line(src, costs, order)}
    rn = lambda r: "%s(%d)" % (g.rnames.get(r, "?"), r)
    tn = lambda t: "%s(%d)" % (g.tnames.get(t, "$" if t == g.eof else "?"), t)
    rules = range(g.nrules)
    start_rule = g.prods[g.start_prod][0]

    # ---- nullable, FIRST, has_path: equality with the proved-exact references
    if any(k in im.flags for k in ("FIRSTPANIC", "FOLLOWPANIC", "HPPANIC")):
        bad.add("analyses-panic")
        rep.violation(dict(base, what="an analysis query panicked", impl=im.flags))
        return
    if im.nul != mo.nul:
        bad.add("nullable")
        r = sorted(im.nul ^ mo.nul)[0]
        rep.violation(dict(base, what="epsilon flag differs from 'rule derives the empty string'", rule=rn(r),
                           impl=r in im.nul, reference=r in mo.nul, authority="C17_nullable_exact / C17_first_exact"))
    for r in rules:
        if im.fi.get(r, set()) != mo.fi.get(r, set()):
            bad.add("first")
            t = sorted(im.fi.get(r, set()) ^ mo.fi.get(r, set()))[0]
            rep.violation(dict(base, what="FIRST set differs from the tokens that can begin a string derived from the rule",
                               rule=rn(r), token=tn(t), impl_has=t in im.fi.get(r, set()), reference_has=t in mo.fi.get(r, set()),
                               authority="C17_first_exact"))
            break
    if im.hp != mo.hp:
        bad.add("has_path")
        a, b = sorted(im.hp ^ mo.hp)[0]
        rep.violation(dict(base, what="has_path differs from reachability through productions", from_rule=rn(a), to_rule=rn(b),
                           impl=(a, b) in im.hp, reference=(a, b) in mo.hp, authority="C17_has_path_exact"))

    # ---- FOLLOW
    all_reach = all(r == start_rule or (start_rule, r) in mo.hp for r in rules)
    ctx.count("all_rules_reachable" if all_reach else "has_unreachable_rule")
    missing = [(r, t) for r in rules for t in sorted(mo.fos.get(r, set()) - im.fo.get(r, set()))]
    extra = [(r, t) for r in rules for t in sorted(im.fo.get(r, set()) - mo.fot.get(r, set()))]
    if all_reach and mo.fos != mo.fot:
        rep.violation(dict(base, what="reference FOLLOW variants differ although every rule is reachable (tool defect)"), no_input=True)
    if not all_reach and not missing and not extra and any(im.fo.get(r, set()) != mo.fos.get(r, set()) for r in rules):
        ctx.count("follow_strictly_between_strict_and_textbook")
    if missing or extra:
        bad.add("follow")
        key = None
        if not extra and {r: im.fo.get(r, set()) for r in rules} == follows_mirror(g, mo.nul, mo.fi):
            key = K_FOLLOW
        r, t = (missing + extra)[0]
        rep.violation(dict(base, what="FOLLOW set %s" % ("misses a token that can follow the rule in a sentential form derived from the start rule"
                                                          if missing else "contains a token no production lets follow the rule"),
                           rule=rn(r), token=tn(t), missing=[(rn(a), tn(b)) for a, b in missing[:8]],
                           extra=[(rn(a), tn(b)) for a, b in extra[:8]],
                           impl_follow={rn(a): sorted(im.fo.get(a, set())) for a in rules},
                           reference_follow={rn(a): sorted(mo.fos.get(a, set())) for a in rules},
                           authority="C17_follow_strict_exact (missing) / C17_follow_textbook_exact (extra)"), key=key)

    # ---- costs
    if "nocost" in im.flags:
        return
    if im.unstable:
        # one generator asked the same question twice: whichever answer is the true one, the other is not
        bad.add("query-order")
        k, r, a, b = im.unstable[0]
        rep.violation(dict(base, what="the same query on one SentenceGenerator is answered differently the second time "
                           "(at most one of the answers is the true value)", query={"MIN": "min_sentence_cost", "MAX": "max_sentence_cost",
                           "MS": "min_sentence", "MSS": "min_sentences", "MSSBIG": "min_sentences"}[k], rule=rn(r), first=a, later=b))
    fx_consistency(ctx, rep, base, g, mo, rn, bad)
    if COSTS_FIXED:
        costs_fixed(ctx, rep, base, g, im, mo, rn, tn, bad)
        return
    cm = mo.cm
    if cm is None:
        ctx.count("reference_costs_not_certified")
        bad.add("uncertified")
        return
    cost = im.cost
    # the added start rule ^ last, so that witnesses name the user's rules
    productive = sorted((r for r in rules if cm.get(r) is not None), key=lambda r: (r == start_rule, r))
    unprod = [r for r in rules if cm.get(r) is None]
    if any(cm[r][0] > U16MAX or (cm[r][1] or 0) >= U16MAX for r in productive):
        ctx.count("cost_beyond_u16_skipped")
        return
    cert = {rn(r): ("unproductive" if cm.get(r) is None else {"min": cm[r][0], "max": "unbounded" if cm[r][1] is None else cm[r][1]}) for r in rules}
    # minimum costs and termination
    mm = mo.mm[0] if mo.mm else "?"
    if "MINHANG" in im.flags or "MINPANIC" in im.flags:
        bad.add("min-termination")
        hang = "MINHANG" in im.flags
        predicted = (hang and mm == "diverges") or (not hang and mm == "panic" and "Overflow" in im.flags["MINPANIC"])
        key = None
        if predicted:
            key = K_MIN_UNPROD if unprod else K_MIN_CYCLE
        if not predicted:
            ctx.count("min_outcome_not_predicted_by_mirror")
        if not (productive or hang):
            return
        rep.violation(dict(base, what=("min_sentence_cost does not terminate" if hang else
                                       "min_sentence_cost panics (%s) although the rule has a minimum" % im.flags["MINPANIC"]),
                           rule=rn(productive[0]) if productive else rn(unprod[0]),
                           certified=cert, unproductive_rules=[rn(r) for r in unprod],
                           mirror_of_rule_min_costs=mm,
                           authority="C17_certified_costs_exact (true minima exist); C17_mc_run_spec (the mirrored loop %s)" % mm),
                      key=key)
    else:
        if mm != "done" or [im.min.get(r) for r in rules] != mo.mm[1]:
            bad.add("min-mirror")
            ctx.count("min_mirror_disagrees")
        for r in productive:
            if im.min.get(r) != cm[r][0]:
                bad.add("min")
                rep.violation(dict(base, what="min_sentence_cost differs from the true minimum", rule=rn(r), impl=im.min.get(r),
                                   certified=cert, authority="C17_certified_costs_exact"))
                break
        else:
            # minimal sentences (only meaningful once the minima are right)
            if "MSHANG" in im.flags or "MSPANIC" in im.flags:
                bad.add("min_sentence")
                rep.violation(dict(base, what="min_sentence / min_sentences does not return", impl=im.flags, certified=cert))
            else:
                check_sentences(ctx, rep, base, g, cost, cm, im, productive, rn, tn, cert, bad)
    # maximum costs
    if "MAXHANG" in im.flags or "MAXPANIC" in im.flags:
        bad.add("max-termination")
        rep.violation(dict(base, what="max_sentence_cost does not return", impl=im.flags, certified=cert))
    else:
        diffs = [r for r in productive if im.max.get(r, "?") != cm[r][1]]
        if diffs:
            bad.add("max")
            r = diffs[0]
            mirror = max_mirror(g, cost, mo.hp)
            same = mirror is not None and all(im.max.get(a, "?") == mirror[a] for a in rules)
            key = None
            iv, cv = im.max.get(r), cm[r][1]
            if same:
                if iv is None and cv is not None:
                    key = K_MAX_REC
                elif iv is not None and (cv is None or iv < cv):
                    key = K_MAX_EARLY
            rep.violation(dict(base, what=("max_sentence_cost reports unbounded, the true maximum is finite" if iv is None else
                                           "max_sentence_cost is smaller than the cost of a derivable sentence" if (cv is None or iv < cv) else
                                           "max_sentence_cost is larger than every derivable sentence"),
                               rule=rn(r), impl="unbounded" if iv is None else iv, certified=cert,
                               all_differing_rules=[rn(a) for a in diffs], authority="C17_certified_costs_exact"), key=key)


def fx_consistency(ctx, rep, base, g, mo, rn, bad):
    """two proved references must agree (C17_fixed_costs_agree_certified); a difference is a defect of the tool chain"""
    if mo.fxmin is None or mo.fxmax is None or mo.fxmin[0] == "fuel" or mo.fxmax[0] == "fuel":
        bad.add("fx-mirror")
        rep.violation(dict(base, what="the mirror of the repaired cost functions gave no answer (missing / out of fuel): contradicts "
                           "C17_fixed_costs_terminate, i.e. a defect of the dump or the driver", mirror_min=mo.fxmin, mirror_max=mo.fxmax),
                      no_input=True)
        return
    if mo.cm is None or mo.fxmin[0] != "vals" or mo.fxmax[0] != "vals":
        return
    for r in range(g.nrules):
        v = mo.cm.get(r)
        exp = (U16MAX, 0) if v is None else (v[0], U16MAX if v[1] is None else v[1])
        if (mo.fxmin[1][r], mo.fxmax[1][r]) != exp:
            bad.add("fx-vs-certified")
            rep.violation(dict(base, what="the mirror of the repaired cost functions and the certified reference disagree "
                               "(contradicts C17_fixed_costs_agree_certified: defect of the extraction / driver)", rule=rn(r),
                               mirror=(mo.fxmin[1][r], mo.fxmax[1][r]), certified=exp), no_input=True)
            return


def costs_fixed(ctx, rep, base, g, im, mo, rn, tn, bad):
    """COSTS_FIXED: bit-for-bit comparison of min_sentence_cost / max_sentence_cost of every rule with the proved mirror"""
    if "fx-mirror" in bad:
        return
    rules = range(g.nrules)
    start_rule = g.prods[g.start_prod][0]
    fxmin, fxmax = mo.fxmin, mo.fxmax
    cost = im.cost
    show = lambda v: {rn(r): v[1][r] for r in rules} if v[0] == "vals" else v[0]
    ref = {"mirror_min (65535 = no sentence)": show(fxmin), "mirror_max (65535 = unbounded, 0 = no sentence)": show(fxmax)}
    # ---- minimum
    min_equal = False
    if fxmin[0] == "panic":
        ctx.count("min_overflow_expected")
        if not ("MINPANIC" in im.flags and "Overflow" in im.flags["MINPANIC"]):
            bad.add("min")
            rep.violation(dict(base, mirror=ref, what="min_sentence_cost returns although the true minimum cost of some rule does not fit u16 "
                               "(the documented overflow panic is missing)", impl=im.flags or im.min,
                               authority="C17_min_costs_fixed_panic_iff"))
    elif "MINHANG" in im.flags or "MINPANIC" in im.flags:
        bad.add("min-termination")
        rep.violation(dict(base, mirror=ref, what=("min_sentence_cost does not terminate" if "MINHANG" in im.flags else
                                            "min_sentence_cost panics (%s) although every true minimum fits u16" % im.flags["MINPANIC"]),
                           authority="C17_min_costs_fixed_exact (the mirrored loop returns within nrules + 2 rounds with these values)"))
    else:
        vals = [im.min.get(r) for r in rules]
        diffs = [r for r in rules if vals[r] != fxmin[1][r]]
        if diffs:
            bad.add("min")
            pd = sorted((r for r in diffs if fxmin[1][r] != U16MAX), key=lambda r: (r == start_rule, r))
            if pd:
                rep.violation(dict(base, mirror=ref, what="min_sentence_cost differs from the true minimum", rule=rn(pd[0]), impl=vals[pd[0]],
                                   true_minimum=fxmin[1][pd[0]], all_differing_rules=[rn(a) for a in diffs],
                                   authority="C17_min_costs_fixed_exact"))
            else:
                rep.violation(dict(base, mirror=ref, what="min_sentence_cost of a rule that derives no sentence is not the u16::MAX of the mirrored "
                                   "algorithm (the property does not constrain this value; C17_min_costs_fixed_exact is no longer about this code)",
                                   rule=rn(diffs[0]), impl=vals[diffs[0]]), no_input=True)
        else:
            min_equal = True
    # ---- maximum
    if fxmax[0] == "panic":
        ctx.count("max_overflow_expected")
        if not ("MAXPANIC" in im.flags and "Overflow" in im.flags["MAXPANIC"]):
            bad.add("max")
            rep.violation(dict(base, mirror=ref, what="max_sentence_cost returns although the true finite maximum cost of some rule does not fit u16 "
                               "(the documented overflow panic is missing)", impl=im.flags or im.max,
                               authority="C17_max_costs_fixed_panic_iff"))
    elif "MAXHANG" in im.flags or "MAXPANIC" in im.flags:
        bad.add("max-termination")
        rep.violation(dict(base, mirror=ref, what=("max_sentence_cost does not terminate" if "MAXHANG" in im.flags else
                                            "max_sentence_cost panics (%s) although every true finite maximum fits u16" % im.flags["MAXPANIC"]),
                           authority="C17_max_costs_fixed_exact (all mirrored loops return within their fuel with these values)"))
    else:
        vals = [U16MAX if im.max.get(r, "?") is None else im.max.get(r, "?") for r in rules]
        diffs = [r for r in rules if vals[r] != fxmax[1][r]]
        if diffs:
            bad.add("max")
            unprod = set(r for r in rules if fxmin[0] == "vals" and fxmin[1][r] == U16MAX)
            pd = sorted((r for r in diffs if r not in unprod), key=lambda r: (r == start_rule, r))
            if pd:
                r = pd[0]
                iv, cv = vals[r], fxmax[1][r]
                rep.violation(dict(base, mirror=ref, what=("max_sentence_cost reports unbounded, the true maximum is finite" if iv == U16MAX else
                                                    "max_sentence_cost is smaller than the cost of a derivable sentence" if iv < cv else
                                                    "max_sentence_cost is larger than every derivable sentence"),
                                   rule=rn(r), impl="unbounded" if iv == U16MAX else iv, true_maximum="unbounded" if cv == U16MAX else cv,
                                   all_differing_rules=[rn(a) for a in diffs], authority="C17_max_costs_fixed_exact"))
            else:
                rep.violation(dict(base, mirror=ref, what="max_sentence_cost of a rule that derives no sentence is not the 0 of the mirrored algorithm "
                                   "(the property does not constrain this value; C17_max_costs_fixed_exact is no longer about this code)",
                                   rule=rn(diffs[0]), impl=vals[diffs[0]]), no_input=True)
    # ---- minimal sentences, against the proved minima (token costs > 0, as sentence_generator documents)
    if any(v == 0 for v in cost.values()):
        ctx.count("zero_cost_token_costs_only")
        return
    if min_equal and fxmax[0] == "vals":
        cmx = {r: (None if fxmin[1][r] == U16MAX else (fxmin[1][r], None if fxmax[1][r] == U16MAX else fxmax[1][r])) for r in rules}
        productive = sorted((r for r in rules if cmx[r] is not None), key=lambda r: (r == start_rule, r))
        cert = {rn(r): ("unproductive" if cmx[r] is None else {"min": cmx[r][0], "max": "unbounded" if cmx[r][1] is None else cmx[r][1]}) for r in rules}
        if "MSHANG" in im.flags or "MSPANIC" in im.flags:
            bad.add("min_sentence")
            rep.violation(dict(base, what="min_sentence / min_sentences does not return", impl=im.flags, certified=cert))
        else:
            check_sentences(ctx, rep, base, g, cost, cmx, im, productive, rn, tn, cert, bad)


def check_sentences(ctx, rep, base, g, cost, cm, im, productive, rn, tn, cert, bad):
    wc = lambda s: sum(cost.get(t, 1) for t in s)
    sets = min_sentence_sets(g, cost, cm)
    if sets is None:
        ctx.count("min_sentence_set_too_large_for_oracle")
    for r in productive:
        if r not in im.ms:
            continue
        s = im.ms[r]
        ok = g.earley(list(s), start=r)[0] and wc(s) == cm[r][0]
        if not ok:
            bad.add("min_sentence")
            mirror = ms_mirror(g, cost, im.min, r)
            key = K_MS if mirror == s else None
            rep.violation(dict(base, what="min_sentence returns a string that is %s" %
                               ("not derivable from the rule" if not g.earley(list(s), start=r)[0] else "derivable but not of minimum cost"),
                               rule=rn(r), impl_sentence=[tn(t) for t in s], impl_sentence_cost=wc(s), certified=cert,
                               a_minimal_sentence=[tn(t) for t in sorted(sets[r])[0]] if sets and sets[r] else None,
                               authority="Earley recogniser on the dumped grammar + C17_certified_costs_exact"), key=key)
            break
    for r in productive:
        if r in im.mssbig:
            ctx.count("min_sentences_over_400_not_compared")
            continue
        if r not in im.mss:
            continue
        got = im.mss[r]
        wrong = [s for s in got if not (g.earley(list(s), start=r)[0] and wc(s) == cm[r][0])]
        if wrong:
            bad.add("min_sentences")
            rep.violation(dict(base, what="min_sentences contains a string that is not a minimum-cost sentence of the rule", rule=rn(r),
                               sentence=[tn(t) for t in wrong[0]], cost=wc(wrong[0]), certified=cert,
                               authority="Earley recogniser + C17_certified_costs_exact"))
            break
        if sets is not None and set(got) != sets[r]:
            bad.add("min_sentences")
            miss = sorted(sets[r] - set(got))
            rep.violation(dict(base, what="min_sentences misses a minimum-cost sentence of the rule", rule=rn(r),
                               missing=[[tn(t) for t in s] for s in miss[:3]], impl_count=len(got), certified=cert,
                               authority="enumeration of the tight productions under the certified minima; each member checked by Earley"))
            break
        if not got:
            bad.add("min_sentences")
            rep.violation(dict(base, what="min_sentences is empty for a productive rule", rule=rn(r), certified=cert))
            break
    if sets is not None:
        # the oracle itself is checked member by member
        for r in productive:
            for s in list(sets[r])[:50]:
                if not (g.earley(list(s), start=r)[0] and wc(s) == cm[r][0]):
                    rep.violation(dict(base, what="oracle defect: enumerated sentence is not minimal", rule=rn(r)), no_input=True)
                    return


def run(ctx):
    ctx.gate = core.proof_gate("C17")
    for _ in ctx.gate["theorems"]:
        ctx.oblige(True)
    exe = core.build_harness("c17")
    mexe = core.build_model("c17")
    # the queries asked one by one (checks/c17_queries.py): the stack-depth runs (one process each) go on in the background
    from checks import c17_queries as CQ
    qexe = core.build_harness("c17q")
    depth_pending = CQ.start_depth(ctx, qexe)
    cases = gen_cases(ctx, ctx.n(1000, 12000))
    orders = gen_orders(ctx, cases)
    extra = corpus_all_orders(cases)
    cases += [c for c, _ in extra]
    orders += [o for _, o in extra]
    srcs = [g.render() for _, g, _ in cases]
    lines = [case_line(s, c[2], o) for s, c, o in zip(srcs, cases, orders)]
    # pass 1: analyses only (cannot hang); model on the implementation's own dump
    p1 = core.run_lines([exe, "nocost"], lines)
    # tie of the PROVED mirrors of YaccFirsts::new / YaccFollows::new (C17/MirrorProofs.v) to the code
    from checks import c17_mirror
    c17_mirror.run_part(ctx, cases, p1=p1, account=False)
    model = core.run_lines([mexe], p1)
    impl1 = [Impl(l) for l in p1]
    models = [Model(l) for l in model]
    # pass 2: sentence-generator queries; min_sentences only where the result is of bounded size
    full, small = [], []
    for i, (im, mo) in enumerate(zip(impl1, models)):
        if not (im.ok and mo.ok):
            continue
        if mo.cm is None:
            full.append(i)
            continue
        g = cfg.DGram(im.secs)
        big = (min_sentence_count_fixed if COSTS_FIXED else min_sentence_count)(g, im.cost, mo.cm) >= 2000
        (small if big else full).append(i)
    env = {"GVH_COST_TIMEOUT_MS": "1200"}
    p2 = {}
    for idxs, args in ((full, []), (small, ["nomss"])):
        outs = core.run_lines([exe] + args, [lines[i] for i in idxs], env=env) if idxs else []
        for i, o in zip(idxs, outs):
            p2[i] = (o, args)
    # a hang that the mirrored iteration does not predict, or a lost case, is re-run alone with a long timeout
    for i, (o, args) in list(p2.items()):
        im = Impl(o)
        mm = models[i].mm[0] if models[i].mm else "?"
        suspicious = (not im.ok) or any(k in im.flags for k in ("MSHANG", "MAXHANG")) or ("MINHANG" in im.flags and (COSTS_FIXED or mm != "diverges"))
        if suspicious and ctx.hist.get("rerun_alone", 0) >= 12:
            ctx.count("rerun_alone_skipped (more than 12 suspicious cases: first outcome kept)")
        elif suspicious:
            ctx.count("rerun_alone")
            o2 = core.run_lines([exe] + args, [lines[i]], shards=1,
                                env={"GVH_COST_TIMEOUT_MS": "10000", "GVH_CASE_TIMEOUT_MS": "60000"})[0]
            if not Impl(o2).ok:
                o2 = core.run_lines([exe, "noms"], [lines[i]], shards=1,
                                    env={"GVH_COST_TIMEOUT_MS": "10000", "GVH_CASE_TIMEOUT_MS": "60000"})[0]
            p2[i] = (o2, args)
    rep = Reporter(ctx)
    aspects = ["nullable", "first", "has_path", "follow", "min", "min-termination", "min-mirror", "max", "max-termination",
               "min_sentence", "min_sentences", "analyses-panic", "uncertified", "lost", "fx-mirror", "fx-vs-certified", "query-order"]
    failed = set()
    for i, (fam, gr, costs) in enumerate(cases):
        im1, mo = impl1[i], models[i]
        if not im1.ok:
            ctx.count("grammar_rejected_" + p1[i].split()[0])
            if p1[i].startswith("BUILDPANIC") or p1[i].startswith("HANG") or p1[i].startswith("CRASH"):
                rep.violation({"what": "grammar construction / analyses do not return", "grammar": srcs[i], "impl": p1[i][:300]})
                failed.add("lost")
            continue
        ctx.count("family_" + fam)
        if not mo.ok or not mo.wf or mo.nul is None or mo.hp is None or not mo.fos or not mo.fot:
            rep.violation({"what": "reference side gave no answer (dump not well-formed / reference returned None)",
                           "grammar": srcs[i], "model": model[i][:300]}, no_input=True)
            failed.add("uncertified")
            continue
        o, args = p2.get(i, (p1[i], ["nocost"]))
        im = Impl(o)
        if args == ["nocost"]:
            im.flags["nocost"] = ""
        if not im.ok:
            failed.add("lost")
            rep.violation({"what": "the process running the cost queries died or hung as a whole", "grammar": srcs[i],
                           "costs_by_token_name": costs, "impl": o[:300]})
            im = im1
            im.flags["nocost"] = ""
        elif im.nul != im1.nul or im.fi != im1.fi or im.fo != im1.fo or im.hp != im1.hp:
            rep.violation({"what": "two runs on the same grammar give different analyses", "grammar": srcs[i]})
            failed.add("lost")
        bad = set()
        if args != ["nocost"] and "nocost" not in im.flags and im.order != orders[i]:
            rep.violation({"what": "harness answered under another query order than asked (tool defect)", "line": lines[i]}, no_input=True)
            bad.add("lost")
        ctx.count("query_order_%d" % orders[i])
        evaluate(ctx, rep, fam, srcs[i], costs, im, mo, bad, orders[i])
        failed |= bad
        g = cfg.DGram(im.secs)
        nontriv = bool(mo.nul) or any(a == b for a, b in mo.hp)
        for k in sorted(im.flags):
            ctx.count("impl_" + k)
        if mo.cm:
            ctx.count("with_unproductive_rule" if any(v is None for v in mo.cm.values()) else "all_rules_productive")
            ctx.count("max_unbounded_somewhere" if any(v is not None and v[1] is None for v in mo.cm.values()) else "all_maxima_finite")
        ctx.case(lines[i], nontriv, {"family": fam, "grammar": srcs[i], "costs": costs, "differences": sorted(bad),
                                     "certified_costs": {str(r): v for r, v in sorted((mo.cm or {}).items())},
                                     "mirror_rule_min_costs": mo.mm[0] if mo.mm else None})
    # ---- the queries one by one: overflow of one rule, recursion depth of min_sentences, the mirror of min_sentences
    qbad, qknown, qstats = CQ.eval_overflow(ctx, rep, qexe, mexe, Model, names)
    dbad, dknown, dstats = CQ.finish_depth(ctx, rep, depth_pending)
    mbad, n_msb = CQ.eval_msb_mirror(ctx, rep, mexe, lines, [p2[i][0] if i in p2 else "" for i in range(len(lines))])
    cbad, cknown, cstats = CQ.eval_clique(ctx, rep, qexe, mexe)
    failed |= qbad | dbad | mbad | cbad
    aspects += ["overflow-queries", "overflow-panic", "query-panic", "query-values", "min_sentences-depth", "depth-values",
                "depth-crash", "msb-mirror", "min_sentences-paths", "clique-values", "clique-mirror", "clique-duplicates"]
    if qknown:
        CQ.patch_note(ctx, CQ.K_OVF, "%s (%d queries, first: %s)" % (CQ.K_OVF, len(qknown), qknown[0]))
    if dknown:
        CQ.patch_note(ctx, CQ.K_DEPTH, "%s (%d runs, first: %s)" % (CQ.K_DEPTH, len(dknown), dknown[0]))
    if cknown:
        CQ.patch_note(ctx, CQ.K_PATHS, "%s (%s)" % (CQ.K_PATHS, cknown[0]))
    ctx.coverage["queries_one_by_one"] = dict(qstats, **dstats)
    ctx.coverage["queries_one_by_one"].update(cstats)
    ctx.coverage["queries_one_by_one"]["rules_whose_min_sentences_equals_the_mirror_in_order"] = n_msb
    ctx.coverage["queries_one_by_one"]["known_class_instances"] = {"overflow_of_another_rule": qknown[:6], "stack_depth": dknown[:6],
                                                                     "factorial_paths": cknown}
    for a in aspects:
        ctx.oblige(a not in failed, a)
    ctx.coverage["rule"] = ("grammar families: random (incl. unreachable / unproductive / unit-cyclic rules), reduced random, nullable-heavy, "
                            "expression, LR(1)-not-LALR templates, unit cycles, nullable rules between a rule and what follows it, non-recursive "
                            "DAGs in shuffled declaration order, added unreachable rules, rule cycles whose round trip gains cost through siblings of "
                            "different kinds (nullable only / token levels down / single token / unproductive), hand-written corpus; token costs 1..255 (uniform, narrow "
                            "or wide ranges); every rule x token (FIRST, FOLLOW), every rule pair (has_path), every rule (epsilon, min, max, "
                            "min_sentence, min_sentences); the cost queries of a case are made either on fresh generators per query group or on ONE "
                            "generator in one of 7 orders (max first / min first / min_sentence first / min_sentences first / every query twice / "
                            "interleaved per rule / max first and last), order drawn per case, every corpus grammar under every order: the answers "
                            "must be the model's whatever the order and a repeated query must repeat its answer; "
                            "queries one by one (checks/c17_queries.py): every query of every rule of an overflow family (the two grammars "
                            "of the audit, true costs exactly 65534 / 65535, max-only overflow, reachable overflow, unbounded and large "
                            "controls, random non-recursive grammars plus one long rule around the boundary) on fresh generators and on "
                            "one generator, each panic classified against the certified costs (own cost >= 65535: accepted refusal; only "
                            "another rule's: known class; none: violation); min_sentences on a thread with an explicit 2 MiB stack in its "
                            "own process for chains of 501 .. 12001 (thorough: .. 20001) rules in three shapes and wide / tree controls; "
                            "min_sentences = its extracted mirror, sentence list in order, for every rule of every enumerated case; "
                            "min_sentences of every rule of the unit-production clique R0: R1 | 'x'; Ri: every other rule, m = 4..8 (thorough "
                            "2..9), whole list: every element must be ['x'], the number of copies is recorded (known class: factorial "
                            "growth with the list equal to the mirror's for m <= 7; one copy everywhere: quiet); "
                            "non-trivial = some rule is nullable or recursive; distinct by case line")
    ctx.coverage["query_orders"] = {str(k): ctx.hist.get("query_order_%d" % k, 0) for k in sorted(ORDERS)}
    ctx.coverage["exhaustive"] = False
    ctx.coverage["aspects_with_a_difference"] = sorted(failed)
    ctx.assumptions += [
        "FOLLOW is read over sentential forms derivable from the start rule; productions of unreachable rules may also contribute "
        "(textbook algorithm): strict <= impl <= textbook is demanded, equality when every rule is reachable",
        "has_path(a,b) is reachability in >= 1 production steps (has_path(a,a) iff a is recursive), as documented",
        "cost values are demanded for rules that derive at least one token string; termination for every grammar; costs 1..255 (0 excluded as documented)",
        ("COSTS_FIXED = True: min/max_sentence_cost of every rule (unproductive ones too: u16::MAX / 0 by the repaired functions' convention) are "
         "compared with the mirror proved exact for all grammars (C17_min_costs_fixed_exact, C17_max_costs_fixed_exact)") if COSTS_FIXED else
        ("COSTS_FIXED = False: the original rule_min_costs / rule_max_costs are in /repo; their four defect classes are known findings; the mirror of "
         "the repaired functions is only cross-checked against the certified reference (C17_fixed_costs_agree_certified)"),
        "min_sentences is compared as a set (duplicates and order are free); sets beyond 400 sentences are not compared",
        "a panic of a cost query is accepted as the documented refusal only when the ASKED rule's own true finite cost is >= 65535 (min-side "
        "queries: its minimum; max_sentence_cost: its maximum); a panic caused by another rule's cost is the known class "
        "C17-overflow-unrelated-rule, any other panic a violation",
        "the native stack is observed with the thread stack size Rust gives spawned threads (2 MiB) in the harness's release profile; "
        "the known class C17-min_sentences-recursion-depth is a stack overflow INSIDE min_sentences whose recursion (frames counted by "
        "the transcription of the mirror) is at least 1000 calls deep",
        "the known class C17-min_sentences-factorial-paths is decided without timing: the whole answer list on the clique of unit productions "
        "consists of copies of the one minimal sentence, their number c(m) satisfies c(8) >= 5 c(7) >= 25 c(6), and the list equals the "
        "extracted mirror's list (C17_min_sentences_clique_copies) for m <= 7; duplicates as such are not a violation of the property",
        "the reference costs are certified per case by verified checkers (C17_certified_costs_exact); a case on which the search finds no "
        "accepted certificate is counted as 'reference_costs_not_certified' and fails an obligation, it is never turned into a verdict",
    ]
